#!/bin/bash
# adopt_seed.sh <cNN> <round> <demo file in _seeded> <package dir> <test regex> <PROPERTY IDs to run...>
# Confirms a sub-agent's seeded change (worktree /tmp/wt-<cNN>-<round>), copies it to seeded/<cNN>-<round>/, runs the named checks against it.
c=$1; n=$2; demo=$3; pkg=$4; re=$5; shift 5
wt=/tmp/wt-$c-$n
/verif/tools/confirm_seed.sh $wt _seeded/$demo $pkg "$re" || exit 2
mkdir -p /verif/seeded/$c-$n && cp -r $wt/_seeded/. /verif/seeded/$c-$n/
for id in "$@"; do
  timeout 1800 /verif/tools/try_seed.sh $c-$n $id quick 2>&1 | grep -a "VIOLATION\|INCONCLUSIVE\|try_seed" | cut -c1-220 | head -4
done
