#!/bin/bash
# try_seed.sh <seed dir name under seeded/> <PROPERTY ID> [tier] [extra check args]
# Applies the seeded patch to a scratch worktree of /repo, runs the check against it, removes the worktree.
s=$1; id=$2; tier=${3:-quick}; shift 3 2>/dev/null
wt=/tmp/mut-$s
git -C /repo worktree remove --force $wt 2>/dev/null
git -C /repo worktree add -q --detach $wt HEAD || exit 2
( cd $wt && { git apply /verif/seeded/$s/patch.diff 2>/dev/null || git apply -3 /verif/seeded/$s/patch.diff; } ) || { echo "patch does not apply"; git -C /repo worktree remove --force $wt; exit 2; }
cd /verif && ./check $id $tier --repo $wt "$@"; rc=$?
git -C /repo worktree remove --force $wt
rm -rf /verif/.work/$(echo $id | tr A-Z a-z)-alt
echo "try_seed $s $id $tier => exit $rc"
exit $rc
