#!/usr/bin/env python3
"""Runs the repository's pinned test suite in DIR (default /repo) and checks
that every test in BASELINE.json's stable_pass set still passes."""
import json, subprocess, sys, os
d = sys.argv[1] if len(sys.argv) > 1 else "/repo"
env = dict(os.environ, GOFLAGS="-mod=mod", GOPROXY="off", GOSUMDB="off", GOTOOLCHAIN="local")
out = subprocess.run(["go", "test", "-json", "-vet=off", "-count=1", "-timeout", "25m", "./..."], cwd=d, env=env, capture_output=True, text=True).stdout
res = {}
for line in out.splitlines():
    try:
        e = json.loads(line)
    except Exception:
        continue
    if e.get("Action") in ("pass", "fail", "skip") and e.get("Test"):
        res[e["Package"] + "::" + e["Test"]] = e["Action"]
base = json.load(open("/root/.vp/BASELINE.json"))["stable_pass"]
bad = [t for t in base if res.get(t) != "pass"]
print("baseline stable_pass: %d, now passing: %d, regressions: %d" % (len(base), len(base) - len(bad), len(bad)))
for t in bad[:20]:
    print("  REGRESSION", t, res.get(t))
sys.exit(1 if bad else 0)
