#!/usr/bin/env python3
"""Regenerates /verif/MANIFEST.json from props/*/meta.json and validates it."""
import json, glob, os, sys
root = os.path.dirname(os.path.dirname(os.path.abspath(__file__)))
props = [json.loads(l) for l in open(os.path.join(root, "properties.jsonl"))]
ids = [p["id"] for p in props]
checks, na = [], []
pending = json.load(open(os.path.join(root, "tools", "not_claimed.json")))
for pid in ids:
    mp = os.path.join(root, "props", pid.lower(), "meta.json")
    if not os.path.exists(mp) or pid in pending:
        na.append({"property_id": pid, "reason": pending.get(pid, "check not built yet")})
        continue
    m = json.load(open(mp))
    c = {
        "property_id": pid,
        "quick_cmd": "./check %s quick" % pid,
        "thorough_cmd": "./check %s thorough" % pid,
        "evidence_file": "/verif/evidence/%s.json" % pid,
        "replay_cmd_template": "./check %s --replay {path}" % pid,
        "engine": "vcheck",
        "level_claimed": {"category": "exploration", "text": m["level_text"], "design_ref": m.get("design_ref", "DESIGN.md §3 " + pid)},
        "level_note": m["level_note"],
        "technique": m["technique"],
    }
    checks.append(c)
hooks = json.load(open(os.path.join(root, "tools", "hooks.json")))
man = {
    "version": 1,
    "setup_cmd": "./setup.sh",
    "hooks": hooks,
    "engines": [{"name": "vcheck", "path": "/verif/cmd/vcheck", "serves_properties": [c["property_id"] for c in checks],
                 "kind_free_text": "Go driver: rebuilds props/<id> (rapid v1.3.0 property tests, exhaustive enumerations, native go fuzzing in the thorough tier) against /repo's working tree, runs shards, merges measured statistics into evidence, replays saved cases"}],
    "checks": checks,
    "not_applicable": na,
    "notes": "Every property is decided by generated-input search against an explicit oracle (property-based testing / fuzzing). See DESIGN.md. Exit 2 from a check means inconclusive (build failure, timeout), never a violation.",
}
out = os.path.join(root, "MANIFEST.json")
json.dump(man, open(out, "w"), indent=1)
open(out, "a").write("\n")
try:
    import jsonschema
    jsonschema.validate(man, json.load(open("/root/.vp/MANIFEST.schema.json")))
    print("MANIFEST.json valid:", len(checks), "checks,", len(na), "not claimed")
except ImportError:
    print("jsonschema not available; wrote without validation")
