#!/bin/bash
# try_mutation.sh <PROPERTY ID> <file> <sed-expression> [tier]
# Applies an ad-hoc sed mutation to a scratch worktree of /repo and runs the check against it.
id=$1; file=$2; expr=$3; tier=${4:-quick}
wt=/tmp/mut-adhoc-$$
git -C /repo worktree add -q --detach $wt HEAD || exit 2
sed -i "$expr" $wt/$file
if git -C $wt diff --quiet; then echo "mutation did not change anything"; git -C /repo worktree remove --force $wt; exit 2; fi
( cd $wt && GOFLAGS=-mod=mod GOPROXY=off GOSUMDB=off GOTOOLCHAIN=local go build ./... ) || { echo "mutant does not compile"; git -C /repo worktree remove --force $wt; exit 2; }
cd /verif && timeout 900 ./check $id $tier --repo $wt > /tmp/mut-$$.log 2>&1; rc=$?
grep -m3 "VIOLATION\|INCONCLUSIVE" /tmp/mut-$$.log | cut -c1-200
git -C /repo worktree remove --force $wt; rm -rf /verif/.work/$(echo $id | tr A-Z a-z)-alt /tmp/mut-$$.log
echo "mutation [$expr] on $file vs $id => exit $rc"
