#!/bin/bash
# run_all.sh <tier> <seed> [ids...] : runs every check, prints a one-line verdict each
tier=${1:-quick}; seed=${2:-1}; shift 2
ids=${@:-C01 C02 C03 C04 C05 C06 C07 C08 C09 C10 C11 C12 C13 C14 C15 C16 C17 C18 C19 C20}
cd /verif
for id in $ids; do
  start=$(date +%s)
  VERIF_SEED=$seed timeout 7200 ./check $id $tier > .work/runall-$id-$tier-$seed.log 2>&1; rc=$?
  end=$(date +%s)
  echo "$id $tier seed=$seed rc=$rc $((end-start))s $(grep -c 'KNOWN-FINDING' .work/runall-$id-$tier-$seed.log) known $(grep -m1 -o 'VIOLATION.*\|INCONCLUSIVE.*' .work/runall-$id-$tier-$seed.log | cut -c1-150)"
done
