#!/bin/bash
# confirm_seed.sh <worktree> <demo_test.go (relative to worktree)> <package dir> <test regex>
# Confirms: builds with the patch, demo FAILS with the patch, PASSES without; prints a summary line.
export GOFLAGS=-mod=mod GOPROXY=off GOSUMDB=off GOTOOLCHAIN=local
wt=$1; demo=$2; pkg=$3; re=$4
cd "$wt" || exit 2
git checkout -q -- . ; rm -f "$pkg"/zz_seed_demo_test.go
cp "$demo" "$pkg"/zz_seed_demo_test.go
go test -vet=off -count=1 -run "$re" ./"$pkg"/ >/tmp/seed_nopatch.log 2>&1; r0=$?
git apply _seeded/patch.diff || { echo "PATCH DOES NOT APPLY"; exit 2; }
go build ./... || { echo "DOES NOT BUILD"; exit 2; }
go test -vet=off -count=1 -run "$re" ./"$pkg"/ >/tmp/seed_patch.log 2>&1; r1=$?
rm -f "$pkg"/zz_seed_demo_test.go
python3 /verif/tools/baseline_check.py "$wt" > /tmp/seed_suite.log 2>&1; r2=$?
git checkout -q -- .
echo "demo without patch exit=$r0 (want 0); with patch exit=$r1 (want !=0); suite with patch exit=$r2 (want 0): $(tail -1 /tmp/seed_suite.log | head -c 200)"
