#!/bin/bash
# MANIFEST.setup_cmd: build the framework from files on disk only (offline).
cd "$(dirname "$0")" || exit 1
export GOFLAGS=-mod=mod GOPROXY=off GOSUMDB=off GOTOOLCHAIN=local
set -e
mkdir -p bin .work evidence replays
go build -o bin/vcheck ./cmd/vcheck
if [ -f chelper/printf_oracle.c ]; then gcc -O1 -o bin/printf_oracle chelper/printf_oracle.c; fi
# warm the build cache: compile every property package (and the race variants used)
go vet ./lib/... >/dev/null 2>&1 || true
for d in props/*/; do go test -c -vet=off -o /dev/null "./$d" >/dev/null 2>&1 || echo "setup: warning: $d does not build" >&2; done
echo setup done
