// Package h is the shared harness of the /verif property checks.
//
// A property package registers sub-checks (Prop for rapid-generated cases,
// Enum for exhaustively enumerated ones).  Every sub-check is a pair
// (generator of a JSON-serialisable case, run function deciding that case), so
// that a failure can be written out as a self-contained replay file and
// re-decided later without rapid (TestReplay).
//
// All statistics that end up in /verif/evidence/<id>.json are measured here:
// evaluations, discards by reason, cases excluded because they match an open
// known finding, per-class counters, the set of distinct non-trivial case
// hashes, and a deterministic sample of actual cases.
package h

import (
	"crypto/sha256"
	"encoding/base64"
	"encoding/hex"
	"encoding/json"
	"flag"
	"fmt"
	"hash/fnv"
	"os"
	"path/filepath"
	"runtime/debug"
	"sort"
	"strconv"
	"strings"
	"sync"
	"syscall"
	"testing"
	"time"
	"unicode/utf8"

	"pgregory.net/rapid"
)

// ---------------------------------------------------------------------------
// environment

var (
	Tier      = envStr("VERIF_TIER", "quick")
	Seed      = envInt("VERIF_SEED", 1)
	Shard     = envInt("VERIF_SHARD", 0)
	NShards   = envInt("VERIF_NSHARDS", 1)
	OutFile   = envStr("VERIF_OUT", "")
	ReplayDir = envStr("VERIF_REPLAY_DIR", "")
	KFFile    = envStr("VERIF_KF", "/verif/known_findings.json")
	WorkDir   = envStr("VERIF_WORK", "/verif/.work/tmp")
	GoawkBin  = envStr("VERIF_GOAWK", "/verif/.work/bin/goawk")
	Scale     = envFloat("VERIF_SCALE", 1.0)
	OnlySub   = envStr("VERIF_SUB", "")
	Property  = envStr("VERIF_PROPERTY", "")
)

func envStr(k, d string) string {
	if v := os.Getenv(k); v != "" {
		return v
	}
	return d
}
func envInt(k string, d int) int {
	if v := os.Getenv(k); v != "" {
		n, err := strconv.Atoi(v)
		if err == nil {
			return n
		}
	}
	return d
}
func envFloat(k string, d float64) float64 {
	if v := os.Getenv(k); v != "" {
		n, err := strconv.ParseFloat(v, 64)
		if err == nil {
			return n
		}
	}
	return d
}

func Thorough() bool { return Tier == "thorough" }

// RepoDir is the goawk tree the check runs against.
func RepoDir() string { return envStr("VERIF_REPO", "/repo") }

// ---------------------------------------------------------------------------
// Str: a string that survives JSON even when it is not valid UTF-8

type Str string

func (s Str) MarshalJSON() ([]byte, error) {
	if utf8.ValidString(string(s)) && !strings.ContainsRune(string(s), utf8.RuneError) {
		return json.Marshal(string(s))
	}
	return json.Marshal(map[string]string{"b64": base64.StdEncoding.EncodeToString([]byte(s))})
}

func (s *Str) UnmarshalJSON(b []byte) error {
	if len(b) > 0 && b[0] == '"' {
		var x string
		if err := json.Unmarshal(b, &x); err != nil {
			return err
		}
		*s = Str(x)
		return nil
	}
	var m map[string]string
	if err := json.Unmarshal(b, &m); err != nil {
		return err
	}
	d, err := base64.StdEncoding.DecodeString(m["b64"])
	if err != nil {
		return err
	}
	*s = Str(d)
	return nil
}

// ---------------------------------------------------------------------------
// known findings

type KnownFinding struct {
	ID         string `json:"id"`
	Property   string `json:"property"`
	Status     string `json:"status"` // open | fixed
	Commit     string `json:"commit,omitempty"`
	What       string `json:"what"`
	Signature  string `json:"signature,omitempty"`
	Reproducer string `json:"reproducer,omitempty"` // path relative to /verif
}

var (
	kfOnce sync.Once
	kfOpen map[string]bool
)

func loadKF() {
	kfOpen = map[string]bool{}
	data, err := os.ReadFile(KFFile)
	if err != nil {
		return
	}
	var all []KnownFinding
	if err := json.Unmarshal(data, &all); err != nil {
		fmt.Fprintf(os.Stderr, "h: cannot parse %s: %v\n", KFFile, err)
		return
	}
	for _, k := range all {
		if k.Status == "open" {
			kfOpen[k.ID] = true
		}
	}
}

// KFOpen reports whether the known finding with this id is listed as open.
// Signature predicates next to the oracles consult it; when a finding is not
// open (fixed or never listed) the oracle asserts normally.
func KFOpen(id string) bool {
	kfOnce.Do(loadKF)
	if os.Getenv("VERIF_NO_KF") != "" {
		return false
	}
	return kfOpen[id]
}

// ---------------------------------------------------------------------------
// statistics

type Failure struct {
	Sub    string `json:"sub"`
	Replay string `json:"replay"`
	Msg    string `json:"msg"`
}

type SubStats struct {
	Name        string            `json:"name"`
	Evaluations int               `json:"evaluations"`
	Requested   int               `json:"requested"`
	Exhaustive  bool              `json:"exhaustive,omitempty"`
	Discards    map[string]int    `json:"discards,omitempty"`
	Excluded    map[string]int    `json:"excluded,omitempty"`
	Classes     map[string]int    `json:"classes,omitempty"`
	Nontrivial  []uint64          `json:"nontrivial,omitempty"` // distinct hashes
	Samples     []json.RawMessage `json:"samples,omitempty"`
	Notes       []string          `json:"notes,omitempty"`
	WallS       float64           `json:"wall_s"`
	Incomplete  string            `json:"incomplete,omitempty"` // reason the sub did not finish (=> inconclusive)

	nt        map[uint64]struct{}
	sampleKey []uint64
}

type ShardStats struct {
	Property string      `json:"property"`
	Tier     string      `json:"tier"`
	Seed     int         `json:"seed"`
	Shard    int         `json:"shard"`
	NShards  int         `json:"nshards"`
	Subs     []*SubStats `json:"subs"`
	Failures []Failure   `json:"failures,omitempty"`
	Done     bool        `json:"done"`
}

var (
	mu       sync.Mutex
	shard    = &ShardStats{}
	subsByNm = map[string]*SubStats{}
)

func subStats(name string) *SubStats {
	mu.Lock()
	defer mu.Unlock()
	s := subsByNm[name]
	if s == nil {
		s = &SubStats{Name: name, Discards: map[string]int{}, Excluded: map[string]int{}, Classes: map[string]int{}, nt: map[uint64]struct{}{}}
		subsByNm[name] = s
		shard.Subs = append(shard.Subs, s)
	}
	return s
}

// Ctx is handed to every run function; it collects what the case was.
type Ctx struct {
	st        *SubStats
	replaying bool
	discarded string
	classes   []string
	excluded  []string
	ntKey     string
	isNT      bool
	note      string
	ntKeys    []string // additional non-trivial items inside one (batched) case
	extraEval int
}

// Discard marks the case as not evaluated (precondition not met).
func (x *Ctx) Discard(reason string) { x.discarded = reason }

// Class counts the case under a named class (distribution of the generator).
func (x *Ctx) Class(name string) { x.classes = append(x.classes, name) }

// Excluded records that (part of) the case was not asserted because it
// matches the signature of an open known finding.
func (x *Ctx) Excluded(kf string) { x.excluded = append(x.excluded, kf) }

// Nontrivial marks the case as non-trivial by the property's stated rule.
// key identifies the case for distinct counting; "" means hash the case JSON.
func (x *Ctx) Nontrivial(key string) { x.isNT = true; x.ntKey = key }

// NontrivialItem records one more distinct non-trivial item of a batched case.
func (x *Ctx) NontrivialItem(key string) { x.ntKeys = append(x.ntKeys, key) }

// AddEvaluations counts n additional evaluations (items of a batched case beyond the first).
func (x *Ctx) AddEvaluations(n int) { x.extraEval += n }

// Replaying is true when the case comes from a replay file.
func (x *Ctx) Replaying() bool { return x.replaying }

func hash64(b []byte) uint64 {
	f := fnv.New64a()
	f.Write(b)
	return f.Sum64()
}

const maxSamples = 6
const maxSampleBytes = 1500

func (st *SubStats) commit(x *Ctx, caseJSON func() []byte) {
	mu.Lock()
	defer mu.Unlock()
	if x.discarded != "" {
		st.Discards[x.discarded]++
		return
	}
	st.Evaluations += 1 + x.extraEval
	for _, k := range x.ntKeys {
		st.nt[hash64([]byte(k))] = struct{}{}
	}
	for _, c := range x.classes {
		st.Classes[c]++
	}
	for _, e := range x.excluded {
		st.Excluded[e]++
	}
	if x.isNT {
		var cj []byte
		var hv uint64
		if x.ntKey != "" {
			hv = hash64([]byte(x.ntKey))
		} else {
			cj = caseJSON()
			hv = hash64(cj)
		}
		if _, dup := st.nt[hv]; !dup {
			st.nt[hv] = struct{}{}
			// deterministic sample: keep the cases with the smallest hashes
			if len(st.sampleKey) < maxSamples || hv < st.sampleKey[len(st.sampleKey)-1] {
				if cj == nil {
					cj = caseJSON()
				}
				if len(cj) > maxSampleBytes {
					t, _ := json.Marshal(map[string]any{"truncated_case_json": string(cj[:maxSampleBytes]), "len": len(cj)})
					cj = t
				}
				i := sort.Search(len(st.sampleKey), func(i int) bool { return st.sampleKey[i] >= hv })
				st.sampleKey = append(st.sampleKey, 0)
				copy(st.sampleKey[i+1:], st.sampleKey[i:])
				st.sampleKey[i] = hv
				st.Samples = append(st.Samples, nil)
				copy(st.Samples[i+1:], st.Samples[i:])
				st.Samples[i] = json.RawMessage(cj)
				if len(st.sampleKey) > maxSamples {
					st.sampleKey = st.sampleKey[:maxSamples]
					st.Samples = st.Samples[:maxSamples]
				}
			}
		}
	}
}

// Note attaches a free-text note to the sub-check's statistics.
func Note(sub, format string, args ...any) {
	st := subStats(sub)
	mu.Lock()
	defer mu.Unlock()
	if len(st.Notes) < 20 {
		st.Notes = append(st.Notes, fmt.Sprintf(format, args...))
	}
}

// ---------------------------------------------------------------------------
// registration

type sub struct {
	name      string
	quick     int
	thorough  int
	check     func(t *testing.T, s *sub)
	replay    func(raw json.RawMessage) (string, error)
	isolating bool
}

var subs []*sub

// Replay file format.
type ReplayFile struct {
	Property string          `json:"property"`
	Sub      string          `json:"sub"`
	Msg      string          `json:"msg"`
	Case     json.RawMessage `json:"case"`
}

func count(s *sub) int {
	n := s.quick
	if Thorough() {
		n = s.thorough
	}
	n = int(float64(n) * Scale)
	per := (n + NShards - 1) / NShards
	if per < 1 {
		per = 1
	}
	return per
}

// writeReplay stores the failing case.  While rapid shrinks, every failing
// attempt passes through here; each overwrites the sub-check's scratch file, so
// only the last (minimal) one survives and is given its final name by Main.
func writeReplay(subName string, c any, msg string) string {
	cj, err := json.Marshal(c)
	if err != nil {
		cj, _ = json.Marshal(fmt.Sprintf("unmarshalable case: %v", err))
	}
	rf := ReplayFile{Property: Property, Sub: subName, Msg: msg, Case: cj}
	data, _ := json.MarshalIndent(rf, "", " ")
	dir := ReplayDir
	if dir == "" {
		dir = filepath.Join(os.TempDir(), "verif-replays")
	}
	os.MkdirAll(dir, 0o755)
	path := filepath.Join(dir, fmt.Sprintf(".%s-shard%d.tmp", subName, Shard))
	os.WriteFile(path, data, 0o644)
	return path
}

func finalizeReplay(f Failure) Failure {
	data, err := os.ReadFile(f.Replay)
	if err != nil {
		return f
	}
	sum := sha256.Sum256(data)
	final := filepath.Join(filepath.Dir(f.Replay), f.Sub+"-"+hex.EncodeToString(sum[:6])+".json")
	if os.Rename(f.Replay, final) == nil {
		f.Replay = final
	}
	return f
}

var lastFailure = map[string]Failure{}

func recordFailure(subName string, c any, msg string) {
	path := writeReplay(subName, c, msg)
	mu.Lock()
	lastFailure[subName] = Failure{Sub: subName, Replay: path, Msg: msg}
	mu.Unlock()
}

func safeRun[C any](x *Ctx, c C, run func(*Ctx, C) string) (msg string) {
	defer func() {
		if r := recover(); r != nil {
			msg = fmt.Sprintf("panic: %v\n%s", r, debug.Stack())
		}
	}()
	return run(x, c)
}

// currentCase persists the case about to be executed, so that a fatal,
// unrecoverable runtime error of the worker still leaves a replay behind.
func persistCurrent(subName string, c any) {
	if OutFile == "" {
		return
	}
	cj, _ := json.Marshal(c)
	rf := ReplayFile{Property: Property, Sub: subName, Msg: "worker died while executing this case", Case: cj}
	data, _ := json.Marshal(rf)
	os.WriteFile(OutFile+".current", data, 0o644)
}

// Prop registers a rapid-driven sub-check.  quick/thorough are total case
// counts over all shards.
func Prop[C any](name string, quick, thorough int, gen func(*rapid.T) C, run func(*Ctx, C) string) {
	register(name, quick, thorough, false, gen, run)
}

// PropIsolated is Prop for crash properties: the case is persisted before it
// is executed.
func PropIsolated[C any](name string, quick, thorough int, gen func(*rapid.T) C, run func(*Ctx, C) string) {
	register(name, quick, thorough, true, gen, run)
}

func register[C any](name string, quick, thorough int, isolating bool, gen func(*rapid.T) C, run func(*Ctx, C) string) {
	s := &sub{name: name, quick: quick, thorough: thorough, isolating: isolating}
	s.check = func(t *testing.T, s *sub) {
		st := subStats(name)
		n := count(s)
		st.Requested = n
		flag.Set("rapid.checks", strconv.Itoa(n))
		flag.Set("rapid.nofailfile", "true")
		seed := uint64(Seed)*1000003 + uint64(Shard)*1009 + uint64(hash64([]byte(name))%997) + 1
		flag.Set("rapid.seed", strconv.FormatUint(seed, 10))
		start := time.Now()
		defer func() { st.WallS = time.Since(start).Seconds() }()
		rapid.Check(t, func(rt *rapid.T) {
			c := gen(rt)
			if isolating {
				persistCurrent(name, c)
			}
			x := &Ctx{st: st}
			msg := safeRun(x, c, run)
			if msg != "" {
				recordFailure(name, c, msg)
				rt.Fatalf("%s", msg)
			}
			st.commit(x, func() []byte { b, _ := json.Marshal(c); return b })
		})
	}
	s.replay = func(raw json.RawMessage) (string, error) {
		var c C
		if err := json.Unmarshal(raw, &c); err != nil {
			return "", err
		}
		x := &Ctx{st: subStats(name), replaying: true}
		return safeRun(x, c, run), nil
	}
	subs = append(subs, s)
}

// Enum registers an exhaustively enumerated sub-check.  enum must yield the
// same sequence in every process; cases are dealt to shards round-robin.
// limitQuick > 0 samples the enumeration in the quick tier: every case whose
// index hashes (with the seed) below limitQuick/total is taken -- then the
// sub-check is reported as not exhaustive.
func Enum[C any](name string, enum func(thorough bool, yield func(C) bool), run func(*Ctx, C) string) {
	enumImpl(name, true, enum, run)
}

// EnumSample is Enum for enumerations that deliberately visit only a
// (seed-selected) part of a finite space: never reported as exhaustive.
func EnumSample[C any](name string, enum func(thorough bool, yield func(C) bool), run func(*Ctx, C) string) {
	enumImpl(name, false, enum, run)
}

func enumImpl[C any](name string, exhaustive bool, enum func(thorough bool, yield func(C) bool), run func(*Ctx, C) string) {
	s := &sub{name: name}
	s.check = func(t *testing.T, s *sub) {
		st := subStats(name)
		st.Exhaustive = exhaustive
		start := time.Now()
		defer func() { st.WallS = time.Since(start).Seconds() }()
		i := 0
		failed := false
		enum(Thorough(), func(c C) bool {
			mine := i%NShards == Shard
			i++
			if !mine {
				return true
			}
			x := &Ctx{st: st}
			msg := safeRun(x, c, run)
			if msg != "" {
				recordFailure(name, c, msg)
				t.Errorf("%s", msg)
				failed = true
				return false
			}
			st.commit(x, func() []byte { b, _ := json.Marshal(c); return b })
			return true
		})
		st.Requested = st.Evaluations
		if failed {
			st.Exhaustive = false
		}
	}
	s.replay = func(raw json.RawMessage) (string, error) {
		var c C
		if err := json.Unmarshal(raw, &c); err != nil {
			return "", err
		}
		x := &Ctx{st: subStats(name), replaying: true}
		return safeRun(x, c, run), nil
	}
	subs = append(subs, s)
}

// Custom registers a sub-check that drives itself (e.g. a batched probe).  fn
// reports failures through fail(caseValue, msg) and commits cases through
// x := NewCase(); ...; Commit(x, caseValue).
func Custom[C any](name string, fn func(t *testing.T, k *Custom_[C]), run func(*Ctx, C) string) {
	s := &sub{name: name}
	s.check = func(t *testing.T, s *sub) {
		st := subStats(name)
		start := time.Now()
		defer func() { st.WallS = time.Since(start).Seconds() }()
		k := &Custom_[C]{name: name, st: st, run: run, t: t}
		fn(t, k)
		st.Requested = st.Evaluations
	}
	s.replay = func(raw json.RawMessage) (string, error) {
		var c C
		if err := json.Unmarshal(raw, &c); err != nil {
			return "", err
		}
		x := &Ctx{st: subStats(name), replaying: true}
		return safeRun(x, c, run), nil
	}
	subs = append(subs, s)
}

type Custom_[C any] struct {
	name   string
	st     *SubStats
	run    func(*Ctx, C) string
	t      *testing.T
	Failed bool
}

// Do decides one case; returns false after a failure (caller should stop).
func (k *Custom_[C]) Do(c C) bool {
	x := &Ctx{st: k.st}
	msg := safeRun(x, c, k.run)
	if msg != "" {
		recordFailure(k.name, c, msg)
		k.t.Errorf("%s", msg)
		k.Failed = true
		return false
	}
	k.st.commit(x, func() []byte { b, _ := json.Marshal(c); return b })
	return true
}

// Exhaustive marks the custom sub-check as a complete enumeration.
func (k *Custom_[C]) Exhaustive() { k.st.Exhaustive = !k.Failed }

// Rapid runs a rapid search inside a custom sub-check.
func (k *Custom_[C]) Seed() uint64 {
	return uint64(Seed)*1000003 + uint64(Shard)*1009 + uint64(hash64([]byte(k.name))%997) + 1
}

// ---------------------------------------------------------------------------
// test entry points

// Main is TestMain for property packages.
func Main(m *testing.M, property string) {
	if Property == "" {
		Property = property
	}
	shard.Property = Property
	shard.Tier = Tier
	shard.Seed = Seed
	shard.Shard = Shard
	shard.NShards = NShards
	os.MkdirAll(WorkDir, 0o755)
	if mb := envInt("VERIF_MEMLIMIT_MB", 0); mb > 0 {
		lim := uint64(mb) << 20
		syscall.Setrlimit(syscall.RLIMIT_AS, &syscall.Rlimit{Cur: lim, Max: lim})
	}
	code := m.Run()
	mu.Lock()
	for _, s := range shard.Subs {
		s.Nontrivial = s.Nontrivial[:0]
		for hv := range s.nt {
			s.Nontrivial = append(s.Nontrivial, hv)
		}
		sort.Slice(s.Nontrivial, func(i, j int) bool { return s.Nontrivial[i] < s.Nontrivial[j] })
	}
	for _, s := range subs {
		if f, ok := lastFailure[s.name]; ok {
			shard.Failures = append(shard.Failures, finalizeReplay(f))
		}
	}
	shard.Done = true
	if OutFile != "" {
		data, _ := json.Marshal(shard)
		os.WriteFile(OutFile, data, 0o644)
		os.Remove(OutFile + ".current")
	}
	mu.Unlock()
	os.Exit(code)
}

// RunAll runs every registered sub-check as a subtest.
func RunAll(t *testing.T) {
	if os.Getenv("VERIF_REPLAY") != "" {
		t.Skip("replay mode")
	}
	for _, s := range subs {
		s := s
		if OnlySub != "" && !strings.Contains(","+OnlySub+",", ","+s.name+",") {
			continue
		}
		t.Run(s.name, func(t *testing.T) { s.check(t, s) })
	}
}

// Replay re-decides the case stored in $VERIF_REPLAY without rapid.
// Output protocol (stdout): "REPLAY-OK" or "REPLAY-FAIL <msg>".
func Replay(t *testing.T) {
	path := os.Getenv("VERIF_REPLAY")
	if path == "" {
		t.Skip("no VERIF_REPLAY")
	}
	data, err := os.ReadFile(path)
	if err != nil {
		fmt.Printf("REPLAY-ERROR %v\n", err)
		t.Fatalf("%v", err)
	}
	var rf ReplayFile
	if err := json.Unmarshal(data, &rf); err != nil {
		fmt.Printf("REPLAY-ERROR %v\n", err)
		t.Fatalf("%v", err)
	}
	for _, s := range subs {
		if s.name == rf.Sub {
			msg, err := s.replay(rf.Case)
			if err != nil {
				fmt.Printf("REPLAY-ERROR %v\n", err)
				t.Fatalf("%v", err)
			}
			if msg != "" {
				fmt.Printf("REPLAY-FAIL %s\n", strings.ReplaceAll(firstLines(msg, 30), "\n", "\n    "))
				t.Fatalf("%s", msg)
			}
			fmt.Printf("REPLAY-OK\n")
			return
		}
	}
	fmt.Printf("REPLAY-ERROR unknown sub %q\n", rf.Sub)
	t.Fatalf("unknown sub %q", rf.Sub)
}

func firstLines(s string, n int) string {
	lines := strings.Split(s, "\n")
	if len(lines) > n {
		lines = append(lines[:n], "...")
	}
	return strings.Join(lines, "\n")
}

// ---------------------------------------------------------------------------
// small helpers used by many properties

// Q quotes arbitrary bytes readably.
func Q(s string) string { return strconv.Quote(s) }

// Trunc shortens long strings for messages.
func Trunc(s string, n int) string {
	if len(s) <= n {
		return s
	}
	return s[:n] + fmt.Sprintf("...(%d bytes)", len(s))
}

// TempDir creates a fresh scratch directory under the work dir.
func TempDir(prefix string) string {
	os.MkdirAll(WorkDir, 0o755)
	d, err := os.MkdirTemp(WorkDir, prefix)
	if err != nil {
		panic(err)
	}
	return d
}
