package bclint

import (
	"os"
	"path/filepath"
	"reflect"
	"strings"
	"testing"

	"github.com/benhoyt/goawk/parser"
)

var progs = []string{
	`BEGIN { x = 1; print x }`,
	`{ a[$1]++; $3 = "x"; NF += 2; $NF-- } END { for (k in a) { if (k == "q") break; if (k ~ /z/) continue; print k, a[k] > "/dev/stderr" } }`,
	`function f(a, n,  loc, i) { loc[n] = 1; for (i in loc) return a[i] + f(a, n - 1); return } BEGIN { f(arr, 3); f(arr) }`,
	`NR==1, NR==3 { print; next } /x/ { nextfile } $1 > 2 { exit 3 } END { exit }`,
	`BEGIN { while ((getline line < "f") > 0) n++; "cmd" | getline; "cmd" | getline $2; getline a[1] < "f"; getline NR; getline x; getline }`,
	`BEGIN { sub(/a/, "b"); gsub(/a/, "b", $2); sub(/a/, "b", a[1]); gsub(/a/, "b", v); n = split("a b", arr); n = split("a b", arr, /x/); n = split("a", arr, "b") }`,
	`BEGIN { x = a ? b : c; y = a && b || !c; z = (1, 2) in arr; printf "%d %s\n", 1, "x" > "out"; print 1, 2 >> "out"; print | "cat"; x = sprintf("%d", 3) }`,
	`BEGIN { do { i++; if (i > 3) break; if (i == 2) continue } while (i < 10); for (;;) { if (j++ > 2) break }; for (i = 0; i < 3; i++) x = x i "a" "b" }`,
	`BEGIN { x = length(); y = length(arr); z = length("abc"); $0 = "a b"; x = $1 $2; x = @"name"; x = @y; x += 2; x ^= 3; x++; ++x; --$1; $2++; arr[1]++; --arr[2]; NR++; NF *= 2 }`,
	`function g(n) { if (n > 0) next; else exit 2 } { x = 1 + g($1) } `,
	`BEGIN { if (a < b) x = 1; if (a <= b) x = 2; if (a > b) x = 3; if (a >= b) x = 4; if (a == b) x = 5; if (a != b) x = 6; while (a < b && c) d++ }`,
}

func TestClean(t *testing.T) {
	n := 0
	check := func(name, src string) {
		p, err := parser.ParseProgram([]byte(src), nil)
		if err != nil {
			return
		}
		probs, ins, err := Lint(p)
		if err != nil {
			t.Fatalf("%s: inconclusive: %v", name, err)
		}
		if len(probs) > 0 {
			t.Errorf("%s: %v\n%s", name, probs, src)
		}
		if ins == 0 && strings.Contains(src, "{") && len(src) > 20 {
			t.Logf("%s: no instructions?", name)
		}
		n++
	}
	for i, s := range progs {
		check("prog"+string(rune('a'+i)), s)
	}
	files, _ := filepath.Glob("/repo/testdata/*")
	files2, _ := filepath.Glob("/repo/testdata/*/*")
	for _, f := range append(files, files2...) {
		b, err := os.ReadFile(f)
		if err == nil && len(b) < 100000 {
			check(f, string(b))
		}
	}
	t.Logf("%d programs linted clean", n)
}

// corrupting the emitted code must be noticed
func TestCorruptions(t *testing.T) {
	type mut struct {
		name string
		f    func(code reflect.Value) bool
	}
	find := func(code reflect.Value, name string) int {
		for pc := 0; pc < code.Len(); {
			nm := lt.names[code.Index(pc).Int()]
			if nm == name {
				return pc
			}
			n := table[nm].operands
			if nm == "CallUser" {
				n += 2 * int(code.Index(pc+2).Int())
			}
			pc += 1 + n
		}
		return -1
	}
	byName := func(name string) int64 {
		for n, s := range lt.names {
			if s == name {
				return n
			}
		}
		panic(name)
	}
	src := `BEGIN { x = 1; y = x + 2; if (x < y) print x, y; while (i < 3) i++; z = substr("abc", 2) }`
	muts := []mut{
		{"drop the Drop/assign", func(c reflect.Value) bool {
			pc := find(c, "AssignGlobal")
			c.Index(pc).SetInt(byName("Nop"))
			c.Index(pc + 1).SetInt(byName("Nop"))
			return true
		}},
		{"jump offset +1", func(c reflect.Value) bool {
			pc := find(c, "JumpGreaterOrEqual")
			if pc < 0 {
				return false
			}
			c.Index(pc + 1).SetInt(c.Index(pc+1).Int() + 1)
			return true
		}},
		{"global index out of range", func(c reflect.Value) bool { pc := find(c, "Global"); c.Index(pc + 1).SetInt(99); return true }},
		{"num index out of range", func(c reflect.Value) bool { pc := find(c, "Num"); c.Index(pc + 1).SetInt(99); return true }},
		{"binary op becomes unary", func(c reflect.Value) bool { pc := find(c, "Add"); c.Index(pc).SetInt(byName("Not")); return true }},
		{"print arg count", func(c reflect.Value) bool { pc := find(c, "Print"); c.Index(pc + 1).SetInt(3); return true }},
		{"builtin op", func(c reflect.Value) bool { pc := find(c, "CallBuiltin"); c.Index(pc + 1).SetInt(77); return true }},
		{"truncated", func(c reflect.Value) bool { return false }},
	}
	for _, m := range muts {
		p, err := parser.ParseProgram([]byte(src), nil)
		if err != nil {
			t.Fatal(err)
		}
		if probs, _, err := Lint(p); err != nil || len(probs) > 0 {
			t.Fatalf("clean program flagged: %v %v", probs, err)
		}
		c := reflect.ValueOf(p).Elem().FieldByName("Compiled").Elem().FieldByName("Begin")
		if !m.f(c) {
			continue
		}
		probs, _, err := Lint(p)
		if err != nil {
			t.Fatalf("%s: %v", m.name, err)
		}
		if len(probs) == 0 {
			t.Errorf("%s: not noticed", m.name)
		} else {
			t.Logf("%s: %s", m.name, probs[0])
		}
	}
}
