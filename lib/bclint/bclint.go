// Package bclint is a static well-formedness pass over the virtual-machine
// code goawk's compiler emitted for one parsed program.  It decides, for ALL
// inputs of that program at once, that executing the code cannot run into a
// stack, jump or index fault of the VM itself:
//
//   - every word sequence decodes into known instructions with all operands
//     present;
//   - every jump lands on an instruction boundary of its own code block (or
//     exactly at its end), a for-in body is a block of its own;
//   - constant, regex, variable, array, function and special-variable operands
//     are inside the tables the interpreter allocates for them;
//   - the evaluation-stack depth is the same along every path reaching an
//     instruction, never drops below the block's entry depth, is back at the
//     entry depth where a block ends (one above for a pattern expression and
//     for Return), so the stack can neither underflow nor grow with the input.
//
// Nothing here is taken from goawk's numbering: opcode names come from the
// Opcode type's own String method (reached by reflection, the type lives in an
// internal package), and the numbers of the builtin operations, special
// variables, scopes and augmented operators are learnt by compiling one-line
// probe programs whose meaning is known.  The stack effects themselves are my
// reading of interp/vm.go and are stated in the table below.
package bclint

import (
	"fmt"
	"reflect"
	"sort"
	"strings"
	"sync"

	"github.com/benhoyt/goawk/lexer"
	"github.com/benhoyt/goawk/parser"
)

// effect of one opcode: number of operand words, values that must be present,
// values popped, values pushed.  Special cases are handled in code.
type eff struct {
	operands  int
	need      int
	pop, push int
}

var table = map[string]eff{
	"Nop": {0, 0, 0, 0}, "Num": {1, 0, 0, 1}, "Str": {1, 0, 0, 1}, "Dupe": {0, 1, 0, 1}, "Drop": {0, 1, 1, 0}, "Swap": {0, 2, 0, 0}, "Rote": {0, 3, 0, 0},
	"Field": {0, 1, 1, 1}, "FieldInt": {1, 0, 0, 1}, "FieldByName": {0, 1, 1, 1}, "FieldByNameStr": {1, 0, 0, 1},
	"Global": {1, 0, 0, 1}, "Local": {1, 0, 0, 1}, "Special": {1, 0, 0, 1},
	"ArrayGlobal": {1, 1, 1, 1}, "ArrayLocal": {1, 1, 1, 1}, "InGlobal": {1, 1, 1, 1}, "InLocal": {1, 1, 1, 1},
	"AssignField": {0, 2, 2, 0}, "AssignFieldSub": {0, 3, 2, 0},
	"AssignGlobal": {1, 1, 1, 0}, "AssignLocal": {1, 1, 1, 0}, "AssignSpecial": {1, 1, 1, 0},
	"AssignArrayGlobal": {1, 2, 2, 0}, "AssignArrayLocal": {1, 2, 2, 0},
	"Delete": {2, 1, 1, 0}, "DeleteAll": {2, 0, 0, 0},
	"IncrField": {1, 1, 1, 0}, "IncrGlobal": {2, 0, 0, 0}, "IncrLocal": {2, 0, 0, 0}, "IncrSpecial": {2, 0, 0, 0},
	"IncrArrayGlobal": {2, 1, 1, 0}, "IncrArrayLocal": {2, 1, 1, 0},
	"AugAssignField": {1, 2, 2, 0}, "AugAssignGlobal": {2, 1, 1, 0}, "AugAssignLocal": {2, 1, 1, 0}, "AugAssignSpecial": {2, 1, 1, 0},
	"AugAssignArrayGlobal": {2, 2, 2, 0}, "AugAssignArrayLocal": {2, 2, 2, 0},
	"Regex": {1, 0, 0, 1}, "IndexMulti": {1, 0, 0, 0}, "ConcatMulti": {1, 0, 0, 0},
	"Add": {0, 2, 2, 1}, "Subtract": {0, 2, 2, 1}, "Multiply": {0, 2, 2, 1}, "Divide": {0, 2, 2, 1}, "Power": {0, 2, 2, 1}, "Modulo": {0, 2, 2, 1},
	"Equals": {0, 2, 2, 1}, "NotEquals": {0, 2, 2, 1}, "Less": {0, 2, 2, 1}, "Greater": {0, 2, 2, 1}, "LessOrEqual": {0, 2, 2, 1}, "GreaterOrEqual": {0, 2, 2, 1},
	"Concat": {0, 2, 2, 1}, "Match": {0, 2, 2, 1}, "NotMatch": {0, 2, 2, 1},
	"Not": {0, 1, 1, 1}, "UnaryMinus": {0, 1, 1, 1}, "UnaryPlus": {0, 1, 1, 1}, "Boolean": {0, 1, 1, 1},
	"Jump": {1, 0, 0, 0}, "JumpFalse": {1, 1, 1, 0}, "JumpTrue": {1, 1, 1, 0},
	"JumpEquals": {1, 2, 2, 0}, "JumpNotEquals": {1, 2, 2, 0}, "JumpLess": {1, 2, 2, 0}, "JumpGreater": {1, 2, 2, 0}, "JumpLessOrEqual": {1, 2, 2, 0}, "JumpGreaterOrEqual": {1, 2, 2, 0},
	"Next": {0, 0, 0, 0}, "Nextfile": {0, 0, 0, 0}, "Exit": {0, 0, 0, 0}, "ExitStatus": {0, 1, 1, 0},
	"ForIn": {5, 0, 0, 0}, "BreakForIn": {0, 0, 0, 0},
	"CallBuiltin": {1, 0, 0, 0}, "CallLengthArray": {2, 0, 0, 1}, "CallSplit": {2, 1, 1, 1}, "CallSplitSep": {3, 2, 2, 1}, "CallSprintf": {1, 0, 0, 0},
	"CallUser": {2, 0, 0, 0}, "CallNative": {2, 0, 0, 0}, "Return": {0, 1, 1, 0}, "ReturnNull": {0, 0, 0, 0}, "Nulls": {1, 0, 0, 0},
	"Print": {2, 0, 0, 0}, "Printf": {2, 0, 0, 0},
	"Getline": {1, 0, 0, 1}, "GetlineField": {1, 1, 1, 1}, "GetlineGlobal": {2, 0, 0, 1}, "GetlineLocal": {2, 0, 0, 1}, "GetlineSpecial": {2, 0, 0, 1}, "GetlineArray": {3, 1, 1, 1},
}

// builtin forms whose operation number is learnt from a probe; value = pop, push
var builtinProbes = []struct {
	src       string
	pop, push int
}{
	{`atan2(1,2)`, 2, 1}, {`close("x")`, 1, 1}, {`cos(1)`, 1, 1}, {`exp(1)`, 1, 1}, {`fflush("x")`, 1, 1}, {`fflush()`, 0, 1},
	{`gsub(/a/,"b",v)`, 3, 2}, {`index("a","b")`, 2, 1}, {`int(1)`, 1, 1}, {`length()`, 0, 1}, {`length("x")`, 1, 1}, {`log(1)`, 1, 1},
	{`match("a",/b/)`, 2, 1}, {`rand()`, 0, 1}, {`sin(1)`, 1, 1}, {`sqrt(1)`, 1, 1}, {`srand()`, 0, 1}, {`srand(1)`, 1, 1}, {`sub(/a/,"b",v)`, 3, 2},
	{`substr("a",1)`, 2, 1}, {`substr("a",1,2)`, 3, 1}, {`system("x")`, 1, 1}, {`tolower("a")`, 1, 1}, {`toupper("a")`, 1, 1},
}

var specialNames = []string{"ARGC", "CONVFMT", "FILENAME", "FNR", "FS", "INPUTMODE", "NF", "NR", "OFMT", "OFS", "ORS", "OUTPUTMODE", "RLENGTH", "RS", "RSTART", "RT", "SUBSEP"}

// Tables learnt once per process.
type learnt struct {
	err        error
	names      map[int64]string // opcode number -> name
	builtins   map[int64][2]int // builtin op -> pop, push
	specials   map[int64]bool
	scopeLocal, scopeGlobal, scopeSpecial int64
	augOps     map[int64]bool
}

var (
	once sync.Once
	lt   learnt
)

type block struct {
	name string
	code []int64
	fn   int // index of the enclosing function or -1
	kind string
}

type prog struct {
	blocks                        []block
	nums, strs, regexes           int
	globals, arrays, natives      int
	funcs                         []fn
	haveGlobals, haveNatives      bool
}

type fn struct {
	name                  string
	numScalars, numArrays int
}

func opcodes(v reflect.Value) []int64 {
	out := make([]int64, v.Len())
	for i := range out {
		out[i] = v.Index(i).Int()
	}
	return out
}

func compiled(p *parser.Program) (reflect.Value, error) {
	v := reflect.ValueOf(p).Elem().FieldByName("Compiled")
	if !v.IsValid() || v.Kind() != reflect.Ptr || v.IsNil() {
		return reflect.Value{}, fmt.Errorf("no Compiled program")
	}
	return v.Elem(), nil
}

func extract(p *parser.Program) (*prog, error) {
	c, err := compiled(p)
	if err != nil {
		return nil, err
	}
	need := func(n string) (reflect.Value, error) {
		f := c.FieldByName(n)
		if !f.IsValid() {
			return f, fmt.Errorf("compiled program has no field %s", n)
		}
		return f, nil
	}
	out := &prog{}
	for _, n := range []string{"Begin", "Actions", "End", "Functions", "Nums", "Strs", "Regexes"} {
		if _, err := need(n); err != nil {
			return nil, err
		}
	}
	out.nums, out.strs, out.regexes = c.FieldByName("Nums").Len(), c.FieldByName("Strs").Len(), c.FieldByName("Regexes").Len()
	fs := c.FieldByName("Functions")
	for i := 0; i < fs.Len(); i++ {
		f := fs.Index(i)
		out.funcs = append(out.funcs, fn{f.FieldByName("Name").String(), int(f.FieldByName("NumScalars").Int()), int(f.FieldByName("NumArrays").Int())})
	}
	out.blocks = append(out.blocks, block{"BEGIN", opcodes(c.FieldByName("Begin")), -1, "body"})
	as := c.FieldByName("Actions")
	for i := 0; i < as.Len(); i++ {
		a := as.Index(i)
		ps := a.FieldByName("Pattern")
		for j := 0; j < ps.Len(); j++ {
			out.blocks = append(out.blocks, block{fmt.Sprintf("action %d pattern %d", i, j), opcodes(ps.Index(j)), -1, "pattern"})
		}
		out.blocks = append(out.blocks, block{fmt.Sprintf("action %d body", i), opcodes(a.FieldByName("Body")), -1, "body"})
	}
	out.blocks = append(out.blocks, block{"END", opcodes(c.FieldByName("End")), -1, "body"})
	for i := 0; i < fs.Len(); i++ {
		out.blocks = append(out.blocks, block{"function " + out.funcs[i].name, opcodes(fs.Index(i).FieldByName("Body")), i, "function"})
	}
	// number of global scalars and arrays: what the interpreter allocates (IterVars over the global scope)
	m := reflect.ValueOf(p).MethodByName("IterVars")
	if m.IsValid() && m.Type().NumIn() == 2 && m.Type().In(1).Kind() == reflect.Func && m.Type().In(1).NumIn() == 2 {
		ft := m.Type().In(1)
		g, a := 0, 0
		ok := true
		cb := reflect.MakeFunc(ft, func(args []reflect.Value) []reflect.Value {
			info := args[1]
			t := info.FieldByName("Type")
			if !t.IsValid() {
				ok = false
				return nil
			}
			if fmt.Sprint(t.Interface()) == "array" {
				a++
			} else {
				g++
			}
			return nil
		})
		m.Call([]reflect.Value{reflect.ValueOf(""), cb})
		if ok {
			out.globals, out.arrays, out.haveGlobals = g, a, true
		}
	}
	if f := c.FieldByName("nativeFuncNames"); f.IsValid() {
		out.natives, out.haveNatives = f.Len(), true
	}
	return out, nil
}

func opName(sample reflect.Value, n int64) string {
	v := reflect.New(sample.Type()).Elem()
	v.SetInt(n)
	if s, ok := v.Interface().(fmt.Stringer); ok {
		return s.String()
	}
	return ""
}

func learn() {
	lt.names = map[int64]string{}
	lt.builtins = map[int64][2]int{}
	lt.specials = map[int64]bool{}
	lt.augOps = map[int64]bool{}
	parse := func(src string) (*parser.Program, error) {
		return parser.ParseProgram([]byte(src), nil)
	}
	p, err := parse(`BEGIN { x = 1 }`)
	if err != nil {
		lt.err = err
		return
	}
	c, err := compiled(p)
	if err != nil {
		lt.err = err
		return
	}
	begin := c.FieldByName("Begin")
	if !begin.IsValid() || begin.Len() == 0 {
		lt.err = fmt.Errorf("probe has no Begin code")
		return
	}
	sample := begin.Index(0)
	byName := map[string]int64{}
	for n := int64(0); n < 1000; n++ {
		s := opName(sample, n)
		if s == "" || strings.HasPrefix(s, "Opcode(") {
			break
		}
		if s == "EndOpcode" {
			break
		}
		lt.names[n] = s
		byName[s] = n
	}
	var unknown []string
	for _, s := range lt.names {
		if _, ok := table[s]; !ok {
			unknown = append(unknown, s)
		}
	}
	if len(unknown) > 0 {
		sort.Strings(unknown)
		lt.err = fmt.Errorf("opcodes without a stack-effect entry: %v", unknown)
		return
	}
	// operand following the first occurrence of the named opcode in BEGIN
	operandAfter := func(src, op string, k int) (int64, error) {
		p, err := parse(src)
		if err != nil {
			return 0, fmt.Errorf("probe %q: %v", src, err)
		}
		c, _ := compiled(p)
		code := opcodes(c.FieldByName("Begin"))
		for pc := 0; pc < len(code); {
			name := lt.names[code[pc]]
			e, ok := table[name]
			if !ok {
				return 0, fmt.Errorf("probe %q: cannot decode", src)
			}
			if name == op {
				return code[pc+k], nil
			}
			n := e.operands
			if name == "CallUser" {
				n += 2 * int(code[pc+2])
			}
			pc += 1 + n
		}
		return 0, fmt.Errorf("probe %q: no %s", src, op)
	}
	for _, b := range builtinProbes {
		n, err := operandAfter("BEGIN { v = \"\"; r = "+b.src+" }", "CallBuiltin", 1)
		if err != nil {
			lt.err = err
			return
		}
		if old, dup := lt.builtins[n]; dup && old != [2]int{b.pop, b.push} {
			lt.err = fmt.Errorf("builtin op %d learnt twice with different effects", n)
			return
		}
		lt.builtins[n] = [2]int{b.pop, b.push}
	}
	for _, s := range specialNames {
		n, err := operandAfter("BEGIN { r = "+s+" }", "Special", 1)
		if err != nil {
			lt.err = err
			return
		}
		lt.specials[n] = true
	}
	var e1, e2, e3 error
	lt.scopeGlobal, e1 = operandAfter(`BEGIN { delete a }`, "DeleteAll", 1)
	lt.scopeSpecial, e2 = operandAfter(`BEGIN { for (NR in a) x = 1 }`, "ForIn", 1)
	// local scope: inside a function
	pl, err := parse(`function f(a) { delete a } BEGIN { f(b) }`)
	if err == nil {
		cl, _ := compiled(pl)
		body := opcodes(cl.FieldByName("Functions").Index(0).FieldByName("Body"))
		e3 = fmt.Errorf("no DeleteAll in local probe")
		for pc := 0; pc+1 < len(body); pc++ {
			if lt.names[body[pc]] == "DeleteAll" {
				lt.scopeLocal, e3 = body[pc+1], nil
				break
			}
		}
	} else {
		e3 = err
	}
	for _, e := range []error{e1, e2, e3} {
		if e != nil {
			lt.err = e
			return
		}
	}
	for _, op := range []string{"+=", "-=", "*=", "/=", "^=", "%="} {
		n, err := operandAfter("BEGIN { x "+op+" 2 }", "AugAssignGlobal", 1)
		if err != nil {
			lt.err = err
			return
		}
		lt.augOps[n] = true
	}
}

// Lint returns the list of well-formedness problems of the compiled program
// (empty = well formed).  err != nil means the pass could not be applied (the
// compiled form is not what this package understands): inconclusive, never a
// violation.
func Lint(p *parser.Program) (problems []string, instructions int, err error) {
	once.Do(learn)
	if lt.err != nil {
		return nil, 0, lt.err
	}
	pr, err := extract(p)
	if err != nil {
		return nil, 0, err
	}
	l := &linter{pr: pr}
	for _, b := range pr.blocks {
		exit := 0
		if b.kind == "pattern" {
			exit = 1
		}
		l.block(b.name, b.code, b.fn, false, exit)
	}
	return l.problems, l.instructions, nil
}

type linter struct {
	pr           *prog
	problems     []string
	instructions int
}

func (l *linter) bad(block string, pc int, format string, args ...any) {
	if len(l.problems) < 20 {
		l.problems = append(l.problems, fmt.Sprintf("%s @%d: %s", block, pc, fmt.Sprintf(format, args...)))
	}
}

type instr struct {
	pc, next int
	name     string
	ops      []int64
}

// block checks one code block whose stack depth is 0 on entry (depths are
// relative to the entry) and must be exitDepth wherever control leaves it by
// running off its end.
func (l *linter) block(name string, code []int64, fnIdx int, inForIn bool, exitDepth int) {
	// 1. decode
	var ins []instr
	at := map[int]int{} // pc -> index in ins
	for pc := 0; pc < len(code); {
		opn, ok := lt.names[code[pc]]
		if !ok {
			l.bad(name, pc, "unknown opcode %d", code[pc])
			return
		}
		e := table[opn]
		n := e.operands
		if pc+1+n > len(code) {
			l.bad(name, pc, "%s: operands run past the end of the block", opn)
			return
		}
		if opn == "CallUser" {
			na := code[pc+2]
			if na < 0 || pc+1+n+2*int(na) > len(code) {
				l.bad(name, pc, "CallUser: array operands run past the end of the block")
				return
			}
			n += 2 * int(na)
		}
		at[pc] = len(ins)
		in := instr{pc: pc, next: pc + 1 + n, name: opn, ops: code[pc+1 : pc+1+n]}
		if opn == "ForIn" {
			off := code[pc+5]
			if off < 0 || in.next+int(off) > len(code) {
				l.bad(name, pc, "ForIn: body offset %d leaves the block", off)
				return
			}
			// the body is a block of its own
			l.block(fmt.Sprintf("%s/forin@%d", name, pc), code[in.next:in.next+int(off)], fnIdx, true, 0)
			in.next += int(off)
		}
		ins = append(ins, in)
		pc = in.next
	}
	l.instructions += len(ins)
	at[len(code)] = len(ins)

	// 2. operands
	for _, in := range ins {
		l.operands(name, in, fnIdx, inForIn)
	}

	// 3. stack depth along every path
	depth := make([]int, len(ins)+1)
	for i := range depth {
		depth[i] = -1
	}
	type item struct{ idx, d int }
	work := []item{{0, 0}}
	flow := func(fromPC int, idx, d int) {
		if depth[idx] == -1 {
			depth[idx] = d
			work = append(work, item{idx, d})
		} else if depth[idx] != d {
			l.bad(name, fromPC, "stack depth %d here, %d along another path (target %d)", d, depth[idx], idx)
		}
	}
	depth[0] = 0
	for len(work) > 0 && len(l.problems) < 20 {
		it := work[len(work)-1]
		work = work[:len(work)-1]
		if it.idx == len(ins) {
			continue
		}
		in := ins[it.idx]
		d := it.d
		need, pop, push := l.effect(name, in, fnIdx)
		if need < 0 {
			continue // already reported
		}
		if d < need {
			l.bad(name, in.pc, "%s needs %d stack value(s), only %d are on the block's stack", in.name, need, d)
			continue
		}
		d = d - pop + push
		switch in.name {
		case "Jump":
			if t, ok := l.target(name, in, at, 0); ok {
				flow(in.pc, t, d)
			}
		case "JumpFalse", "JumpTrue", "JumpEquals", "JumpNotEquals", "JumpLess", "JumpGreater", "JumpLessOrEqual", "JumpGreaterOrEqual":
			if t, ok := l.target(name, in, at, 0); ok {
				flow(in.pc, t, d)
			}
			flow(in.pc, it.idx+1, d)
		case "Next", "Nextfile", "Exit", "ExitStatus", "ReturnNull", "BreakForIn":
			if d != 0 {
				l.bad(name, in.pc, "%s with %d value(s) left on the stack", in.name, d)
			}
		case "Return":
			if d != 0 {
				l.bad(name, in.pc, "Return with %d extra value(s) on the stack", d)
			}
		default:
			flow(in.pc, it.idx+1, d)
		}
	}
	if end := depth[len(ins)]; end != -1 && end != exitDepth {
		l.bad(name, len(code), "block ends with stack depth %d, want %d", end, exitDepth)
	}
}

func (l *linter) target(block string, in instr, at map[int]int, _ int) (int, bool) {
	off := in.ops[len(in.ops)-1]
	t := in.next + int(off)
	idx, ok := at[t]
	if !ok {
		l.bad(block, in.pc, "%s offset %d lands at %d, not an instruction boundary of this block", in.name, off, t)
		return 0, false
	}
	return idx, true
}

func (l *linter) scopeIndex(block string, in instr, fnIdx int, scope, idx int64, arrays bool) {
	what := "scalar"
	if arrays {
		what = "array"
	}
	switch scope {
	case lt.scopeGlobal:
		limit := l.pr.globals
		if arrays {
			limit = l.pr.arrays
		}
		if l.pr.haveGlobals && (idx < 0 || int(idx) >= limit) {
			l.bad(block, in.pc, "%s: global %s index %d outside [0,%d)", in.name, what, idx, limit)
		}
	case lt.scopeLocal:
		if fnIdx < 0 {
			l.bad(block, in.pc, "%s: local %s outside a function", in.name, what)
			return
		}
		limit := l.pr.funcs[fnIdx].numScalars
		if arrays {
			limit = l.pr.funcs[fnIdx].numArrays
		}
		if idx < 0 || int(idx) >= limit {
			l.bad(block, in.pc, "%s: local %s index %d outside [0,%d)", in.name, what, idx, limit)
		}
	case lt.scopeSpecial:
		if arrays || !lt.specials[idx] {
			l.bad(block, in.pc, "%s: special variable index %d", in.name, idx)
		}
	default:
		l.bad(block, in.pc, "%s: unknown scope %d", in.name, scope)
	}
}

func (l *linter) operands(block string, in instr, fnIdx int, inForIn bool) {
	o := in.ops
	rng := func(what string, v int64, n int) {
		if v < 0 || int(v) >= n {
			l.bad(block, in.pc, "%s: %s index %d outside [0,%d)", in.name, what, v, n)
		}
	}
	redirect := func(v int64, allowed ...lexer.Token) {
		for _, a := range allowed {
			if v == int64(a) {
				return
			}
		}
		l.bad(block, in.pc, "%s: redirect operand %d", in.name, v)
	}
	switch in.name {
	case "Num":
		rng("number constant", o[0], l.pr.nums)
	case "Str", "FieldByNameStr":
		rng("string constant", o[0], l.pr.strs)
	case "Regex":
		rng("regex constant", o[0], l.pr.regexes)
	case "Global", "AssignGlobal":
		l.scopeIndex(block, in, fnIdx, lt.scopeGlobal, o[0], false)
	case "Local", "AssignLocal":
		l.scopeIndex(block, in, fnIdx, lt.scopeLocal, o[0], false)
	case "Special", "AssignSpecial":
		l.scopeIndex(block, in, fnIdx, lt.scopeSpecial, o[0], false)
	case "ArrayGlobal", "InGlobal", "AssignArrayGlobal":
		l.scopeIndex(block, in, fnIdx, lt.scopeGlobal, o[0], true)
	case "ArrayLocal", "InLocal", "AssignArrayLocal":
		l.scopeIndex(block, in, fnIdx, lt.scopeLocal, o[0], true)
	case "Delete", "DeleteAll", "CallLengthArray", "CallSplit", "CallSplitSep":
		if o[0] == lt.scopeSpecial {
			l.bad(block, in.pc, "%s: array in special scope", in.name)
		} else {
			l.scopeIndex(block, in, fnIdx, o[0], o[1], true)
		}
	case "IncrGlobal":
		l.scopeIndex(block, in, fnIdx, lt.scopeGlobal, o[1], false)
	case "IncrLocal":
		l.scopeIndex(block, in, fnIdx, lt.scopeLocal, o[1], false)
	case "IncrSpecial":
		l.scopeIndex(block, in, fnIdx, lt.scopeSpecial, o[1], false)
	case "IncrArrayGlobal":
		l.scopeIndex(block, in, fnIdx, lt.scopeGlobal, o[1], true)
	case "IncrArrayLocal":
		l.scopeIndex(block, in, fnIdx, lt.scopeLocal, o[1], true)
	case "AugAssignField":
		if !lt.augOps[o[0]] {
			l.bad(block, in.pc, "%s: unknown operation %d", in.name, o[0])
		}
	case "AugAssignGlobal", "AugAssignLocal", "AugAssignSpecial", "AugAssignArrayGlobal", "AugAssignArrayLocal":
		if !lt.augOps[o[0]] {
			l.bad(block, in.pc, "%s: unknown operation %d", in.name, o[0])
		}
		sc := map[string]int64{"AugAssignGlobal": lt.scopeGlobal, "AugAssignLocal": lt.scopeLocal, "AugAssignSpecial": lt.scopeSpecial, "AugAssignArrayGlobal": lt.scopeGlobal, "AugAssignArrayLocal": lt.scopeLocal}[in.name]
		l.scopeIndex(block, in, fnIdx, sc, o[1], strings.Contains(in.name, "Array"))
	case "IndexMulti", "ConcatMulti", "Nulls":
		if o[0] < 0 {
			l.bad(block, in.pc, "%s: negative count %d", in.name, o[0])
		}
	case "CallSprintf":
		if o[0] < 1 {
			l.bad(block, in.pc, "CallSprintf with %d arguments (the format is argument 1)", o[0])
		}
	case "Printf":
		if o[0] < 1 {
			l.bad(block, in.pc, "Printf with %d arguments (the format is argument 1)", o[0])
		}
		redirect(o[1], lexer.ILLEGAL, lexer.GREATER, lexer.APPEND, lexer.PIPE)
	case "Print":
		if o[0] < 0 {
			l.bad(block, in.pc, "Print with %d arguments", o[0])
		}
		redirect(o[1], lexer.ILLEGAL, lexer.GREATER, lexer.APPEND, lexer.PIPE)
	case "Getline", "GetlineField":
		redirect(o[0], lexer.ILLEGAL, lexer.LESS, lexer.PIPE)
	case "GetlineGlobal":
		redirect(o[0], lexer.ILLEGAL, lexer.LESS, lexer.PIPE)
		l.scopeIndex(block, in, fnIdx, lt.scopeGlobal, o[1], false)
	case "GetlineLocal":
		redirect(o[0], lexer.ILLEGAL, lexer.LESS, lexer.PIPE)
		l.scopeIndex(block, in, fnIdx, lt.scopeLocal, o[1], false)
	case "GetlineSpecial":
		redirect(o[0], lexer.ILLEGAL, lexer.LESS, lexer.PIPE)
		l.scopeIndex(block, in, fnIdx, lt.scopeSpecial, o[1], false)
	case "GetlineArray":
		redirect(o[0], lexer.ILLEGAL, lexer.LESS, lexer.PIPE)
		if o[1] == lt.scopeSpecial {
			l.bad(block, in.pc, "GetlineArray: array in special scope")
		} else {
			l.scopeIndex(block, in, fnIdx, o[1], o[2], true)
		}
	case "ForIn":
		l.scopeIndex(block, in, fnIdx, o[0], o[1], false)
		if o[2] == lt.scopeSpecial {
			l.bad(block, in.pc, "ForIn: array in special scope")
		} else {
			l.scopeIndex(block, in, fnIdx, o[2], o[3], true)
		}
	case "BreakForIn":
		if !inForIn {
			l.bad(block, in.pc, "BreakForIn outside a for-in body")
		}
	case "Return", "ReturnNull":
		if fnIdx < 0 {
			l.bad(block, in.pc, "%s outside a function", in.name)
		}
	case "CallBuiltin":
		if _, ok := lt.builtins[o[0]]; !ok {
			l.bad(block, in.pc, "CallBuiltin: unknown operation %d", o[0])
		}
	case "CallUser":
		if o[0] < 0 || int(o[0]) >= len(l.pr.funcs) {
			l.bad(block, in.pc, "CallUser: function index %d outside [0,%d)", o[0], len(l.pr.funcs))
			return
		}
		f := l.pr.funcs[o[0]]
		if int(o[1]) > f.numArrays {
			l.bad(block, in.pc, "CallUser %s: %d array arguments, the function has %d array parameters/locals", f.name, o[1], f.numArrays)
		}
		for j := 0; j < int(o[1]); j++ {
			sc, ix := o[2+2*j], o[3+2*j]
			if sc == lt.scopeSpecial {
				l.bad(block, in.pc, "CallUser: array argument in special scope")
			} else {
				l.scopeIndex(block, in, fnIdx, sc, ix, true)
			}
		}
	case "CallNative":
		if l.pr.haveNatives {
			rng("native function", o[0], l.pr.natives)
		}
		if o[1] < 0 {
			l.bad(block, in.pc, "CallNative: negative argument count")
		}
	}
}

// effect returns need/pop/push of one instruction (need < 0: malformed, reported).
func (l *linter) effect(block string, in instr, fnIdx int) (need, pop, push int) {
	e := table[in.name]
	need, pop, push = e.need, e.pop, e.push
	o := in.ops
	red := func(v int64) int {
		if v != int64(lexer.ILLEGAL) {
			return 1
		}
		return 0
	}
	switch in.name {
	case "IndexMulti", "ConcatMulti", "CallSprintf":
		if o[0] < 0 {
			return -1, 0, 0
		}
		need, pop, push = int(o[0]), int(o[0]), 1
	case "Nulls":
		if o[0] < 0 {
			return -1, 0, 0
		}
		push = int(o[0])
	case "Print", "Printf":
		if o[0] < 0 {
			return -1, 0, 0
		}
		n := int(o[0]) + red(o[1])
		need, pop = n, n
	case "Getline", "GetlineGlobal", "GetlineLocal", "GetlineSpecial":
		need, pop, push = red(o[0]), red(o[0]), 1
	case "GetlineField", "GetlineArray":
		need, pop, push = 1+red(o[0]), 1+red(o[0]), 1
	case "CallBuiltin":
		b, ok := lt.builtins[o[0]]
		if !ok {
			return -1, 0, 0
		}
		need, pop, push = b[0], b[0], b[1]
	case "CallUser":
		if o[0] < 0 || int(o[0]) >= len(l.pr.funcs) {
			return -1, 0, 0
		}
		n := l.pr.funcs[o[0]].numScalars
		need, pop, push = n, n, 1
	case "CallNative":
		if o[1] < 0 {
			return -1, 0, 0
		}
		need, pop, push = int(o[1]), int(o[1]), 1
	}
	return
}
