// Package runner runs AWK programs on goawk and on the reference evaluator
// inside a per-case sandbox directory and returns comparable outcomes.
package runner

import (
	"bytes"
	"context"
	"fmt"
	"os"
	"path/filepath"
	"sort"
	"strings"
	"time"

	"github.com/benhoyt/goawk/interp"
	"github.com/benhoyt/goawk/parser"

	"verif/lib/awk"
	"verif/lib/refeval"
)

// Outcome is what a run produced, in comparable form.
type Outcome struct {
	Stdout string
	Files  map[string]string
	Status int
	Err    string // "" when the run returned no error
	Stderr string
}

// Files of the sandbox before a run.
type Sandbox struct {
	Files map[string]string // name -> initial content (read pool and pre-existing write-pool files)
}

func (o Outcome) Equal(p Outcome) bool {
	if o.Stdout != p.Stdout || o.Status != p.Status || (o.Err == "") != (p.Err == "") {
		return false
	}
	if len(o.Files) != len(p.Files) {
		return false
	}
	for k, v := range o.Files {
		if w, ok := p.Files[k]; !ok || w != v {
			return false
		}
	}
	return true
}

func (o Outcome) String() string {
	var sb strings.Builder
	fmt.Fprintf(&sb, "status=%d error=%q\nstdout: %q\n", o.Status, o.Err, trunc(o.Stdout, 1500))
	names := make([]string, 0, len(o.Files))
	for k := range o.Files {
		names = append(names, k)
	}
	sort.Strings(names)
	for _, k := range names {
		fmt.Fprintf(&sb, "file %s: %q\n", k, trunc(o.Files[k], 600))
	}
	return sb.String()
}

func trunc(s string, n int) string {
	if len(s) <= n {
		return s
	}
	return s[:n] + fmt.Sprintf("...(%d bytes)", len(s))
}

// Goawk runs src on goawk.  dir is an empty scratch directory; the sandbox
// files are created in it and every file the program names is resolved inside
// it through Config.OpenFile.
func Goawk(prog *parser.Program, stdin string, args []string, vars []string, sb Sandbox, dir string) Outcome {
	for name, content := range sb.Files {
		os.WriteFile(filepath.Join(dir, name), []byte(content), 0o644)
	}
	var out, errOut bytes.Buffer
	cfg := &interp.Config{
		Stdin: strings.NewReader(stdin), Output: &out, Error: &errOut, Argv0: "goawk", Args: args, Vars: vars,
		Environ: []string{"HOME", "/h", "N", "7"}, NoExec: true,
		OpenFile: func(name string, flag int, perm os.FileMode) (*os.File, error) {
			return os.OpenFile(filepath.Join(dir, filepath.Base(name)), flag, perm)
		},
	}
	p, err := interp.New(prog)
	if err != nil {
		return Outcome{Err: err.Error()}
	}
	ctx, cancel := context.WithTimeout(context.Background(), 20*time.Second)
	defer cancel()
	status, err := p.ExecuteContext(ctx, cfg)
	o := Outcome{Stdout: out.String(), Status: status, Files: map[string]string{}, Stderr: errOut.String()}
	if err != nil {
		o.Err = err.Error()
		if ctx.Err() != nil {
			o.Err = "TIMEOUT: " + o.Err
		}
	}
	entries, _ := os.ReadDir(dir)
	for _, e := range entries {
		data, _ := os.ReadFile(filepath.Join(dir, e.Name()))
		if init, ok := sb.Files[e.Name()]; ok && init == string(data) {
			continue // untouched
		}
		o.Files[e.Name()] = string(data)
	}
	return o
}

// Reference runs the tree on the reference evaluator.
func Reference(tree *awk.Program, gp *parser.Program, stdin string, args []string, vars []string, sb Sandbox, maxSteps int) (Outcome, *refeval.Result) {
	cfg := &refeval.Config{
		Stdin: stdin, Args: args, Vars: vars, Argv0: "goawk", Environ: map[string]string{"HOME": "/h", "N": "7"}, MaxSteps: maxSteps,
		IsArray: func(fn, name string) bool {
			_, info, ok := gp.LookupVar(fn, name)
			return ok && fmt.Sprint(info.Type) == "array"
		},
		ReadFile: func(name string) (string, bool) {
			c, ok := sb.Files[filepath.Base(name)]
			return c, ok
		},
	}
	res := refeval.Run(tree, cfg)
	o := Outcome{Stdout: res.Stdout, Status: res.Status, Files: map[string]string{}}
	if res.Err != nil {
		o.Err = res.Err.Error()
		o.Status = 0
	}
	for name, content := range res.Files {
		if init, ok := sb.Files[name]; ok && init == content {
			continue
		}
		o.Files[name] = content
	}
	return o, res
}
