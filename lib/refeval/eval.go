package refeval

import (
	"errors"
	"fmt"
	"math"
	"os"
	"regexp"
	"sort"
	"strconv"
	"strings"
	"unicode/utf8"

	"verif/lib/awk"
	"verif/lib/recmodel"
)

// Config describes one run.
type Config struct {
	Stdin   string
	Args    []string          // operands (ARGV[1..])
	Vars    []string          // name, value pairs assigned before BEGIN
	Environ map[string]string // ENVIRON
	Argv0   string
	// IsArray tells whether name (in function fn, "" for globals) is an array.
	// The scalar/array typing of names is the resolver's business (property
	// C16); the evaluator takes it as given.
	IsArray func(fn, name string) bool
	// ReadFile returns the content of a file (for operands and getline < file).
	ReadFile func(name string) (string, bool)
	// MaxSteps bounds the evaluation (0 = 1,000,000).
	MaxSteps int
}

// Result is what a run produced.
type Result struct {
	Stdout string
	Files  map[string]string // content written per file name (as it would be on disk afterwards)
	Status int
	Err    error // run-time error, nil if none
	// OrderDependent is set when a for-in loop over more than one key ran a body
	// whose effect may depend on the iteration order; such runs are not comparable.
	OrderDependent bool
	// Exhausted is set when the step budget ran out.
	Exhausted bool
	// NonFinite is set when an arithmetic operation produced an infinity or NaN
	// (number <-> "inf"/"nan" string conversions are outside the value model's certain part).
	NonFinite bool
	Steps     int
	// Trace notes which features the run exercised.
	Trace map[string]int
}

type RuntimeError struct{ Msg string }

func (e *RuntimeError) Error() string { return e.Msg }

func rtErr(format string, args ...any) error {
	return &RuntimeError{fmt.Sprintf(format, args...)}
}

// control flow signals
type ctlNext struct{}
type ctlNextfile struct{}
type ctlExit struct{}
type ctlBreak struct{}
type ctlContinue struct{}
type ctlReturn struct{ v Value }
type ctlError struct{ err error }
type ctlBudget struct{}

type cell struct {
	arr map[string]Value // non-nil: array
	v   Value
}

type frame struct {
	fn     *awk.Func
	locals map[string]*cell
}

type outFile struct {
	content strings.Builder
}

type inFile struct {
	lines []string
	pos   int
}

type interp struct {
	prog    *awk.Program
	cfg     *Config
	funcs   map[string]*awk.Func
	globals map[string]*cell
	frames  []*frame

	// record state
	line           string
	fields         []string
	fieldIsStr     []bool // the field holds an assigned value (a string), not input text
	nf             Value  // as assigned (mirrors "NF reads back what was assigned")
	lineIsAssigned bool
	pendingDest    string

	// special variables
	fs, ofs, ors, rs, subsep, convfmt, ofmt string
	nr, fnr                                 Value // hold whatever was assigned; incremented numerically
	filename                                Value
	rstart, rlength                         Value
	argc                                    Value
	rt                                      string

	// input
	stdinLines []string
	stdinPos   int
	argIndex   int
	hadFiles   bool
	curLines   []string
	curPos     int
	curOpen    bool

	inFiles  map[string]*inFile
	outFiles map[string]*outFile
	outOrder []string
	disk     map[string]string // files written (final content)

	stdout     strings.Builder
	exitStatus int
	steps      int
	maxSteps   int
	res        *Result
	rangeOn    []bool
	depth      int
}

// Run evaluates the program.
func Run(prog *awk.Program, cfg *Config) (res *Result) {
	in := &interp{prog: prog, cfg: cfg, funcs: map[string]*awk.Func{}, globals: map[string]*cell{},
		fs: " ", ofs: " ", ors: "\n", rs: "\n", subsep: "\x1c", convfmt: "%.6g", ofmt: "%.6g",
		inFiles: map[string]*inFile{}, outFiles: map[string]*outFile{}, disk: map[string]string{}}
	res = &Result{Files: map[string]string{}, Trace: map[string]int{}}
	in.res = res
	Uncertain = &res.NonFinite
	defer func() { Uncertain = nil }()
	in.maxSteps = cfg.MaxSteps
	if in.maxSteps == 0 {
		in.maxSteps = 1000000
	}
	for _, f := range prog.Funcs {
		in.funcs[f.Name] = f
	}
	in.stdinLines = splitLines(cfg.Stdin)
	// ARGV, ENVIRON
	argv := &cell{arr: map[string]Value{"0": Str(cfg.Argv0)}}
	for i, a := range cfg.Args {
		argv.arr[strconv.Itoa(i+1)] = NumStr(a)
	}
	in.globals["ARGV"] = argv
	in.argc = Num(float64(len(cfg.Args) + 1))
	env := &cell{arr: map[string]Value{}}
	for k, v := range cfg.Environ {
		env.arr[k] = NumStr(v)
	}
	in.globals["ENVIRON"] = env
	in.globals["FIELDS"] = &cell{arr: map[string]Value{}}
	in.argIndex = 1
	in.nr, in.fnr, in.rstart, in.rlength = Num(0), Num(0), Num(0), Num(0)
	in.nf = Num(0)
	in.filename = Null()
	in.rangeOn = make([]bool, len(prog.Actions))

	defer func() {
		if r := recover(); r != nil {
			switch e := r.(type) {
			case ctlError:
				res.Err = e.err
			case ctlBudget:
				res.Exhausted = true
			default:
				panic(r)
			}
		}
		in.finish()
	}()

	for i := 0; i+1 < len(cfg.Vars); i += 2 {
		in.setVarByName(cfg.Vars[i], cfg.Vars[i+1])
	}
	exited := in.runBlocks(prog.Begin)
	if len(prog.Actions) == 0 && len(prog.End) == 0 {
		res.Status = in.exitStatus
		return res
	}
	if !exited {
		exited = in.mainLoop()
	}
	_ = exited
	in.runEnd()
	res.Status = in.exitStatus
	return res
}

func (in *interp) finish() {
	in.res.Stdout = in.stdout.String()
	for name, f := range in.outFiles {
		in.disk[name] = f.content.String()
	}
	for name, c := range in.disk {
		in.res.Files[name] = c
	}
	in.res.Steps = in.steps
}

func splitLines(s string) []string {
	if s == "" {
		return nil
	}
	lines := strings.Split(s, "\n")
	if lines[len(lines)-1] == "" {
		lines = lines[:len(lines)-1]
	}
	for i, l := range lines {
		lines[i] = strings.TrimSuffix(l, "\r")
	}
	return lines
}

func (in *interp) tick() {
	in.steps++
	if in.steps > in.maxSteps {
		panic(ctlBudget{})
	}
}

func (in *interp) fail(format string, args ...any) {
	panic(ctlError{rtErr(format, args...)})
}

// runBlocks runs BEGIN blocks; returns true if exit was executed.
func (in *interp) runBlocks(blocks [][]*awk.Node) (exited bool) {
	defer func() {
		if r := recover(); r != nil {
			if _, ok := r.(ctlExit); ok {
				exited = true
				return
			}
			panic(r)
		}
	}()
	for _, b := range blocks {
		in.execList(b)
	}
	return false
}

func (in *interp) runEnd() {
	defer func() {
		if r := recover(); r != nil {
			if _, ok := r.(ctlExit); ok {
				return
			}
			panic(r)
		}
	}()
	for _, b := range in.prog.End {
		in.execList(b)
	}
}

func (in *interp) mainLoop() (exited bool) {
	defer func() {
		if r := recover(); r != nil {
			if _, ok := r.(ctlExit); ok {
				exited = true
				return
			}
			panic(r)
		}
	}()
	for {
		line, ok := in.nextRecord()
		if !ok {
			return false
		}
		in.setLine(line, false)
		in.runRules()
	}
}

func (in *interp) runRules() {
	defer func() {
		if r := recover(); r != nil {
			switch r.(type) {
			case ctlNext:
				in.res.Trace["next"]++
				return
			case ctlNextfile:
				in.res.Trace["nextfile"]++
				in.curOpen = false
				in.curLines = nil
				return
			}
			panic(r)
		}
	}()
	for i, a := range in.prog.Actions {
		matched := false
		switch len(a.Pattern) {
		case 0:
			matched = true
		case 1:
			matched = in.eval(a.Pattern[0]).ToBool()
		case 2:
			if !in.rangeOn[i] {
				in.rangeOn[i] = in.eval(a.Pattern[0]).ToBool()
			}
			matched = in.rangeOn[i]
			if in.rangeOn[i] {
				in.res.Trace["range"]++
				in.rangeOn[i] = !in.eval(a.Pattern[1]).ToBool()
			}
		}
		if !matched {
			continue
		}
		if a.NoBody {
			in.writeStdout(in.line + in.ors)
			continue
		}
		in.execList(a.Body)
	}
}

// ---------------------------------------------------------------------------
// input

func (in *interp) readFile(name string) (string, bool) {
	if c, ok := in.disk[name]; ok {
		return c, true
	}
	if in.cfg.ReadFile != nil {
		return in.cfg.ReadFile(name)
	}
	data, err := os.ReadFile(name)
	if err != nil {
		return "", false
	}
	return string(data), true
}

var varRE = regexp.MustCompile(`(?s)^([_a-zA-Z][_a-zA-Z0-9]*)=(.*)$`) // the value is everything after the first "=", newlines included

// nextRecord returns the next record of the main input.
func (in *interp) nextRecord() (string, bool) {
	for {
		if !in.curOpen {
			argc := int(in.argc.ToNum())
			if in.argIndex >= argc && !in.hadFiles {
				in.curLines = in.stdinLines[in.stdinPos:]
				in.stdinPos = len(in.stdinLines)
				in.curPos = 0
				in.curOpen = true
				in.hadFiles = true
				in.setFile("-")
			} else {
				if in.argIndex >= argc {
					return "", false
				}
				var name string
				if v, ok := in.globals["ARGV"].arr[strconv.Itoa(in.argIndex)]; ok {
					name = v.ToStr(in.convfmt)
				}
				in.argIndex++
				if m := varRE.FindStringSubmatch(name); m != nil {
					in.res.Trace["operand-assignment"]++
					in.setVarByName(m[1], unescape(m[2]))
					continue
				}
				if name == "" {
					in.res.Trace["empty-operand"]++
					continue
				}
				if name == "-" {
					in.curLines = in.stdinLines[in.stdinPos:]
					in.stdinPos = len(in.stdinLines)
				} else {
					content, ok := in.readFile(name)
					if !ok {
						in.fail("file %q not found", name)
					}
					if _, open := in.outFiles[name]; open {
						in.fail("can't read from writer stream")
					}
					in.curLines = splitLines(content)
					in.res.Trace["file-operand"]++
				}
				in.curPos = 0
				in.curOpen = true
				in.hadFiles = true
				in.setFile(name)
			}
		}
		if in.curPos < len(in.curLines) {
			l := in.curLines[in.curPos]
			in.curPos++
			in.nr = Num(in.nr.ToNum() + 1)
			in.fnr = Num(in.fnr.ToNum() + 1)
			return l, true
		}
		in.curOpen = false
	}
}

func (in *interp) tryNextRecord() (line string, ok bool, failed bool) {
	defer func() {
		if r := recover(); r != nil {
			if _, isErr := r.(ctlError); isErr {
				failed = true
				return
			}
			panic(r)
		}
	}()
	line, ok = in.nextRecord()
	return line, ok, false
}

func (in *interp) setFile(name string) {
	in.filename = NumStr(name)
	in.fnr = Num(0)
}

// unescape processes the escapes of a var=value operand / -v value the way POSIX asks.
func unescape(s string) string {
	if !strings.Contains(s, "\\") {
		return s
	}
	var sb strings.Builder
	for i := 0; i < len(s); i++ {
		c := s[i]
		if c != '\\' || i+1 >= len(s) {
			sb.WriteByte(c)
			continue
		}
		i++
		switch s[i] {
		case 'n':
			sb.WriteByte('\n')
		case 't':
			sb.WriteByte('\t')
		case 'r':
			sb.WriteByte('\r')
		case '\\':
			sb.WriteByte('\\')
		case '"':
			sb.WriteByte('"')
		case '/':
			sb.WriteByte('/')
		default:
			sb.WriteByte(s[i])
		}
	}
	return sb.String()
}

// ---------------------------------------------------------------------------
// record and fields

func (in *interp) split(text string) []string {
	f, err := recmodel.SplitFields(text, in.fs)
	if err != nil {
		in.fail("invalid FS regex")
	}
	return f
}

func (in *interp) setLine(text string, assigned bool) {
	in.line = text
	in.fields = in.split(text)
	in.fieldIsStr = make([]bool, len(in.fields))
	in.nf = Num(float64(len(in.fields)))
	in.lineIsAssigned = assigned
}

func (in *interp) rebuild() {
	// the size of the joined record, checked before it is built
	total := 0
	for _, f := range in.fields {
		total += len(f) + len(in.ofs)
	}
	in.checkSize(total)
	in.line = strings.Join(in.fields, in.ofs)
	in.lineIsAssigned = true
}

// checkSize: runaway string growth (also through sub/gsub on a variable, or a record rebuilt with a
// grown OFS, which never pass through eval) is treated like an exhausted step budget.
func (in *interp) checkSize(n int) {
	if n > 1<<16 {
		panic(ctlBudget{})
	}
}

const maxField = 1000000

func (in *interp) fieldIndex(v Value) int {
	f := v.ToNum()
	if f > 1e15 {
		return 1 << 50
	}
	if f < -1e15 {
		return -(1 << 50)
	}
	return int(f)
}

func (in *interp) getField(i int) Value {
	if i == 0 {
		if in.lineIsAssigned {
			return Str(in.line)
		}
		return NumStr(in.line)
	}
	if i < 0 {
		i = len(in.fields) + 1 + i
		if i < 1 {
			return Str("")
		}
	}
	if i > len(in.fields) {
		return Str("")
	}
	if in.fieldIsStr[i-1] {
		return Str(in.fields[i-1])
	}
	return NumStr(in.fields[i-1])
}

// setField assigns a field.  The field keeps the type of the assigned value:
// a string stays a string, a number or input-derived text compares
// numerically when its text looks like a number (fields are variables).
func (in *interp) setField(i int, v Value) {
	s := v.ToStr(in.convfmt)
	if i == 0 {
		in.setLine(s, v.isStr())
		return
	}
	if i > maxField {
		in.fail("field index too large: %d", i)
	}
	if i < 0 {
		i = len(in.fields) + 1 + i
		if i < 1 {
			return
		}
	}
	for len(in.fields) < i {
		in.fields = append(in.fields, "")
		in.fieldIsStr = append(in.fieldIsStr, true)
	}
	in.fields[i-1] = s
	in.fieldIsStr[i-1] = v.isStr()
	in.nf = Num(float64(len(in.fields)))
	in.rebuild()
}

func (in *interp) setNF(v Value) {
	n := in.fieldIndex(v)
	if n < 0 {
		in.fail("NF set to negative value: %d", n)
	}
	if n > maxField {
		in.fail("NF set too large: %d", n)
	}
	if n < len(in.fields) {
		in.fields = in.fields[:n]
		in.fieldIsStr = in.fieldIsStr[:n]
	}
	for len(in.fields) < n {
		in.fields = append(in.fields, "")
		in.fieldIsStr = append(in.fieldIsStr, false)
	}
	in.nf = v
	in.rebuild()
}

// ---------------------------------------------------------------------------
// variables

var specials = map[string]bool{"NF": true, "NR": true, "FNR": true, "FS": true, "OFS": true, "ORS": true, "RS": true, "SUBSEP": true, "CONVFMT": true, "OFMT": true,
	"RSTART": true, "RLENGTH": true, "FILENAME": true, "ARGC": true, "RT": true, "INPUTMODE": true, "OUTPUTMODE": true}

func (in *interp) curFunc() string {
	if len(in.frames) == 0 {
		return ""
	}
	return in.frames[len(in.frames)-1].fn.Name
}

func (in *interp) lookup(name string) *cell {
	if len(in.frames) > 0 {
		fr := in.frames[len(in.frames)-1]
		if c, ok := fr.locals[name]; ok {
			return c
		}
	}
	c, ok := in.globals[name]
	if !ok {
		c = &cell{}
		if in.cfg.IsArray != nil && in.cfg.IsArray("", name) {
			c.arr = map[string]Value{}
		}
		in.globals[name] = c
	}
	return c
}

func (in *interp) isLocal(name string) bool {
	if len(in.frames) > 0 {
		_, ok := in.frames[len(in.frames)-1].locals[name]
		return ok
	}
	return false
}

func (in *interp) getSpecial(name string) Value {
	switch name {
	case "NF":
		return in.nf
	case "NR":
		return in.nr
	case "FNR":
		return in.fnr
	case "FS":
		return Str(in.fs)
	case "OFS":
		return Str(in.ofs)
	case "ORS":
		return Str(in.ors)
	case "RS":
		return Str(in.rs)
	case "SUBSEP":
		return Str(in.subsep)
	case "CONVFMT":
		return Str(in.convfmt)
	case "OFMT":
		return Str(in.ofmt)
	case "RSTART":
		return in.rstart
	case "RLENGTH":
		return in.rlength
	case "FILENAME":
		return in.filename
	case "ARGC":
		return in.argc
	case "RT":
		return Str(in.rt)
	}
	return Str("")
}

func (in *interp) setSpecial(name string, v Value) {
	switch name {
	case "NF":
		in.setNF(v)
	case "NR":
		in.nr = v
	case "FNR":
		in.fnr = v
	case "FS":
		s := v.ToStr(in.convfmt)
		if utf8.RuneCountInString(s) > 1 {
			if _, err := regexp.Compile("(?s:" + s + ")"); err != nil {
				in.fail("invalid regex %q", s)
			}
		}
		in.fs = s
	case "OFS":
		in.ofs = v.ToStr(in.convfmt)
	case "ORS":
		in.ors = v.ToStr(in.convfmt)
	case "RS":
		in.rs = v.ToStr(in.convfmt)
	case "SUBSEP":
		in.subsep = v.ToStr(in.convfmt)
	case "CONVFMT":
		in.convfmt = v.ToStr(in.convfmt)
	case "OFMT":
		in.ofmt = v.ToStr(in.convfmt)
	case "RSTART":
		in.rstart = v
	case "RLENGTH":
		in.rlength = v
	case "FILENAME":
		in.filename = v
	case "ARGC":
		in.argc = v
	case "RT":
		in.rt = v.ToStr(in.convfmt)
	}
}

func (in *interp) setVarByName(name, value string) {
	if specials[name] {
		in.setSpecial(name, NumStr(value))
		return
	}
	c, ok := in.globals[name]
	if !ok {
		c = &cell{}
		in.globals[name] = c
	}
	if c.arr != nil {
		in.fail("can't assign to array %q", name)
	}
	c.v = NumStr(value)
}

func (in *interp) getVar(name string) Value {
	if specials[name] && !in.isLocal(name) {
		return in.getSpecial(name)
	}
	return in.lookup(name).v
}

func (in *interp) setVar(name string, v Value) {
	if specials[name] && !in.isLocal(name) {
		in.setSpecial(name, v)
		return
	}
	in.lookup(name).v = v
}

func (in *interp) array(name string) map[string]Value {
	c := in.lookup(name)
	if c.arr == nil {
		c.arr = map[string]Value{}
	}
	return c.arr
}

func (in *interp) subscript(idx []*awk.Node) string {
	parts := make([]string, len(idx))
	for i, e := range idx {
		parts[i] = in.eval(e).ToStr(in.convfmt)
	}
	return strings.Join(parts, in.subsep)
}

// ---------------------------------------------------------------------------
// lvalues

type lref struct {
	kind  string // var | elem | field
	name  string
	key   string
	index int
}

// resolveL evaluates the subscript / field index of an lvalue.
func (in *interp) resolveL(n *awk.Node) lref {
	n = awk.StripGroups(n)
	switch n.K {
	case awk.Var:
		return lref{kind: "var", name: n.Name}
	case awk.Index:
		return lref{kind: "elem", name: n.Name, key: in.subscript(n.A)}
	case awk.Field:
		return lref{kind: "field", index: in.fieldIndex(in.eval(n.A[0]))}
	}
	in.fail("not an lvalue: %s", n.K)
	return lref{}
}

func (in *interp) load(l lref) Value {
	switch l.kind {
	case "var":
		return in.getVar(l.name)
	case "elem":
		arr := in.array(l.name)
		v, ok := arr[l.key]
		if !ok {
			arr[l.key] = Null() // referencing an element creates it
		}
		return v
	default:
		return in.getField(l.index)
	}
}

func (in *interp) store(l lref, v Value) {
	in.checkSize(len(v.s))
	switch l.kind {
	case "var":
		in.setVar(l.name, v)
	case "elem":
		in.array(l.name)[l.key] = v
	default:
		in.setField(l.index, v)
	}
}

// ---------------------------------------------------------------------------
// expressions

func (in *interp) regex(pattern string) *regexp.Regexp {
	re, err := regexp.Compile("(?s:" + pattern + ")")
	if err != nil {
		in.fail("invalid regex %q: %s", pattern, err)
	}
	re.Longest()
	return re
}

// regexOf: a regex literal node is the regex itself, anything else is a dynamic regex string.
func (in *interp) regexOf(n *awk.Node) *regexp.Regexp {
	if n.K == awk.Regex {
		return in.regex(n.S)
	}
	return in.regex(in.eval(n).ToStr(in.convfmt))
}

func arith(op string, a, b float64, in *interp) float64 {
	r := arith1(op, a, b, in)
	if math.IsInf(r, 0) || math.IsNaN(r) {
		in.res.NonFinite = true
	}
	return r
}

func arith1(op string, a, b float64, in *interp) float64 {
	switch op {
	case "+":
		return a + b
	case "-":
		return a - b
	case "*":
		return a * b
	case "/":
		if b == 0 {
			in.fail("division by zero")
		}
		return a / b
	case "%":
		if b == 0 {
			in.fail("division by zero in mod")
		}
		return math.Mod(a, b)
	case "^":
		return math.Pow(a, b)
	}
	panic("bad arith op " + op)
}

func (in *interp) eval(n *awk.Node) Value {
	v := in.eval1(n)
	if len(v.s) > 1<<16 {
		panic(ctlBudget{}) // runaway string growth: treated like an exhausted step budget
	}
	if v.k == kNum && (math.IsInf(v.n, 0) || math.IsNaN(v.n)) {
		in.res.NonFinite = true
	}
	return v
}

func (in *interp) eval1(n *awk.Node) Value {
	in.tick()
	switch n.K {
	case awk.Num:
		return Num(n.N)
	case awk.Str:
		return Str(n.S)
	case awk.Regex:
		return Bool(in.regex(n.S).MatchString(in.line))
	case awk.Group:
		return in.eval(n.A[0])
	case awk.Var:
		c := in.lookup(n.Name)
		if c.arr != nil && !(specials[n.Name] && !in.isLocal(n.Name)) {
			in.fail("can't use array %q as scalar", n.Name)
		}
		return in.getVar(n.Name)
	case awk.Index:
		return in.load(in.resolveL(n))
	case awk.Field:
		return in.getField(in.fieldIndex(in.eval(n.A[0])))
	case awk.Named:
		in.fail("no field names for @")
	case awk.Unary:
		v := in.eval(n.A[0])
		switch n.Op {
		case "-":
			return Num(-v.ToNum())
		case "+":
			return Num(v.ToNum())
		default:
			return Bool(!v.ToBool())
		}
	case awk.Binary:
		switch n.Op {
		case "&&":
			if !in.eval(n.A[0]).ToBool() {
				return Num(0)
			}
			return Bool(in.eval(n.A[1]).ToBool())
		case "||":
			if in.eval(n.A[0]).ToBool() {
				return Num(1)
			}
			return Bool(in.eval(n.A[1]).ToBool())
		case "~", "!~":
			l := in.eval(n.A[0])
			re := in.regexOf(n.A[1])
			m := re.MatchString(l.ToStr(in.convfmt))
			return Bool(m == (n.Op == "~"))
		case " ":
			l := in.eval(n.A[0])
			r := in.eval(n.A[1])
			return Str(l.ToStr(in.convfmt) + r.ToStr(in.convfmt))
		case "<", "<=", "==", "!=", ">", ">=":
			l := in.eval(n.A[0])
			r := in.eval(n.A[1])
			return Bool(compare(n.Op, l, r, in.convfmt))
		default:
			l := in.eval(n.A[0])
			r := in.eval(n.A[1])
			return Num(arith(n.Op, l.ToNum(), r.ToNum(), in))
		}
	case awk.In:
		key := in.subscript(n.A)
		_, ok := in.array(n.Name)[key]
		return Bool(ok)
	case awk.Cond:
		if in.eval(n.A[0]).ToBool() {
			return in.eval(n.A[1])
		}
		return in.eval(n.A[2])
	case awk.Assign:
		rhs := in.eval(n.A[1])
		l := in.resolveL(n.A[0])
		if n.Op == "=" {
			in.store(l, rhs)
			if l.kind == "field" {
				// the value of a field assignment expression is the assigned value
				return rhs
			}
			return rhs
		}
		old := in.load(l)
		v := Num(arith(n.Op[:len(n.Op)-1], old.ToNum(), rhs.ToNum(), in))
		in.store(l, v)
		return v
	case awk.Incr:
		l := in.resolveL(n.A[0])
		old := in.load(l).ToNum()
		delta := 1.0
		if n.Op == "--" {
			delta = -1
		}
		in.store(l, Num(old+delta))
		if n.Pre {
			return Num(old + delta)
		}
		return Num(old)
	case awk.Call:
		return in.callBuiltin(n)
	case awk.UserCall:
		return in.callUser(n)
	case awk.Getline:
		return in.getline(n)
	}
	in.fail("cannot evaluate %s", n.K)
	return Null()
}

// ---------------------------------------------------------------------------
// builtins

func (in *interp) strArg(n *awk.Node) string { return in.eval(n).ToStr(in.convfmt) }

func toInt(f float64) int {
	switch {
	case f > 1<<53:
		return 1 << 53
	case f < -(1 << 53):
		return -(1 << 53)
	case math.IsNaN(f):
		return -(1 << 53)
	}
	return int(f)
}

func expandRepl(repl, match string) string {
	var sb strings.Builder
	for i := 0; i < len(repl); i++ {
		switch repl[i] {
		case '&':
			sb.WriteString(match)
		case '\\':
			i++
			if i < len(repl) {
				switch repl[i] {
				case '&':
					sb.WriteByte('&')
				case '\\':
					sb.WriteByte('\\')
				default:
					sb.WriteByte('\\')
					sb.WriteByte(repl[i])
				}
			} else {
				sb.WriteByte('\\')
			}
		default:
			sb.WriteByte(repl[i])
		}
	}
	return sb.String()
}

func (in *interp) callBuiltin(n *awk.Node) Value {
	a := n.A
	switch n.Name {
	case "length":
		if len(a) == 0 {
			return Num(float64(len(in.line)))
		}
		if arg := awk.StripGroups(a[0]); arg.K == awk.Var && a[0].K == awk.Var {
			c := in.lookup(arg.Name)
			if c.arr != nil && !(specials[arg.Name] && !in.isLocal(arg.Name)) {
				return Num(float64(len(c.arr)))
			}
		}
		return Num(float64(len(in.strArg(a[0]))))
	case "substr":
		s := in.strArg(a[0])
		m := toInt(in.eval(a[1]).ToNum())
		if m > len(s) {
			m = len(s) + 1
		}
		if m < 1 {
			m = 1
		}
		if len(a) == 2 {
			return Str(s[m-1:])
		}
		l := toInt(in.eval(a[2]).ToNum())
		// note: goawk evaluates the position and length before clamping; order of evaluation is s, m, n
		if l < 0 {
			l = 0
		}
		if l > len(s)-m+1 {
			l = len(s) - m + 1
		}
		return Str(s[m-1 : m-1+l])
	case "index":
		s := in.strArg(a[0])
		t := in.strArg(a[1])
		return Num(float64(strings.Index(s, t) + 1))
	case "int":
		return Num(math.Trunc(in.eval(a[0]).ToNum()))
	case "sqrt":
		return Num(math.Sqrt(in.eval(a[0]).ToNum()))
	case "exp":
		return Num(math.Exp(in.eval(a[0]).ToNum()))
	case "log":
		return Num(math.Log(in.eval(a[0]).ToNum()))
	case "sin":
		return Num(math.Sin(in.eval(a[0]).ToNum()))
	case "cos":
		return Num(math.Cos(in.eval(a[0]).ToNum()))
	case "atan2":
		y := in.eval(a[0]).ToNum()
		x := in.eval(a[1]).ToNum()
		return Num(math.Atan2(y, x))
	case "tolower":
		return Str(strings.ToLower(in.strArg(a[0])))
	case "toupper":
		return Str(strings.ToUpper(in.strArg(a[0])))
	case "sprintf":
		format := in.strArg(a[0])
		args := make([]Value, len(a)-1)
		for i := range args {
			args[i] = in.eval(a[i+1])
		}
		return Str(in.sprintf(format, args))
	case "match":
		s := in.strArg(a[0])
		re := in.regexOf(a[1])
		loc := re.FindStringIndex(s)
		if loc == nil {
			in.rstart, in.rlength = Num(0), Num(-1)
		} else {
			in.rstart, in.rlength = Num(float64(loc[0]+1)), Num(float64(loc[1]-loc[0]))
		}
		return in.rstart
	case "split":
		s := in.strArg(a[0])
		var parts []string
		if len(a) == 3 {
			if a[2].K == awk.Regex {
				if s != "" {
					parts = in.regex(a[2].S).Split(s, -1)
				}
			} else {
				sep := in.strArg(a[2])
				parts = in.splitBy(s, sep)
			}
		} else {
			parts = in.splitBy(s, in.fs)
		}
		arr := map[string]Value{}
		for i, p := range parts {
			arr[strconv.Itoa(i+1)] = NumStr(p)
		}
		c := in.lookup(a[1].Name)
		c.arr = nil
		// the array object is replaced in place so that references through parameters stay valid
		target := in.array(a[1].Name)
		for k := range target {
			delete(target, k)
		}
		for k, v := range arr {
			target[k] = v
		}
		return Num(float64(len(parts)))
	case "sub", "gsub":
		return in.subst(n)
	case "close":
		name := in.strArg(a[0])
		if _, ok := in.inFiles[name]; ok {
			delete(in.inFiles, name)
			return Num(0)
		}
		if f, ok := in.outFiles[name]; ok {
			in.disk[name] = f.content.String()
			delete(in.outFiles, name)
			return Num(0)
		}
		return Num(-1)
	case "fflush":
		return Num(0)
	}
	in.fail("builtin %s is not supported by the reference evaluator", n.Name)
	return Null()
}

func (in *interp) splitBy(s, sep string) []string {
	if s == "" {
		return nil
	}
	switch {
	case sep == " ":
		f, _ := recmodel.SplitFields(s, " ") // blanks are space, tab and newline only
		return f
	case utf8.RuneCountInString(sep) <= 1:
		return strings.Split(s, sep)
	}
	return in.regex(sep).Split(s, -1)
}

func (in *interp) subst(n *awk.Node) Value {
	global := n.Name == "gsub"
	a := n.A
	var l lref
	var old string
	target := &awk.Node{K: awk.Field, A: []*awk.Node{awk.NumN(0)}}
	if len(a) == 3 {
		target = awk.StripGroups(a[2])
	}
	preRead := target.K != awk.Var
	var orig Value
	if preRead {
		l = in.resolveL(target)
		orig = in.load(l)
		old = orig.ToStr(in.convfmt)
	}
	re := in.regexOf(a[0])
	repl := in.strArg(a[1])
	if !preRead {
		l = in.resolveL(target)
		orig = in.load(l)
		old = orig.ToStr(in.convfmt)
	}
	count := 0
	out := re.ReplaceAllStringFunc(old, func(m string) string {
		if !global && count > 0 {
			return m
		}
		count++
		return expandRepl(repl, m)
	})
	switch {
	case count > 0:
		in.store(l, Str(out))
	case l.kind != "field":
		// nothing replaced: the target keeps the value it has (the element or variable exists afterwards)
		in.store(l, orig)
	}
	return Num(float64(count))
}

// sprintf: the subset on which C and Go coincide (the generators only use
// %d %i %s %c %x %o %u %f %e %g with explicit precision for f/e/g, %%).
func (in *interp) sprintf(format string, args []Value) string {
	var sb strings.Builder
	ai := 0
	next := func() Value {
		if ai >= len(args) {
			in.fail("format error: not enough arguments")
		}
		v := args[ai]
		ai++
		return v
	}
	for i := 0; i < len(format); i++ {
		c := format[i]
		if c != '%' {
			sb.WriteByte(c)
			continue
		}
		i++
		if i >= len(format) {
			in.fail("format error: expected type specifier after %%")
		}
		if format[i] == '%' {
			sb.WriteByte('%')
			continue
		}
		start := i
		for i < len(format) && strings.IndexByte(" .-+#0123456789", format[i]) >= 0 {
			i++
		}
		if i >= len(format) {
			in.fail("format error: expected type specifier after %%")
		}
		spec := "%" + format[start:i]
		switch format[i] {
		case 'd', 'i':
			sb.WriteString(fmt.Sprintf(spec+"d", int64(next().ToNum())))
		case 'o', 'x', 'X':
			sb.WriteString(fmt.Sprintf(spec+string(format[i]), uint64(int64(next().ToNum()))))
		case 'u':
			sb.WriteString(fmt.Sprintf(spec+"d", uint64(int64(next().ToNum()))))
		case 'f', 'e', 'E', 'g', 'G':
			sp := spec
			if (format[i] == 'g' || format[i] == 'G') && !strings.Contains(spec, ".") {
				sp += ".6"
			}
			sb.WriteString(fmt.Sprintf(sp+string(format[i]), next().ToNum()))
		case 's':
			sb.WriteString(fmt.Sprintf(spec+"s", next().ToStr(in.convfmt)))
		case 'c':
			v := next()
			var b []byte
			if v.isStr() {
				s := v.ToStr(in.convfmt)
				if s == "" {
					b = []byte{0}
				} else {
					b = []byte{s[0]}
				}
			} else {
				b = []byte{byte(int64(v.ToNum()))}
			}
			sb.WriteString(fmt.Sprintf(spec+"s", b))
		default:
			in.fail("format error: invalid format type %q", format[i])
		}
	}
	return sb.String()
}

// ---------------------------------------------------------------------------
// user functions

func (in *interp) callUser(n *awk.Node) Value {
	f, ok := in.funcs[n.Name]
	if !ok {
		in.fail("undefined function %q", n.Name)
	}
	if len(n.A) > len(f.Params) {
		in.fail("%q called with more arguments than declared", n.Name)
	}
	fr := &frame{fn: f, locals: map[string]*cell{}}
	for i, p := range f.Params {
		isArr := in.cfg.IsArray != nil && in.cfg.IsArray(f.Name, p)
		if i < len(n.A) {
			if isArr {
				arg := n.A[i]
				if arg.K != awk.Var {
					in.fail("can't pass scalar as array param")
				}
				c := in.lookup(arg.Name)
				if c.arr == nil {
					c.arr = map[string]Value{}
				}
				fr.locals[p] = c // by reference
			} else {
				fr.locals[p] = &cell{v: in.eval(n.A[i])}
			}
		} else if isArr {
			fr.locals[p] = &cell{arr: map[string]Value{}}
		} else {
			fr.locals[p] = &cell{}
		}
	}
	if in.depth >= 1000 {
		in.fail("calling %q exceeded maximum call depth of 1000", n.Name)
	}
	in.depth++
	in.frames = append(in.frames, fr)
	in.res.Trace["user-call"]++
	ret := Null()
	func() {
		defer func() {
			in.frames = in.frames[:len(in.frames)-1]
			in.depth--
			if r := recover(); r != nil {
				if rv, ok := r.(ctlReturn); ok {
					ret = rv.v
					return
				}
				panic(r)
			}
		}()
		in.execList(f.Body)
	}()
	return ret
}

// ---------------------------------------------------------------------------
// getline

func (in *interp) getline(n *awk.Node) Value {
	cmd, target, file := n.A[0], n.A[1], n.A[2]
	var l lref
	hasTarget := target != nil
	if hasTarget {
		l = in.resolveL(target)
	}
	in.res.Trace["getline"]++
	var line string
	ret := 1.0
	switch {
	case cmd != nil:
		in.fail("command getline is not supported by the reference evaluator")
	case file != nil:
		name := in.strArg(file)
		if _, open := in.outFiles[name]; open {
			in.fail("can't read from writer stream")
		}
		f, ok := in.inFiles[name]
		if !ok {
			if name == "-" {
				f = &inFile{lines: in.stdinLines[in.stdinPos:]}
				in.stdinPos = len(in.stdinLines)
			} else {
				content, found := in.readFile(name)
				if !found {
					return Num(-1)
				}
				f = &inFile{lines: splitLines(content)}
			}
			in.inFiles[name] = f
		}
		if f.pos >= len(f.lines) {
			return Num(0)
		}
		line = f.lines[f.pos]
		f.pos++
		in.res.Trace["getline-file"]++
	default:
		rec, ok, failed := in.tryNextRecord()
		if failed {
			return Num(-1) // e.g. the next file operand cannot be opened: getline reports -1, the run goes on
		}
		if !ok {
			return Num(0)
		}
		line = rec
	}
	if hasTarget {
		if l.kind == "field" {
			in.setField(l.index, NumStr(line))
		} else {
			in.store(l, NumStr(line))
		}
	} else {
		in.setLine(line, false) // input text, whatever its source
	}
	return Num(ret)
}

// ---------------------------------------------------------------------------
// statements

func (in *interp) execList(l []*awk.Node) {
	for _, s := range l {
		in.exec(s)
	}
}

func (in *interp) loopBody(body []*awk.Node) (brk bool) {
	defer func() {
		if r := recover(); r != nil {
			switch r.(type) {
			case ctlBreak:
				brk = true
				return
			case ctlContinue:
				return
			}
			panic(r)
		}
	}()
	in.execList(body)
	return false
}

func (in *interp) output(n *awk.Node, name string, text string) {
	if n.Dest == nil {
		in.writeStdout(text)
		return
	}
	if n.Op == "|" {
		in.fail("output pipes are not supported by the reference evaluator")
	}
	if name == "-" || name == "/dev/stdout" {
		in.writeStdout(text)
		return
	}
	if _, reading := in.inFiles[name]; reading {
		in.fail("can't write to reader stream")
	}
	f, ok := in.outFiles[name]
	if !ok {
		f = &outFile{}
		if n.Op == ">>" {
			if old, exists := in.readFile(name); exists {
				f.content.WriteString(old)
			}
		}
		in.outFiles[name] = f
		in.res.Trace["file-output"]++
	}
	f.content.WriteString(text)
}

func (in *interp) writeStdout(s string) { in.stdout.WriteString(s) }

func (in *interp) exec(n *awk.Node) {
	in.tick()
	switch n.K {
	case awk.ExprStmt:
		in.eval(n.A[0])
	case awk.Print:
		dest := ""
		if n.Dest != nil {
			dest = in.strArg(n.Dest)
		}
		var text string
		if len(n.A) == 0 {
			text = in.line + in.ors
		} else {
			parts := make([]string, len(n.A))
			for i, a := range n.A {
				v := in.eval(a)
				if v.k == kNum {
					parts[i] = NumToStr(v.n, in.ofmt)
				} else {
					parts[i] = v.s
				}
			}
			text = strings.Join(parts, in.ofs) + in.ors
		}
		in.output(n, dest, text)
	case awk.Printf:
		dest := ""
		if n.Dest != nil {
			dest = in.strArg(n.Dest)
		}
		format := in.strArg(n.A[0])
		args := make([]Value, len(n.A)-1)
		for i := range args {
			args[i] = in.eval(n.A[i+1])
		}
		in.output(n, dest, in.sprintf(format, args))
	case awk.If:
		if in.eval(n.A[0]).ToBool() {
			in.execList(n.Body)
		} else {
			in.execList(n.Else)
		}
	case awk.While:
		for in.eval(n.A[0]).ToBool() {
			if in.loopBody(n.Body) {
				break
			}
		}
	case awk.DoWhile:
		for {
			if in.loopBody(n.Body) {
				break
			}
			if !in.eval(n.A[0]).ToBool() {
				break
			}
		}
	case awk.For:
		if n.A[0] != nil {
			in.exec(n.A[0])
		}
		for n.A[1] == nil || in.eval(n.A[1]).ToBool() {
			if in.loopBody(n.Body) {
				break
			}
			if n.A[2] != nil {
				in.exec(n.A[2])
			}
		}
	case awk.ForIn:
		arr := in.array(n.Name2)
		keys := make([]string, 0, len(arr))
		for k := range arr {
			keys = append(keys, k)
		}
		sort.Strings(keys)
		if len(keys) > 1 && !orderInsensitive(n) {
			in.res.OrderDependent = true
		}
		in.res.Trace["for-in"]++
		for _, k := range keys {
			in.setVar(n.Name, Str(k))
			if in.loopBody(n.Body) {
				break
			}
		}
	case awk.Block:
		in.execList(n.Body)
	case awk.Break:
		panic(ctlBreak{})
	case awk.Continue:
		panic(ctlContinue{})
	case awk.Next:
		panic(ctlNext{})
	case awk.Nextfile:
		panic(ctlNextfile{})
	case awk.Exit:
		if n.A[0] != nil {
			in.exitStatus = int(in.eval(n.A[0]).ToNum())
		}
		in.res.Trace["exit"]++
		panic(ctlExit{})
	case awk.Return:
		v := Null()
		if n.A[0] != nil {
			v = in.eval(n.A[0])
		}
		panic(ctlReturn{v})
	case awk.Delete:
		arr := in.array(n.Name)
		if len(n.A) == 0 {
			for k := range arr {
				delete(arr, k)
			}
		} else {
			delete(arr, in.subscript(n.A))
		}
	default:
		in.fail("cannot execute %s", n.K)
	}
}

// orderInsensitive: the for-in body only counts, accumulates numerically, marks
// membership, deletes the current key, or breaks right away - its effect does
// not depend on the order in which keys are visited.
func orderInsensitive(loop *awk.Node) bool {
	ok := true
	var checkExpr func(e *awk.Node) bool
	checkExpr = func(e *awk.Node) bool {
		safe := true
		awk.Walk(e, func(m *awk.Node) {
			switch m.K {
			case awk.Assign, awk.Incr, awk.UserCall, awk.Getline:
				safe = false
			case awk.Call:
				if m.Name == "sub" || m.Name == "gsub" || m.Name == "split" || m.Name == "match" || m.Name == "close" {
					safe = false
				}
			}
		})
		return safe
	}
	var checkStmt func(s *awk.Node, top bool)
	checkStmt = func(s *awk.Node, top bool) {
		switch s.K {
		case awk.ExprStmt:
			e := awk.StripGroups(s.A[0])
			switch e.K {
			case awk.Incr:
				if e.A[0].K != awk.Var || e.A[0].Name == loop.Name {
					ok = false
				}
			case awk.Assign:
				// commutative accumulation into a variable: x += e, x *= e (no other side effects in e)
				if !(e.Op == "+=" || e.Op == "*=") || e.A[0].K != awk.Var || e.A[0].Name == loop.Name || !checkExpr(e.A[1]) {
					// membership marking: b[k] = const
					if e.Op == "=" && e.A[0].K == awk.Index && e.A[0].Name != loop.Name2 && len(e.A[0].A) == 1 && e.A[0].A[0].K == awk.Var && e.A[0].A[0].Name == loop.Name && (e.A[1].K == awk.Num || e.A[1].K == awk.Str) {
						return
					}
					ok = false
				}
				// accumulating floating point sums is order dependent in the last bits: require integer-looking operands is not
				// decidable statically, so callers compare output of such programs only when values are small integers (generator's job)
			default:
				if !checkExpr(e) {
					ok = false
				}
			}
		case awk.If:
			if !checkExpr(s.A[0]) {
				ok = false
			}
			for _, b := range s.Body {
				checkStmt(b, false)
			}
			for _, b := range s.Else {
				checkStmt(b, false)
			}
		case awk.Block:
			for _, b := range s.Body {
				checkStmt(b, false)
			}
		case awk.Delete:
			if !(s.Name == loop.Name2 && len(s.A) == 1 && s.A[0].K == awk.Var && s.A[0].Name == loop.Name) {
				ok = false
			}
		case awk.Break:
			// a break makes the set of visited keys order dependent unless nothing observable happened before it;
			// allowed only as the last statement of the body with counters before it being idempotent flags
			ok = false
		case awk.Continue:
		default:
			ok = false
		}
	}
	// special shape: body ends in break and everything before it is "flag = const" assignments or nothing
	body := loop.Body
	if len(body) > 0 && body[len(body)-1].K == awk.Break {
		for _, s := range body[:len(body)-1] {
			if s.K == awk.If && !mentions(s.A[0], loop.Name) && checkExpr(s.A[0]) && onlyControl(s.Body) && onlyControl(s.Else) {
				continue // leaves the loop (and more) on a condition that does not depend on the key
			}
			if s.K == awk.ExprStmt {
				e := awk.StripGroups(s.A[0])
				if e.K == awk.Assign && e.Op == "=" && e.A[0].K == awk.Var && e.A[0].Name != loop.Name && (e.A[1].K == awk.Num || e.A[1].K == awk.Str) {
					continue
				}
				if e.K == awk.Incr && e.A[0].K == awk.Var && e.A[0].Name != loop.Name {
					continue
				}
			}
			return false
		}
		return true
	}
	for _, s := range body {
		checkStmt(s, true)
	}
	return ok
}

func mentions(e *awk.Node, name string) bool {
	found := false
	awk.Walk(e, func(m *awk.Node) {
		if m.K == awk.Var && m.Name == name {
			found = true
		}
	})
	return found
}

func onlyControl(l []*awk.Node) bool {
	for _, s := range l {
		switch s.K {
		case awk.Next, awk.Nextfile, awk.Break:
		case awk.Exit, awk.Return:
			if s.A[0] != nil && s.A[0].K != awk.Num {
				return false
			}
		default:
			return false
		}
	}
	return true
}

var _ = errors.New
