// Package refeval is the harness's independent reference evaluator for AWK:
// a direct tree-walking interpreter over the harness's own syntax tree
// (package awk).  It shares no code with goawk's compiler or virtual machine
// and has no notion of stack, opcode, jump or constant table.
//
// Where POSIX leaves behaviour open the evaluator fixes a convention; the
// conventions are listed in Conventions and are part of the trusted base.
package refeval

import (
	"math"
	"regexp"
	"strconv"
	"strings"
)

// Conventions documents the choices made where POSIX is silent.
var Conventions = []string{
	"evaluation order: binary operands left to right; assignment: right-hand side, then the subscript/field index of the target; lv op= e: e, then the subscript, then the old value; sub/gsub on $e or a[e]: the index and old value before regex and replacement; user-call arguments left to right; print redirection target before the arguments; getline: target index before the file/command operand",
	"sub/gsub with no match does not assign a field target; a variable or array element target is assigned its (unchanged) string value",
	"an uninitialised variable is \"\" and 0; length(x) of a name that is never used as an array is the scalar length",
	"a number converts to a string as an exact integer when integral and within int64, else through CONVFMT (OFMT in print), with C printf rounding",
	"user function call depth above 1000 is a run-time error",
	"input-derived text is a number in comparisons when it matches ws* [+-]? (d+ (. d*)? | . d+) ([eE][+-]? d+)? ws* (programs with hex/inf/nan-looking data are not generated)",
}

type kind int

const (
	kNull kind = iota
	kStr
	kNum
	kNumStr // input-derived text
)

type Value struct {
	k kind
	s string
	n float64
}

func Null() Value            { return Value{} }
func Str(s string) Value     { return Value{k: kStr, s: s} }
func Num(n float64) Value    { return Value{k: kNum, n: n} }
func NumStr(s string) Value  { return Value{k: kNumStr, s: s} }
func Bool(b bool) Value {
	if b {
		return Num(1)
	}
	return Num(0)
}

var decimalRE = regexp.MustCompile(`^[ \t\n\v\f\r]*[+-]?([0-9]+(\.[0-9]*)?|\.[0-9]+)([eE][+-]?[0-9]+)?[ \t\n\v\f\r]*$`)
var prefixRE = regexp.MustCompile(`^[ \t\n\v\f\r]*[+-]?([0-9]+(\.[0-9]*)?|\.[0-9]+)([eE][+-]?[0-9]+)?`)

var uncertainRE = regexp.MustCompile(`(?i)^[ \t\n\v\f\r]*[+-]?(0x|inf|nan)`)

// Uncertain is set by conversions of strings whose numeric reading POSIX leaves
// open (hexadecimal, inf, nan spellings); the current run then is not comparable.
// (The evaluator is used by one goroutine at a time.)
var Uncertain *bool

func noteUncertain(s string) {
	if Uncertain != nil && len(s) > 1 && uncertainRE.MatchString(s) {
		*Uncertain = true
	}
}

// LooksNumeric reports whether the whole string looks like a decimal number.
func LooksNumeric(s string) bool {
	noteUncertain(s)
	return decimalRE.MatchString(s)
}

// PrefixNum is the value of the longest leading numeric prefix (0 if none).
func PrefixNum(s string) float64 {
	noteUncertain(s)
	m := prefixRE.FindString(s)
	if m == "" {
		return 0
	}
	f, _ := strconv.ParseFloat(strings.Trim(m, " \t\n\v\f\r"), 64)
	return f
}

// ToNum converts a value to a number.
func (v Value) ToNum() float64 {
	switch v.k {
	case kNum:
		return v.n
	case kStr, kNumStr:
		return PrefixNum(v.s)
	}
	return 0
}

// isStr: does the value take part in a comparison as a string?
func (v Value) isStr() bool {
	switch v.k {
	case kStr:
		return true
	case kNumStr:
		return !LooksNumeric(v.s)
	}
	return false
}

// ToBool is the AWK truth value.
func (v Value) ToBool() bool {
	switch v.k {
	case kStr:
		return v.s != ""
	case kNumStr:
		if LooksNumeric(v.s) {
			return PrefixNum(v.s) != 0
		}
		return v.s != ""
	case kNum:
		return v.n != 0
	}
	return false
}

// FormatNum renders a non-integral number with a %.Ng / %.Nf / %.Ne style format
// (C semantics); other formats fall back to %.6g.
func FormatNum(format string, n float64) string {
	if len(format) >= 4 && format[0] == '%' && format[1] == '.' {
		verb := format[len(format)-1]
		if p, err := strconv.Atoi(format[2 : len(format)-1]); err == nil && (verb == 'g' || verb == 'f' || verb == 'e') {
			return strconv.FormatFloat(n, verb, p, 64)
		}
	}
	return strconv.FormatFloat(n, 'g', 6, 64)
}

// NumToStr converts a number to a string with the given CONVFMT/OFMT.
func NumToStr(n float64, format string) string {
	switch {
	case math.IsNaN(n):
		return "nan"
	case math.IsInf(n, 1):
		return "inf"
	case math.IsInf(n, -1):
		return "-inf"
	case n == math.Trunc(n) && n >= -9223372036854775808.0 && n < 9223372036854775808.0:
		return strconv.FormatInt(int64(n), 10)
	}
	return FormatNum(format, n)
}

// ToStr converts a value to a string with the given CONVFMT.
func (v Value) ToStr(convfmt string) string {
	if v.k == kNum {
		return NumToStr(v.n, convfmt)
	}
	return v.s
}

// compare implements the six comparison operators.
func compare(op string, l, r Value, convfmt string) bool {
	if l.isStr() || r.isStr() {
		a, b := l.ToStr(convfmt), r.ToStr(convfmt)
		switch op {
		case "<":
			return a < b
		case "<=":
			return a <= b
		case "==":
			return a == b
		case "!=":
			return a != b
		case ">":
			return a > b
		default:
			return a >= b
		}
	}
	a, b := l.ToNum(), r.ToNum()
	switch op {
	case "<":
		return a < b
	case "<=":
		return a <= b
	case "==":
		return a == b
	case "!=":
		return a != b
	case ">":
		return a > b
	default:
		return a >= b
	}
}
