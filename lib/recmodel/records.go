package recmodel

import (
	"regexp"
	"strings"
	"unicode/utf8"
)

// Rec is one input record and its terminator text.
type Rec struct {
	Text string
	RT   string
}

// RSKind classifies a record separator.
func RSKind(rs string) string {
	switch {
	case rs == "\n":
		return "newline"
	case rs == "":
		return "paragraph"
	case len(rs) == 1:
		return "byte"
	case utf8.RuneCountInString(rs) == 1:
		return "rune"
	}
	return "regex"
}

// Records splits the whole input by rs, per the statement:
//
//	"\n"           the lines, one optional trailing CR dropped from each
//	one byte       the pieces between occurrences of that byte (no final empty piece)
//	""             the blank-line separated paragraphs
//	otherwise      a regular expression: successive leftmost-longest non-empty matches
//
// RT is reported where the statement defines it (regex: the matched text,
// "" for a final unterminated record).  For the other kinds RT is left empty
// and callers do not compare it against the model.
func Records(input, rs string) ([]Rec, error) {
	switch RSKind(rs) {
	case "newline":
		if input == "" {
			return nil, nil
		}
		lines := strings.Split(input, "\n")
		if lines[len(lines)-1] == "" {
			lines = lines[:len(lines)-1]
		}
		var out []Rec
		for _, l := range lines {
			out = append(out, Rec{Text: strings.TrimSuffix(l, "\r")})
		}
		return out, nil
	case "byte":
		if input == "" {
			return nil, nil
		}
		pieces := strings.Split(input, rs)
		if pieces[len(pieces)-1] == "" {
			pieces = pieces[:len(pieces)-1]
		}
		var out []Rec
		for _, p := range pieces {
			out = append(out, Rec{Text: p})
		}
		return out, nil
	case "paragraph":
		// paragraphs = maximal runs of non-blank lines; a blank line is an empty line (CRLF tolerated)
		var out []Rec
		var cur []string
		flush := func() {
			if len(cur) > 0 {
				out = append(out, Rec{Text: strings.Join(cur, "\n")})
				cur = nil
			}
		}
		lines := strings.Split(input, "\n")
		for i, l := range lines {
			if i == len(lines)-1 && l == "" {
				break
			}
			if l == "" || l == "\r" {
				flush()
				continue
			}
			cur = append(cur, l)
		}
		flush()
		return out, nil
	default:
		expr := rs
		if RSKind(rs) == "rune" {
			expr = regexp.QuoteMeta(rs)
		}
		re, err := regexp.Compile("(?s:" + expr + ")")
		if err != nil {
			return nil, err
		}
		re.Longest()
		var out []Rec
		pos := 0
		for pos < len(input) {
			// next non-empty match at or after pos
			rest := input[pos:]
			var loc []int
			for _, m := range re.FindAllStringIndex(rest, -1) {
				if m[0] != m[1] {
					loc = m
					break
				}
			}
			if loc == nil {
				out = append(out, Rec{Text: rest})
				pos = len(input)
				break
			}
			out = append(out, Rec{Text: rest[:loc[0]], RT: rest[loc[0]:loc[1]]})
			pos += loc[1]
		}
		return out, nil
	}
}
