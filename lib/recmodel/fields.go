// Package recmodel holds pure models of AWK's record machinery, written from
// the property statements: field splitting (C06), record splitting (C07) and
// CSV record extents (C08).
package recmodel

import (
	"regexp"
	"strings"
	"unicode/utf8"
)

// SplitFields splits text with the given FS following the AWK rules:
// a single space means runs of blanks (space, tab, newline) with leading and
// trailing blanks ignored; any other single character is literal; anything
// longer is a regular expression matched leftmost-longest with empty matches
// ignored.  An empty record has no fields.
func SplitFields(text, fs string) ([]string, error) {
	if text == "" {
		return nil, nil
	}
	switch {
	case fs == " ":
		var out []string
		i := 0
		for i < len(text) {
			for i < len(text) && isBlank(text[i]) {
				i++
			}
			j := i
			for j < len(text) && !isBlank(text[j]) {
				j++
			}
			if j > i {
				out = append(out, text[i:j])
			}
			i = j
		}
		return out, nil
	case utf8.RuneCountInString(fs) == 1:
		return strings.Split(text, fs), nil
	default:
		re, err := regexp.Compile("(?s:" + fs + ")")
		if err != nil {
			return nil, err
		}
		re.Longest()
		var out []string
		prev := 0
		for _, m := range re.FindAllStringIndex(text, -1) {
			if m[0] == m[1] {
				continue
			}
			out = append(out, text[prev:m[0]])
			prev = m[1]
		}
		out = append(out, text[prev:])
		return out, nil
	}
}

func isBlank(c byte) bool { return c == ' ' || c == '\t' || c == '\n' }
