// Package cprintf talks to the libc snprintf helper (chelper/printf_oracle.c).
package cprintf

import (
	"bufio"
	"encoding/binary"
	"fmt"
	"io"
	"math"
	"os"
	"os/exec"
	"sync"
)

type Client struct {
	mu  sync.Mutex
	cmd *exec.Cmd
	in  *bufio.Writer
	out *bufio.Reader
}

// Start launches the helper ($VERIF_CPRINTF or /verif/bin/printf_oracle).
func Start() (*Client, error) {
	path := os.Getenv("VERIF_CPRINTF")
	if path == "" {
		path = "/verif/bin/printf_oracle"
	}
	cmd := exec.Command(path)
	stdin, err := cmd.StdinPipe()
	if err != nil {
		return nil, err
	}
	stdout, err := cmd.StdoutPipe()
	if err != nil {
		return nil, err
	}
	cmd.Stderr = os.Stderr
	if err := cmd.Start(); err != nil {
		return nil, err
	}
	return &Client{cmd: cmd, in: bufio.NewWriter(stdin), out: bufio.NewReader(stdout)}, nil
}

// Value kinds.
const (
	Int    = 'd' // int64
	Uint   = 'u' // uint64
	Double = 'f' // float64
	Char   = 'c' // int32
	String = 's' // string without NUL
)

// Format renders one conversion specification (with the proper C length
// modifier already in it) through snprintf.
func (c *Client) Format(spec string, stars []int32, kind byte, val any) (string, error) {
	c.mu.Lock()
	defer c.mu.Unlock()
	var b4 [4]byte
	var b8 [8]byte
	binary.LittleEndian.PutUint32(b4[:], uint32(len(spec)))
	c.in.Write(b4[:])
	c.in.WriteString(spec)
	c.in.WriteByte(byte(len(stars)))
	for _, s := range stars {
		binary.LittleEndian.PutUint32(b4[:], uint32(s))
		c.in.Write(b4[:])
	}
	c.in.WriteByte(kind)
	switch kind {
	case Int:
		binary.LittleEndian.PutUint64(b8[:], uint64(val.(int64)))
		c.in.Write(b8[:])
	case Uint:
		binary.LittleEndian.PutUint64(b8[:], val.(uint64))
		c.in.Write(b8[:])
	case Double:
		binary.LittleEndian.PutUint64(b8[:], math.Float64bits(val.(float64)))
		c.in.Write(b8[:])
	case Char:
		binary.LittleEndian.PutUint32(b4[:], uint32(val.(int32)))
		c.in.Write(b4[:])
	case String:
		s := val.(string)
		binary.LittleEndian.PutUint32(b4[:], uint32(len(s)))
		c.in.Write(b4[:])
		c.in.WriteString(s)
	default:
		return "", fmt.Errorf("cprintf: bad kind %q", kind)
	}
	if err := c.in.Flush(); err != nil {
		return "", err
	}
	if _, err := io.ReadFull(c.out, b4[:]); err != nil {
		return "", err
	}
	n := binary.LittleEndian.Uint32(b4[:])
	if n == 0xFFFFFFFF {
		return "", fmt.Errorf("cprintf: snprintf failed for %q", spec)
	}
	buf := make([]byte, n)
	if _, err := io.ReadFull(c.out, buf); err != nil {
		return "", err
	}
	return string(buf), nil
}

func (c *Client) Close() {
	c.mu.Lock()
	defer c.mu.Unlock()
	c.cmd.Process.Kill()
	c.cmd.Wait()
}
