// Package sandbox provides I/O doubles for the checks: chunked readers,
// failing writers, recording writers.
package sandbox

import (
	"errors"
	"io"
	"sync"
)

// ChunkReader delivers data in exactly the scripted chunk sizes (the last
// chunk size repeats; a size <= 0 means "whatever the caller's buffer holds").
type ChunkReader struct {
	Data   []byte
	Chunks []int
	pos    int
	idx    int
}

func NewChunkReader(data []byte, chunks []int) *ChunkReader {
	return &ChunkReader{Data: data, Chunks: chunks}
}

func (r *ChunkReader) Read(p []byte) (int, error) {
	if r.pos >= len(r.Data) {
		return 0, io.EOF
	}
	n := len(p)
	if len(r.Chunks) > 0 {
		c := r.Chunks[len(r.Chunks)-1]
		if r.idx < len(r.Chunks) {
			c = r.Chunks[r.idx]
		}
		r.idx++
		if c > 0 && c < n {
			n = c
		}
	}
	if n > len(r.Data)-r.pos {
		n = len(r.Data) - r.pos
	}
	copy(p, r.Data[r.pos:r.pos+n])
	r.pos += n
	return n, nil
}

// Chunking enumerates the 2^(n-1) ways of cutting n bytes: bit i of mask set
// means "cut after byte i".
func Chunking(n int, mask uint64) []int {
	var chunks []int
	size := 0
	for i := 0; i < n; i++ {
		size++
		if i < n-1 && mask&(1<<uint(i)) != 0 {
			chunks = append(chunks, size)
			size = 0
		}
	}
	if size > 0 {
		chunks = append(chunks, size)
	}
	// after the scripted chunks deliver everything that is left
	return append(chunks, 1<<30)
}

// FailAfter is a writer that accepts exactly N bytes and then fails.
type FailAfter struct {
	mu       sync.Mutex
	N        int
	Accepted []byte
	Failed   bool
}

var ErrInjected = errors.New("injected write failure")

func (w *FailAfter) Write(p []byte) (int, error) {
	w.mu.Lock()
	defer w.mu.Unlock()
	room := w.N - len(w.Accepted)
	if room >= len(p) {
		w.Accepted = append(w.Accepted, p...)
		return len(p), nil
	}
	if room > 0 {
		w.Accepted = append(w.Accepted, p[:room]...)
	} else {
		room = 0
	}
	w.Failed = true
	return room, ErrInjected
}

// Recorder is a mutex-protected recording writer.
type Recorder struct {
	mu  sync.Mutex
	buf []byte
}

func (r *Recorder) Write(p []byte) (int, error) {
	r.mu.Lock()
	defer r.mu.Unlock()
	r.buf = append(r.buf, p...)
	return len(p), nil
}

func (r *Recorder) String() string {
	r.mu.Lock()
	defer r.mu.Unlock()
	return string(r.buf)
}

func (r *Recorder) Len() int {
	r.mu.Lock()
	defer r.mu.Unlock()
	return len(r.buf)
}
