// Package awk holds the harness's own AWK syntax tree, independent of goawk's
// internal/ast: the generators build it, the renderers turn it into source
// text, FromGoawk converts a parsed goawk program into it (by reflection, so
// that parse results can be compared with what was rendered), and refeval
// evaluates it.
package awk

import (
	"fmt"
	"strconv"
	"strings"
)

// Expression kinds.
const (
	Num      = "num"      // N
	Str      = "str"      // S
	Regex    = "regex"    // S; stand-alone /re/ (means $0 ~ /re/) or regex literal operand
	Var      = "var"      // Name
	Index    = "index"    // Name[A...]
	Field    = "field"    // $A[0]
	Named    = "named"    // @A[0]
	Unary    = "unary"    // Op A[0]   Op in + - !
	Binary   = "binary"   // A[0] Op A[1]  Op in + - * / % ^ < <= == != > >= ~ !~ && || and " " (concatenation)
	In       = "in"       // (A...) in Name
	Cond     = "cond"     // A[0] ? A[1] : A[2]
	Assign   = "assign"   // A[0] Op A[1]   Op in = += -= *= /= %= ^=
	Incr     = "incr"     // Op in ++ --, Pre
	Call     = "call"     // builtin Name(A...)
	UserCall = "usercall" // Name(A...)
	Getline  = "getline"  // A[0] command | getline A[1] target < A[2] file  (nil entries allowed)
	Group    = "group"    // (A[0])
	Multi    = "multi"    // (A...) pseudo-expression
)

// Statement kinds.
const (
	Print    = "print"    // A args, Op redirect ("" > >> |), Dest
	Printf   = "printf"   // same
	ExprStmt = "expr"     // A[0]
	If       = "if"       // A[0] cond, Body, Else
	For      = "for"      // A[0] pre (stmt or nil), A[1] cond, A[2] post, Body
	ForIn    = "forin"    // Name var, Name2 array, Body
	While    = "while"    // A[0], Body
	DoWhile  = "dowhile"  // Body, A[0]
	Break    = "break"
	Continue = "continue"
	Next     = "next"
	Nextfile = "nextfile"
	Exit     = "exit"   // A[0] or nil
	Delete   = "delete" // Name, A indexes (possibly none)
	Return   = "return" // A[0] or nil
	Block    = "block"  // Body
)

// Node is an expression or a statement.
type Node struct {
	K     string  `json:"k"`
	Op    string  `json:"op,omitempty"`
	Name  string  `json:"name,omitempty"`
	Name2 string  `json:"name2,omitempty"`
	S     string  `json:"s,omitempty"`
	N     float64 `json:"n,omitempty"`
	Pre   bool    `json:"pre,omitempty"`
	A     []*Node `json:"a,omitempty"`
	Dest  *Node   `json:"dest,omitempty"`
	Body  []*Node `json:"body,omitempty"`
	Else  []*Node `json:"else,omitempty"`
	// HasElse distinguishes "else ;" / "else {}" from no else at all (both have an empty Else list).
	HasElse bool `json:"has_else,omitempty"`
	// Line/Col: position of the statement's first byte as rendered (filled by the renderer).
	Line int `json:"-"`
	Col  int `json:"-"`
	ID   int `json:"-"` // statement id assigned by Number()
}

type Action struct {
	Pattern []*Node `json:"pattern,omitempty"`
	Body    []*Node `json:"body,omitempty"`
	NoBody  bool    `json:"no_body,omitempty"` // pattern-only rule (prints $0)
}

type Func struct {
	Name   string   `json:"name"`
	Params []string `json:"params,omitempty"`
	Body   []*Node  `json:"body,omitempty"`
}

type Program struct {
	Begin   [][]*Node `json:"begin,omitempty"`
	Actions []*Action `json:"actions,omitempty"`
	End     [][]*Node `json:"end,omitempty"`
	Funcs   []*Func   `json:"funcs,omitempty"`
}

// ---------------------------------------------------------------------------
// constructors

func NumN(n float64) *Node           { return &Node{K: Num, N: n} }
func StrN(s string) *Node            { return &Node{K: Str, S: s} }
func RegexN(s string) *Node          { return &Node{K: Regex, S: s} }
func VarN(name string) *Node         { return &Node{K: Var, Name: name} }
func IndexN(a string, i ...*Node) *Node { return &Node{K: Index, Name: a, A: i} }
func FieldN(e *Node) *Node           { return &Node{K: Field, A: []*Node{e}} }
func NamedN(e *Node) *Node           { return &Node{K: Named, A: []*Node{e}} }
func UnaryN(op string, e *Node) *Node { return &Node{K: Unary, Op: op, A: []*Node{e}} }
func BinN(l *Node, op string, r *Node) *Node {
	return &Node{K: Binary, Op: op, A: []*Node{l, r}}
}
func InN(a string, i ...*Node) *Node { return &Node{K: In, Name: a, A: i} }
func CondN(c, t, f *Node) *Node      { return &Node{K: Cond, A: []*Node{c, t, f}} }
func AssignN(l *Node, op string, r *Node) *Node {
	return &Node{K: Assign, Op: op, A: []*Node{l, r}}
}
func IncrN(op string, pre bool, e *Node) *Node { return &Node{K: Incr, Op: op, Pre: pre, A: []*Node{e}} }
func CallN(name string, a ...*Node) *Node      { return &Node{K: Call, Name: name, A: a} }
func UserCallN(name string, a ...*Node) *Node  { return &Node{K: UserCall, Name: name, A: a} }
func GetlineN(cmd, target, file *Node) *Node   { return &Node{K: Getline, A: []*Node{cmd, target, file}} }
func GroupN(e *Node) *Node                     { return &Node{K: Group, A: []*Node{e}} }

func PrintN(args []*Node, redir string, dest *Node) *Node {
	return &Node{K: Print, A: args, Op: redir, Dest: dest}
}
func PrintfN(args []*Node, redir string, dest *Node) *Node {
	return &Node{K: Printf, A: args, Op: redir, Dest: dest}
}
func ExprS(e *Node) *Node { return &Node{K: ExprStmt, A: []*Node{e}} }
func IfN(c *Node, body, els []*Node, hasElse bool) *Node {
	return &Node{K: If, A: []*Node{c}, Body: body, Else: els, HasElse: hasElse}
}
func ForN(pre, cond, post *Node, body []*Node) *Node {
	return &Node{K: For, A: []*Node{pre, cond, post}, Body: body}
}
func ForInN(v, arr string, body []*Node) *Node { return &Node{K: ForIn, Name: v, Name2: arr, Body: body} }
func WhileN(c *Node, body []*Node) *Node     { return &Node{K: While, A: []*Node{c}, Body: body} }
func DoWhileN(body []*Node, c *Node) *Node   { return &Node{K: DoWhile, A: []*Node{c}, Body: body} }
func ExitN(e *Node) *Node                    { return &Node{K: Exit, A: []*Node{e}} }
func ReturnN(e *Node) *Node                  { return &Node{K: Return, A: []*Node{e}} }
func DeleteN(a string, i ...*Node) *Node     { return &Node{K: Delete, Name: a, A: i} }
func BlockN(body []*Node) *Node              { return &Node{K: Block, Body: body} }
func Simple(k string) *Node                  { return &Node{K: k} }

func IsLValue(n *Node) bool {
	return n != nil && (n.K == Var || n.K == Index || n.K == Field)
}

// StripGroups returns n with Group nodes removed (top level only).
func StripGroups(n *Node) *Node {
	for n != nil && n.K == Group {
		n = n.A[0]
	}
	return n
}

// ---------------------------------------------------------------------------
// canonical dump

type CanonOpt struct {
	ElideGroups bool // drop grouping nodes
	Num6        bool // compare numbers through their %.6g / integer rendering
	MergeElse   bool // "else {}" == no else
}

func numText(n float64, six bool) string {
	if six {
		// what the printed form shows: integral values (within int64) exactly,
		// others with six significant digits; compare the value a reader of
		// that text gets
		var s string
		if n == float64(int64(n)) {
			s = strconv.FormatInt(int64(n), 10)
		} else {
			s = fmt.Sprintf("%.6g", n)
		}
		f, err := strconv.ParseFloat(s, 64)
		if err != nil {
			return s
		}
		return strconv.FormatFloat(f, 'g', -1, 64)
	}
	return strconv.FormatFloat(n, 'g', -1, 64)
}

// Canon returns a canonical S-expression of the node.
func Canon(n *Node, o CanonOpt) string {
	var sb strings.Builder
	canon(&sb, n, o)
	return sb.String()
}

func canonList(sb *strings.Builder, l []*Node, o CanonOpt) {
	sb.WriteByte('[')
	for i, c := range l {
		if i > 0 {
			sb.WriteByte(' ')
		}
		canon(sb, c, o)
	}
	sb.WriteByte(']')
}

func canon(sb *strings.Builder, n *Node, o CanonOpt) {
	if n == nil {
		sb.WriteString("nil")
		return
	}
	if o.ElideGroups && n.K == Group {
		canon(sb, n.A[0], o)
		return
	}
	sb.WriteByte('(')
	sb.WriteString(n.K)
	switch n.K {
	case Num:
		sb.WriteByte(' ')
		sb.WriteString(numText(n.N, o.Num6))
	case Str, Regex:
		sb.WriteByte(' ')
		sb.WriteString(strconv.Quote(n.S))
	case Var:
		sb.WriteByte(' ')
		sb.WriteString(n.Name)
	case Index, In, Call, UserCall, Delete:
		sb.WriteByte(' ')
		sb.WriteString(n.Name)
		sb.WriteByte(' ')
		canonList(sb, n.A, o)
	case Unary, Binary, Assign:
		sb.WriteByte(' ')
		sb.WriteString(strconv.Quote(n.Op))
		sb.WriteByte(' ')
		canonList(sb, n.A, o)
	case Incr:
		if n.Pre {
			sb.WriteString(" pre")
		} else {
			sb.WriteString(" post")
		}
		sb.WriteString(n.Op)
		sb.WriteByte(' ')
		canonList(sb, n.A, o)
	case Print, Printf:
		sb.WriteByte(' ')
		canonList(sb, n.A, o)
		if n.Dest != nil {
			sb.WriteString(" redirect" + strconv.Quote(n.Op) + " ")
			canon(sb, n.Dest, o)
		}
	case If:
		sb.WriteByte(' ')
		canonList(sb, n.A, o)
		sb.WriteString(" then")
		canonList(sb, n.Body, o)
		if len(n.Else) > 0 || (n.HasElse && !o.MergeElse) {
			sb.WriteString(" else")
			canonList(sb, n.Else, o)
		}
	case ForIn:
		sb.WriteString(" " + n.Name + " in " + n.Name2 + " ")
		canonList(sb, n.Body, o)
	case For, While, DoWhile, Block:
		sb.WriteByte(' ')
		canonList(sb, n.A, o)
		sb.WriteString(" body")
		canonList(sb, n.Body, o)
	default:
		if len(n.A) > 0 {
			sb.WriteByte(' ')
			canonList(sb, n.A, o)
		}
	}
	sb.WriteByte(')')
}

// CanonProgram returns a canonical dump of a whole program.
func CanonProgram(p *Program, o CanonOpt) string {
	var sb strings.Builder
	for _, b := range p.Begin {
		sb.WriteString("BEGIN ")
		canonList(&sb, b, o)
		sb.WriteByte('\n')
	}
	for _, a := range p.Actions {
		sb.WriteString("RULE ")
		canonList(&sb, a.Pattern, o)
		if a.NoBody {
			sb.WriteString(" nobody")
		} else {
			sb.WriteString(" body")
			canonList(&sb, a.Body, o)
		}
		sb.WriteByte('\n')
	}
	for _, b := range p.End {
		sb.WriteString("END ")
		canonList(&sb, b, o)
		sb.WriteByte('\n')
	}
	for _, f := range p.Funcs {
		sb.WriteString("FUNC " + f.Name + "(" + strings.Join(f.Params, ",") + ") ")
		canonList(&sb, f.Body, o)
		sb.WriteByte('\n')
	}
	return sb.String()
}

// Walk calls f for n and every descendant (pre-order).
func Walk(n *Node, f func(*Node)) {
	if n == nil {
		return
	}
	f(n)
	for _, c := range n.A {
		Walk(c, f)
	}
	Walk(n.Dest, f)
	for _, c := range n.Body {
		Walk(c, f)
	}
	for _, c := range n.Else {
		Walk(c, f)
	}
}

// WalkProgram calls f for every node of the program.
func WalkProgram(p *Program, f func(*Node)) {
	for _, b := range p.Begin {
		for _, s := range b {
			Walk(s, f)
		}
	}
	for _, a := range p.Actions {
		for _, e := range a.Pattern {
			Walk(e, f)
		}
		for _, s := range a.Body {
			Walk(s, f)
		}
	}
	for _, b := range p.End {
		for _, s := range b {
			Walk(s, f)
		}
	}
	for _, fn := range p.Funcs {
		for _, s := range fn.Body {
			Walk(s, f)
		}
	}
}

// Clone deep-copies a node.
func Clone(n *Node) *Node {
	if n == nil {
		return nil
	}
	c := *n
	c.A = cloneList(n.A)
	c.Dest = Clone(n.Dest)
	c.Body = cloneList(n.Body)
	c.Else = cloneList(n.Else)
	return &c
}

func cloneList(l []*Node) []*Node {
	if l == nil {
		return nil
	}
	out := make([]*Node, len(l))
	for i, c := range l {
		out[i] = Clone(c)
	}
	return out
}

func CloneProgram(p *Program) *Program {
	q := &Program{}
	for _, b := range p.Begin {
		q.Begin = append(q.Begin, cloneList(b))
	}
	for _, a := range p.Actions {
		q.Actions = append(q.Actions, &Action{Pattern: cloneList(a.Pattern), Body: cloneList(a.Body), NoBody: a.NoBody})
	}
	for _, b := range p.End {
		q.End = append(q.End, cloneList(b))
	}
	for _, f := range p.Funcs {
		q.Funcs = append(q.Funcs, &Func{Name: f.Name, Params: append([]string(nil), f.Params...), Body: cloneList(f.Body)})
	}
	return q
}
