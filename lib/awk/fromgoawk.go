package awk

import (
	"fmt"
	"reflect"

	"github.com/benhoyt/goawk/lexer"
	"github.com/benhoyt/goawk/parser"
)

// FromGoawk converts a parsed goawk program into the harness's tree.  The AST
// types live in goawk's internal/ast, which an outside module cannot name, so
// the value is walked by reflection over its exported fields.  An unknown node
// type yields an error (callers treat that as inconclusive, never as a
// violation).
func FromGoawk(p *parser.Program) (prog *Program, err error) {
	defer func() {
		if r := recover(); r != nil {
			if ce, ok := r.(convErr); ok {
				prog, err = nil, ce
				return
			}
			panic(r)
		}
	}()
	v := reflect.ValueOf(p).Elem().FieldByName("ResolvedProgram").FieldByName("Program")
	if !v.IsValid() {
		return nil, convErr{"parser.Program has no ResolvedProgram.Program"}
	}
	prog = &Program{}
	begin := v.FieldByName("Begin")
	for i := 0; i < begin.Len(); i++ {
		prog.Begin = append(prog.Begin, stmts(begin.Index(i)))
	}
	actions := v.FieldByName("Actions")
	for i := 0; i < actions.Len(); i++ {
		a := actions.Index(i).Elem()
		act := &Action{}
		pat := a.FieldByName("Pattern")
		for j := 0; j < pat.Len(); j++ {
			act.Pattern = append(act.Pattern, expr(pat.Index(j)))
		}
		st := a.FieldByName("Stmts")
		if st.IsNil() {
			act.NoBody = true
		} else {
			act.Body = stmts(st)
		}
		prog.Actions = append(prog.Actions, act)
	}
	end := v.FieldByName("End")
	for i := 0; i < end.Len(); i++ {
		prog.End = append(prog.End, stmts(end.Index(i)))
	}
	funcs := v.FieldByName("Functions")
	for i := 0; i < funcs.Len(); i++ {
		f := funcs.Index(i).Elem()
		fn := &Func{Name: f.FieldByName("Name").String()}
		ps := f.FieldByName("Params")
		for j := 0; j < ps.Len(); j++ {
			fn.Params = append(fn.Params, ps.Index(j).String())
		}
		fn.Body = stmts(f.FieldByName("Body"))
		prog.Funcs = append(prog.Funcs, fn)
	}
	return prog, nil
}

type convErr struct{ msg string }

func (e convErr) Error() string { return "awk.FromGoawk: " + e.msg }

func tok(v reflect.Value) lexer.Token { return lexer.Token(v.Int()) }

func opText(t lexer.Token) string {
	if t == lexer.CONCAT {
		return " "
	}
	return t.String()
}

func stmts(v reflect.Value) []*Node {
	out := []*Node{}
	for i := 0; i < v.Len(); i++ {
		out = append(out, stmt(v.Index(i)))
	}
	return out
}

func exprs(v reflect.Value) []*Node {
	var out []*Node
	for i := 0; i < v.Len(); i++ {
		out = append(out, expr(v.Index(i)))
	}
	return out
}

func deref(v reflect.Value) (reflect.Value, bool) {
	for v.Kind() == reflect.Interface || v.Kind() == reflect.Ptr {
		if v.IsNil() {
			return v, false
		}
		v = v.Elem()
	}
	return v, true
}

func pos(n *Node, v reflect.Value) *Node {
	s := v.FieldByName("Start")
	if s.IsValid() {
		n.Line = int(s.FieldByName("Line").Int())
		n.Col = int(s.FieldByName("Column").Int())
	}
	return n
}

func stmt(v reflect.Value) *Node {
	v, ok := deref(v)
	if !ok {
		return nil
	}
	f := v.FieldByName
	switch name := v.Type().Name(); name {
	case "PrintStmt", "PrintfStmt":
		n := &Node{K: Print, A: exprs(f("Args"))}
		if name == "PrintfStmt" {
			n.K = Printf
		}
		if d := expr(f("Dest")); d != nil {
			n.Dest = d
			n.Op = tok(f("Redirect")).String()
		}
		return pos(n, v)
	case "ExprStmt":
		return pos(&Node{K: ExprStmt, A: []*Node{expr(f("Expr"))}}, v)
	case "IfStmt":
		n := &Node{K: If, A: []*Node{expr(f("Cond"))}, Body: stmts(f("Body")), Else: stmts(f("Else"))}
		n.HasElse = len(n.Else) > 0 // the parser does not record an empty else
		return pos(n, v)
	case "ForStmt":
		return pos(&Node{K: For, A: []*Node{stmt(f("Pre")), expr(f("Cond")), stmt(f("Post"))}, Body: stmts(f("Body"))}, v)
	case "ForInStmt":
		return pos(&Node{K: ForIn, Name: f("Var").String(), Name2: f("Array").String(), Body: stmts(f("Body"))}, v)
	case "WhileStmt":
		return pos(&Node{K: While, A: []*Node{expr(f("Cond"))}, Body: stmts(f("Body"))}, v)
	case "DoWhileStmt":
		return pos(&Node{K: DoWhile, A: []*Node{expr(f("Cond"))}, Body: stmts(f("Body"))}, v)
	case "BreakStmt":
		return pos(&Node{K: Break}, v)
	case "ContinueStmt":
		return pos(&Node{K: Continue}, v)
	case "NextStmt":
		return pos(&Node{K: Next}, v)
	case "NextfileStmt":
		return pos(&Node{K: Nextfile}, v)
	case "ExitStmt":
		return pos(&Node{K: Exit, A: []*Node{expr(f("Status"))}}, v)
	case "ReturnStmt":
		return pos(&Node{K: Return, A: []*Node{expr(f("Value"))}}, v)
	case "DeleteStmt":
		return pos(&Node{K: Delete, Name: f("Array").String(), A: exprs(f("Index"))}, v)
	case "BlockStmt":
		return pos(&Node{K: Block, Body: stmts(f("Body"))}, v)
	default:
		panic(convErr{fmt.Sprintf("unknown statement type %q", name)})
	}
}

func expr(v reflect.Value) *Node {
	v, ok := deref(v)
	if !ok {
		return nil
	}
	f := v.FieldByName
	switch name := v.Type().Name(); name {
	case "FieldExpr":
		return &Node{K: Field, A: []*Node{expr(f("Index"))}}
	case "NamedFieldExpr":
		return &Node{K: Named, A: []*Node{expr(f("Field"))}}
	case "UnaryExpr":
		return &Node{K: Unary, Op: tok(f("Op")).String(), A: []*Node{expr(f("Value"))}}
	case "BinaryExpr":
		return &Node{K: Binary, Op: opText(tok(f("Op"))), A: []*Node{expr(f("Left")), expr(f("Right"))}}
	case "InExpr":
		return &Node{K: In, Name: f("Array").String(), A: exprs(f("Index"))}
	case "CondExpr":
		return &Node{K: Cond, A: []*Node{expr(f("Cond")), expr(f("True")), expr(f("False"))}}
	case "NumExpr":
		return &Node{K: Num, N: f("Value").Float()}
	case "StrExpr":
		if f("Regex").Bool() {
			return &Node{K: Regex, S: f("Value").String()}
		}
		return &Node{K: Str, S: f("Value").String()}
	case "RegExpr":
		return &Node{K: Regex, S: f("Regex").String()}
	case "VarExpr":
		return &Node{K: Var, Name: f("Name").String()}
	case "IndexExpr":
		return &Node{K: Index, Name: f("Array").String(), A: exprs(f("Index"))}
	case "AssignExpr":
		return &Node{K: Assign, Op: "=", A: []*Node{expr(f("Left")), expr(f("Right"))}}
	case "AugAssignExpr":
		return &Node{K: Assign, Op: tok(f("Op")).String() + "=", A: []*Node{expr(f("Left")), expr(f("Right"))}}
	case "IncrExpr":
		return &Node{K: Incr, Op: tok(f("Op")).String(), Pre: f("Pre").Bool(), A: []*Node{expr(f("Expr"))}}
	case "CallExpr":
		return &Node{K: Call, Name: tok(f("Func")).String(), A: exprs(f("Args"))}
	case "UserCallExpr":
		return &Node{K: UserCall, Name: f("Name").String(), A: exprs(f("Args"))}
	case "MultiExpr":
		return &Node{K: Multi, A: exprs(f("Exprs"))}
	case "GetlineExpr":
		return &Node{K: Getline, A: []*Node{expr(f("Command")), expr(f("Target")), expr(f("File"))}}
	case "GroupingExpr":
		return &Node{K: Group, A: []*Node{expr(f("Expr"))}}
	default:
		panic(convErr{fmt.Sprintf("unknown expression type %q", name)})
	}
}

// Parse parses source with goawk and converts the result.
func Parse(src string) (*parser.Program, *Program, error) {
	gp, err := parser.ParseProgram([]byte(src), nil)
	if err != nil {
		return nil, nil, err
	}
	p, err := FromGoawk(gp)
	return gp, p, err
}
