package awk

import (
	"os"
	"path/filepath"
	"testing"
)

// Self-test of the harness's tree: parse repo test programs, convert, render
// in each mode, re-parse, compare.
func TestRoundTripRepoPrograms(t *testing.T) {
	var names []string
	for _, pat := range []string{"/repo/testdata/p.*", "/repo/testdata/t.*", "/repo/testdata/*.awk"} {
		m, _ := filepath.Glob(pat)
		names = append(names, m...)
	}
	n, bad := 0, 0
	for _, name := range names {
		data, err := os.ReadFile(name)
		if err != nil {
			continue
		}
		_, p1, err := Parse(string(data))
		if err != nil {
			continue
		}
		n++
		for _, m := range []Mode{Minimal, Full} {
			src := RenderProgram(CloneProgram(p1), m)
			_, p2, err := Parse(src)
			if err != nil {
				bad++
				if bad < 8 {
					t.Errorf("%s mode %d: re-parse failed: %v\n%s", name, m, err, src)
				}
				continue
			}
			o := CanonOpt{ElideGroups: true}
			if CanonProgram(p1, o) != CanonProgram(p2, o) {
				bad++
				if bad < 8 {
					t.Errorf("%s mode %d: trees differ\n%s\n---\n%s\n--- src:\n%s", name, m, CanonProgram(p1, o), CanonProgram(p2, o), src)
				}
			}
		}
	}
	t.Logf("%d programs, %d bad", n, bad)
}
