package awk

import (
	"fmt"
	"strconv"
	"strings"
)

// Rendering modes.
type Mode int

const (
	Minimal Mode = iota // only the parentheses the POSIX table (plus token-level constraints) requires
	Full                // parentheses around every operator node, never around leaves or lvalue slots
	Noisy               // Minimal plus random redundant parentheses and layout noise
)

// Precedence levels, lowest to highest (the POSIX table).
const (
	pLowest  = 0
	pAssign  = 10
	pCond    = 20
	pOr      = 30
	pAnd     = 40
	pIn      = 50
	pMatch   = 60
	pRel     = 70
	pConcat  = 80
	pAdd     = 90
	pMul     = 100
	pUnary   = 110
	pPow     = 120
	pIncr    = 130
	pField   = 140
	pPrimary = 150
)

func BinPrec(op string) int {
	switch op {
	case "||":
		return pOr
	case "&&":
		return pAnd
	case "~", "!~":
		return pMatch
	case "<", "<=", "==", "!=", ">", ">=":
		return pRel
	case " ":
		return pConcat
	case "+", "-":
		return pAdd
	case "*", "/", "%":
		return pMul
	case "^":
		return pPow
	}
	panic("awk: unknown binary operator " + strconv.Quote(op))
}

// Prec returns the table level of the node's top operator.
func Prec(n *Node) int {
	switch n.K {
	case Num:
		if n.N < 0 || (n.N == 0 && 1/n.N < 0) {
			return pUnary
		}
		return pPrimary
	case Str, Regex, Var, Index, Call, UserCall, Group:
		return pPrimary
	case Field, Named:
		return pField
	case Incr:
		return pIncr
	case Unary:
		return pUnary
	case Binary:
		return BinPrec(n.Op)
	case In:
		return pIn
	case Cond:
		return pCond
	case Assign:
		return pAssign
	case Getline, Multi:
		return pLowest
	}
	panic("awk: Prec of non-expression " + n.K)
}

// Renderer turns trees into source text.
type Renderer struct {
	Mode Mode
	// Rand supplies the random choices of Noisy mode (nil: no noise).  It
	// returns a number in [0, n).
	Rand func(n int) int
	// BareLength lets "length" be written without parentheses (only safe where nothing
	// parenthesised follows; used by generators whose oracle does not depend on the tree).
	BareLength bool
	// StrSpell optionally chooses an alternative spelling for a string literal's content.
	StrSpell func(s string) (string, bool)

	sb     strings.Builder
	line   int
	col    int
	indent int
}

func NewRenderer(m Mode) *Renderer { return &Renderer{Mode: m, line: 1, col: 1} }

func (r *Renderer) rnd(n int) int {
	if r.Rand == nil || r.Mode != Noisy {
		return 0
	}
	return r.Rand(n)
}

func (r *Renderer) w(s string) {
	r.sb.WriteString(s)
	for i := 0; i < len(s); i++ {
		switch s[i] {
		case '\n':
			r.line++
			r.col = 1
		case '\r':
		default:
			r.col++
		}
	}
}

func (r *Renderer) nl() {
	r.w("\n")
	r.w(strings.Repeat("    ", r.indent))
}

// String returns everything rendered so far.
func (r *Renderer) String() string { return r.sb.String() }

// ---------------------------------------------------------------------------
// literals

func QuoteStr(s string) string {
	var sb strings.Builder
	sb.WriteByte('"')
	for i := 0; i < len(s); i++ {
		c := s[i]
		switch {
		case c == '"':
			sb.WriteString(`\"`)
		case c == '\\':
			sb.WriteString(`\\`)
		case c == '\n':
			sb.WriteString(`\n`)
		case c == '\t':
			sb.WriteString(`\t`)
		case c == '\r':
			sb.WriteString(`\r`)
		case c < 0x20 || c == 0x7f:
			fmt.Fprintf(&sb, `\%03o`, c)
		default:
			sb.WriteByte(c)
		}
	}
	sb.WriteByte('"')
	return sb.String()
}

// QuoteRegex renders regex content (in the lexer's normal form: every
// backslash pairs with the following byte, a bare '/' stands for an escaped
// slash) as a /.../ literal.
func QuoteRegex(s string) string {
	var sb strings.Builder
	sb.WriteByte('/')
	for i := 0; i < len(s); i++ {
		c := s[i]
		if c == '\\' && i+1 < len(s) {
			sb.WriteByte(c)
			sb.WriteByte(s[i+1])
			i++
			continue
		}
		if c == '/' {
			sb.WriteString(`\/`)
			continue
		}
		sb.WriteByte(c)
	}
	sb.WriteByte('/')
	return sb.String()
}

func NumText(n float64) string {
	if n == float64(int64(n)) && n < 1e15 && n > -1e15 {
		return strconv.FormatInt(int64(n), 10)
	}
	return strconv.FormatFloat(n, 'g', -1, 64)
}

// ---------------------------------------------------------------------------
// expressions

type ectx struct {
	noGT bool // inside print arguments: an exposed '>' or '| getline' would be taken as a redirection
}

// Expr renders an expression that stands on its own (statement, condition, argument).
func (r *Renderer) Expr(n *Node) string { return r.expr(n, pLowest, ectx{}, false) }

// PrintArg renders an expression as an argument of print/printf.
func (r *Renderer) PrintArg(n *Node) string { return r.expr(n, pLowest, ectx{noGT: true}, false) }

func startsWithSign(s string) bool { return len(s) > 0 && (s[0] == '+' || s[0] == '-') }

// expr renders n for a slot that needs at least precedence min; lvalue slots
// are never parenthesised.
func (r *Renderer) expr(n *Node, min int, c ectx, lvalue bool) string {
	if n == nil {
		return ""
	}
	p := Prec(n)
	need := p < min
	if c.noGT && (n.K == Binary && n.Op == ">" || n.K == Getline && n.A[0] != nil) {
		need = true
	}
	if n.K == Getline && min > pLowest {
		need = true
	}
	if r.Mode == Full && !lvalue && isOperator(n) {
		need = true
	}
	if r.Mode == Noisy && !lvalue && !need && n.K != Regex && r.rnd(6) == 0 {
		need = true
	}
	if lvalue {
		need = false
	}
	if need {
		return "(" + r.bare(n, ectx{}) + ")"
	}
	return r.bare(n, c)
}

func isOperator(n *Node) bool {
	switch n.K {
	case Unary, Binary, In, Cond, Assign, Incr, Field, Named, Getline:
		return true
	case Num:
		return n.N < 0
	}
	return false
}

func (r *Renderer) list(l []*Node) string {
	parts := make([]string, len(l))
	for i, e := range l {
		parts[i] = r.expr(e, pLowest, ectx{}, false)
	}
	return strings.Join(parts, ", ")
}

func (r *Renderer) bare(n *Node, c ectx) string {
	switch n.K {
	case Num:
		if n.N < 0 || (n.N == 0 && 1/n.N < 0) {
			return "-" + NumText(-n.N)
		}
		return NumText(n.N)
	case Str:
		if r.StrSpell != nil {
			if s, ok := r.StrSpell(n.S); ok {
				return s
			}
		}
		return QuoteStr(n.S)
	case Regex:
		return QuoteRegex(n.S)
	case Var:
		return n.Name
	case Index:
		return n.Name + "[" + r.list(n.A) + "]"
	case Field:
		return "$" + r.expr(n.A[0], pField, ectx{}, false)
	case Named:
		return "@" + r.expr(n.A[0], pField, ectx{}, false)
	case Unary:
		s := r.expr(n.A[0], pUnary, c, false)
		if startsWithSign(s) && (n.Op == "+" || n.Op == "-") || r.rnd(4) == 1 {
			return n.Op + " " + s
		}
		return n.Op + s
	case Binary:
		p := BinPrec(n.Op)
		lmin, rmin := p, p+1 // left-associative
		switch n.Op {
		case "^":
			lmin, rmin = p+1, p
		case "~", "!~", "<", "<=", "==", "!=", ">", ">=":
			lmin, rmin = p+1, p+1
		}
		ls := r.expr(n.A[0], lmin, c, false)
		var rs string
		if (n.Op == "~" || n.Op == "!~") && n.A[1].K == Regex {
			rs = r.bare(n.A[1], c) // a regex literal operand is never parenthesised
		} else {
			rs = r.expr(n.A[1], rmin, c, false)
		}
		if n.Op == " " {
			// token-level constraints of concatenation
			if startsWithSign(rs) || n.A[1].K == Regex || strings.HasPrefix(rs, "/") {
				rs = "(" + rs + ")"
			}
			return ls + " " + rs
		}
		return ls + " " + n.Op + " " + rs
	case In:
		if len(n.A) == 1 {
			return r.expr(n.A[0], pIn, c, false) + " in " + n.Name
		}
		return "(" + r.list(n.A) + ") in " + n.Name
	case Cond:
		// the true branch is bracketed by ? and :, so a bare > or | getline in it is not a redirection, even in print arguments
		return r.expr(n.A[0], pOr, c, false) + " ? " + r.expr(n.A[1], pCond, ectx{}, false) + " : " + r.expr(n.A[2], pCond, c, false)
	case Assign:
		return r.expr(n.A[0], pLowest, ectx{}, true) + " " + n.Op + " " + r.expr(n.A[1], pAssign, c, false)
	case Incr:
		lv := n.A[0]
		s := r.expr(lv, pLowest, ectx{}, true)
		if n.Pre {
			return n.Op + s
		}
		return s + n.Op
	case Call:
		if n.Name == "length" && len(n.A) == 0 {
			// a bare "length" followed by "(" would be read as a call with an argument
			if r.BareLength && r.rnd(2) == 0 {
				return "length"
			}
			return "length()"
		}
		parts := make([]string, len(n.A))
		for i, a := range n.A {
			if a.K == Regex {
				parts[i] = r.bare(a, ectx{}) // regex literal arguments keep their literal form
			} else if IsLValue(a) && (n.Name == "sub" || n.Name == "gsub") && i == 2 {
				parts[i] = r.expr(a, pLowest, ectx{}, true)
			} else if n.Name == "split" && i == 1 {
				parts[i] = a.Name
			} else {
				parts[i] = r.expr(a, pLowest, ectx{}, false)
			}
		}
		return n.Name + "(" + strings.Join(parts, ", ") + ")"
	case UserCall:
		parts := make([]string, len(n.A))
		for i, a := range n.A {
			// a bare name may be an array argument: it must stay a bare name
			parts[i] = r.expr(a, pLowest, ectx{}, a.K == Var)
		}
		return n.Name + "(" + strings.Join(parts, ", ") + ")"
	case Group:
		return "(" + r.expr(n.A[0], pLowest, ectx{}, false) + ")"
	case Multi:
		return "(" + r.list(n.A) + ")"
	case Getline:
		s := ""
		if n.A[0] != nil {
			s = r.expr(n.A[0], pConcat, ectx{}, false) + " | "
		}
		s += "getline"
		if n.A[1] != nil {
			s += " " + r.expr(n.A[1], pLowest, ectx{}, true)
		}
		if n.A[2] != nil {
			s += " < " + r.expr(n.A[2], pField, ectx{}, false)
		}
		return s
	}
	panic("awk: cannot render expression kind " + n.K)
}

// ---------------------------------------------------------------------------
// statements

func (r *Renderer) simple(n *Node) string {
	switch n.K {
	case Print, Printf:
		s := n.K
		if len(n.A) > 0 {
			parts := make([]string, len(n.A))
			for i, a := range n.A {
				parts[i] = r.PrintArg(a)
			}
			if r.rnd(5) == 1 && len(n.A) > 1 {
				s += "(" + r.list(n.A) + ")"
			} else {
				s += " " + strings.Join(parts, ", ")
			}
		}
		if n.Dest != nil {
			s += " " + n.Op + " " + r.expr(n.Dest, pConcat, ectx{}, false)
		}
		return s
	case ExprStmt:
		return r.Expr(n.A[0])
	case Delete:
		if len(n.A) == 0 {
			return "delete " + n.Name
		}
		return "delete " + n.Name + "[" + r.list(n.A) + "]"
	case Break, Continue, Next, Nextfile:
		return n.K
	case Exit, Return:
		if len(n.A) > 0 && n.A[0] != nil {
			return n.K + " " + r.Expr(n.A[0])
		}
		return n.K
	}
	panic("awk: not a simple statement: " + n.K)
}

func isSimple(n *Node) bool {
	switch n.K {
	case Print, Printf, ExprStmt, Delete, Break, Continue, Next, Nextfile, Exit, Return:
		return true
	}
	return false
}

// body renders a statement list as a braced block (or, in Noisy mode,
// sometimes as a bare simple statement / a lone semicolon).
func (r *Renderer) body(l []*Node, allowBare bool) {
	if r.Mode == Noisy && allowBare {
		if len(l) == 0 && r.rnd(2) == 1 {
			r.w(";")
			return
		}
		if len(l) == 1 && isSimple(l[0]) && r.rnd(3) == 1 {
			r.indent++
			r.nl()
			r.Stmt(l[0])
			r.indent--
			return
		}
	}
	r.w("{")
	r.indent++
	for _, s := range l {
		r.nl()
		r.Stmt(s)
	}
	r.indent--
	r.nl()
	r.w("}")
}

// Stmt renders one statement at the current position (no trailing newline).
func (r *Renderer) Stmt(n *Node) {
	n.Line, n.Col = r.line, r.col
	switch n.K {
	case If:
		r.w("if (" + r.Expr(n.A[0]) + ") ")
		// a bare "if" body directly before "else" would need care with nested ifs: always brace when there is an else
		r.body(n.Body, !n.HasElse && len(n.Else) == 0)
		if n.HasElse || len(n.Else) > 0 {
			r.w(" else ")
			r.body(n.Else, true)
		}
	case For:
		pre, post := "", ""
		if n.A[0] != nil {
			pre = r.simple(n.A[0])
		}
		cond := ""
		if n.A[1] != nil {
			cond = " " + r.Expr(n.A[1])
		}
		if n.A[2] != nil {
			post = " " + r.simple(n.A[2])
		}
		r.w("for (" + pre + ";" + cond + ";" + post + ") ")
		r.body(n.Body, true)
	case ForIn:
		r.w("for (" + n.Name + " in " + n.Name2 + ") ")
		r.body(n.Body, true)
	case While:
		r.w("while (" + r.Expr(n.A[0]) + ") ")
		r.body(n.Body, true)
	case DoWhile:
		r.w("do ")
		r.body(n.Body, false)
		r.w(" while (" + r.Expr(n.A[0]) + ")")
	case Block:
		r.body(n.Body, false)
	default:
		r.w(r.simple(n))
		if r.Mode == Noisy && r.rnd(4) == 1 {
			r.w(";")
		}
	}
}

// Program renders a whole program; statement nodes receive their Line/Col.
func (r *Renderer) Program(p *Program) string {
	item := func() {
		if r.sb.Len() > 0 {
			r.w("\n")
		}
	}
	for _, b := range p.Begin {
		item()
		r.w("BEGIN ")
		r.body(b, false)
	}
	for _, a := range p.Actions {
		item()
		pats := make([]string, len(a.Pattern))
		for i, e := range a.Pattern {
			pats[i] = r.Expr(e)
		}
		r.w(strings.Join(pats, ", "))
		if !a.NoBody {
			if len(pats) > 0 {
				r.w(" ")
			}
			r.body(a.Body, false)
		}
	}
	for _, b := range p.End {
		item()
		r.w("END ")
		r.body(b, false)
	}
	for _, f := range p.Funcs {
		item()
		r.w("function " + f.Name + "(" + strings.Join(f.Params, ", ") + ") ")
		r.body(f.Body, false)
	}
	r.w("\n")
	return r.sb.String()
}

// RenderProgram is a convenience wrapper.
func RenderProgram(p *Program, m Mode) string { return NewRenderer(m).Program(p) }

// RenderExpr is a convenience wrapper.
func RenderExpr(n *Node, m Mode) string { return NewRenderer(m).Expr(n) }
