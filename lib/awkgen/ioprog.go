package awkgen

import (
	"fmt"

	"pgregory.net/rapid"

	"verif/lib/awk"
)

// The *io* profile: programs about input bookkeeping.  Rules trace NR, FNR,
// FILENAME, NF and $0; range patterns; the getline forms at any nesting;
// next / nextfile / exit at any nesting including inside functions; ARGV/ARGC
// edits in BEGIN; operand lists with files, "-", "", var=value and a missing
// file.

type IOGen struct {
	t    *rapid.T
	ctr  int
	Feat map[string]int
}

func NewIOGen(t *rapid.T) *IOGen { return &IOGen{t: t, Feat: map[string]int{}} }

func (g *IOGen) n(lo, hi int, label string) int { return rapid.IntRange(lo, hi).Draw(g.t, label) }
func (g *IOGen) pick(l []string, label string) string {
	return rapid.SampledFrom(l).Draw(g.t, label)
}

func trace(tag string) *awk.Node {
	return awk.PrintN([]*awk.Node{awk.StrN(tag), awk.VarN("NR"), awk.VarN("FNR"), awk.VarN("FILENAME"), awk.VarN("NF"), awk.FieldN(awk.NumN(0)), awk.VarN("v"), awk.VarN("w")}, "", nil)
}

var ioFiles = []string{"r0", "r1", "r2"}

func (g *IOGen) file() *awk.Node {
	name := g.pick(append(ioFiles, "nofile"), "file")
	if g.n(0, 3, "computed") == 0 {
		return awk.GroupN(awk.BinN(awk.StrN(name[:1]), " ", awk.StrN(name[1:])))
	}
	return awk.StrN(name)
}

// getlineForm draws one of the four redirect-free/file getline forms, wrapped so that its result is traced.
func (g *IOGen) getlineStmt(tag string) []*awk.Node {
	g.Feat["getline"]++
	var target, file *awk.Node
	switch g.n(0, 3, "gform") {
	case 0: // getline
	case 1: // getline var
		target = awk.VarN("line")
	case 2: // getline < file
		file = g.file()
	default: // getline var < file
		target = awk.VarN("line")
		file = g.file()
	}
	gl := awk.GetlineN(nil, target, file)
	return []*awk.Node{
		awk.ExprS(awk.AssignN(awk.VarN("r"), "=", awk.GroupN(gl))),
		awk.PrintN([]*awk.Node{awk.StrN(tag + "-getline"), awk.VarN("r"), awk.VarN("line"), awk.VarN("NR"), awk.VarN("FNR"), awk.VarN("NF"), awk.FieldN(awk.NumN(0))}, "", nil),
	}
}

func (g *IOGen) getlineLoop(tag string) []*awk.Node {
	g.Feat["getline-loop"]++
	g.ctr++
	c := fmt.Sprintf("_n%d", g.ctr)
	var target, file *awk.Node
	if g.n(0, 1, "lt") == 0 {
		target = awk.VarN("line")
	}
	if g.n(0, 2, "lf") > 0 {
		file = g.file()
	}
	cond := awk.BinN(awk.BinN(awk.GroupN(awk.GetlineN(nil, target, file)), ">", awk.NumN(0)), "&&", awk.BinN(awk.IncrN("++", false, awk.VarN(c)), "<", awk.NumN(float64(g.n(1, 4, "maxreads")))))
	body := []*awk.Node{awk.PrintN([]*awk.Node{awk.StrN(tag + "-loop"), awk.VarN("line"), awk.VarN("NR"), awk.VarN("FNR"), awk.FieldN(awk.NumN(0))}, "", nil)}
	out := []*awk.Node{awk.ExprS(awk.AssignN(awk.VarN(c), "=", awk.NumN(0))), awk.WhileN(cond, body)}
	if file != nil && g.n(0, 1, "close") == 0 {
		out = append(out, awk.ExprS(awk.CallN("close", awk.Clone(file))))
	}
	return out
}

// cond draws a condition over the bookkeeping variables.
func (g *IOGen) cond() *awk.Node {
	switch g.n(0, 7, "ck") {
	case 0:
		return awk.BinN(awk.VarN("NR"), g.pick([]string{"==", ">=", "<", "%"}, "nrop"), awk.NumN(float64(g.n(1, 4, "nrv"))))
	case 1:
		return awk.BinN(awk.VarN("FNR"), "==", awk.NumN(float64(g.n(1, 3, "fnrv"))))
	case 2:
		return awk.RegexN(g.pick([]string{"a", "b", "^x", "1", "z$"}, "cre"))
	case 3:
		return awk.BinN(awk.FieldN(awk.NumN(1)), "==", awk.StrN(g.pick([]string{"a", "b", "x", "10"}, "cf")))
	case 4:
		return awk.VarN(g.pick([]string{"v", "w", "flag"}, "cv"))
	case 5:
		return awk.BinN(awk.VarN("FILENAME"), "==", awk.StrN(g.pick(ioFiles, "cfile")))
	case 6:
		return awk.BinN(awk.VarN("NF"), ">", awk.NumN(float64(g.n(0, 2, "cnf"))))
	default:
		return awk.UnaryN("!", awk.VarN("flag"))
	}
}

// patCond draws a rule pattern; one in four calls a helper function first, so that next / nextfile /
// exit / getline can happen inside a function called from a pattern (also the patterns of a range).
func (g *IOGen) patCond() *awk.Node {
	if g.n(0, 3, "patcall") == 0 {
		g.Feat["call-from-pattern"]++
		return awk.BinN(awk.UserCallN(g.pick([]string{"t0", "t1"}, "pcallee"), awk.StrN("P")), "||", g.cond())
	}
	return g.cond()
}

// action draws statements for a rule or function body. inRule: next/nextfile allowed.
func (g *IOGen) action(tag string, depth int, inRule bool, allowCalls bool) []*awk.Node {
	var out []*awk.Node
	for j := g.n(0, 3, "nact"); j > 0; j-- {
		switch k := g.n(0, 14, "ak"); {
		case k < 2:
			out = append(out, trace(tag))
		case k < 4:
			out = append(out, g.getlineStmt(tag)...)
		case k < 5:
			out = append(out, g.getlineLoop(tag)...)
		case k < 6 && inRule:
			g.Feat["next"]++
			out = append(out, awk.IfN(g.cond(), []*awk.Node{awk.Simple(awk.Next)}, nil, false))
		case k < 7 && inRule:
			g.Feat["nextfile"]++
			out = append(out, awk.IfN(g.cond(), []*awk.Node{awk.Simple(awk.Nextfile)}, nil, false))
		case k < 8:
			g.Feat["exit"]++
			var e *awk.Node
			if g.n(0, 1, "ev") == 0 {
				e = awk.NumN(float64(g.n(0, 4, "status")))
			}
			out = append(out, awk.IfN(g.cond(), []*awk.Node{awk.ExitN(e)}, nil, false))
		case k < 9:
			out = append(out, awk.ExprS(awk.AssignN(awk.VarN("flag"), "=", awk.UnaryN("!", awk.VarN("flag")))))
		case k < 10 && depth > 0:
			g.ctr++
			c := fmt.Sprintf("_n%d", g.ctr)
			body := g.action(tag+"L", depth-1, inRule, allowCalls)
			out = append(out, awk.ForN(awk.ExprS(awk.AssignN(awk.VarN(c), "=", awk.NumN(0))), awk.BinN(awk.VarN(c), "<", awk.NumN(float64(g.n(1, 3, "trip")))), awk.ExprS(awk.IncrN("++", false, awk.VarN(c))), body))
		case k < 11 && depth > 0:
			out = append(out, awk.IfN(g.cond(), g.action(tag+"I", depth-1, inRule, allowCalls), g.action(tag+"E", depth-1, inRule, allowCalls), true))
		case k < 12 && allowCalls && inRule:
			g.Feat["call-from-rule"]++
			out = append(out, awk.ExprS(awk.UserCallN(g.pick([]string{"t0", "t1"}, "callee"), awk.StrN(tag))))
		case k < 13 && depth > 0:
			// for-in loop with control flow leaving it
			out = append(out, awk.ExprS(awk.AssignN(awk.IndexN("seen", awk.VarN("NR")), "=", awk.NumN(1))))
			inner := []*awk.Node{awk.ExprS(awk.IncrN("++", false, awk.VarN("cnt")))}
			if inRule && g.n(0, 1, "finext") == 0 {
				g.Feat["next-in-for-in"]++
				inner = append(inner, awk.IfN(g.cond(), []*awk.Node{awk.Simple(awk.Next)}, nil, false))
			}
			inner = append(inner, awk.Simple(awk.Break))
			out = append(out, awk.ForInN("k", "seen", inner))
		case k < 14:
			// the operand list edited while the input is being read (after a getline in BEGIN, in a rule, in END):
			// operands not yet reached are taken from ARGV/ARGC as they are when they are reached
			g.Feat["argv-edit-late"]++
			out = append(out, g.argvEdit())
		default:
			out = append(out, awk.ExprS(awk.AssignN(awk.VarN("w"), "=", awk.BinN(awk.VarN("w"), " ", awk.StrN(".")))))
		}
	}
	return out
}

func (g *IOGen) argvEdit() *awk.Node {
	switch g.n(0, 4, "ledit") {
	case 0:
		return awk.ExprS(awk.AssignN(awk.IndexN("ARGV", awk.NumN(float64(g.n(1, 4, "lai")))), "=", awk.StrN(g.pick([]string{"r0", "r1", "r2", "", "-", "v=late", "nofile", "flag=1"}, "lav"))))
	case 1:
		return awk.DeleteN("ARGV", awk.NumN(float64(g.n(1, 4, "ldi"))))
	case 2:
		return awk.ExprS(awk.AssignN(awk.IndexN("ARGV", awk.IncrN("++", false, awk.VarN("ARGC"))), "=", awk.StrN(g.pick(append(ioFiles, "v=appended"), "lappendf"))))
	case 3:
		return awk.ExprS(awk.AssignN(awk.VarN("ARGC"), "=", awk.NumN(float64(g.n(1, 5, "largc")))))
	default:
		return awk.PrintN([]*awk.Node{awk.StrN("ARGC"), awk.VarN("ARGC"), awk.IndexN("ARGV", awk.NumN(1)), awk.IndexN("ARGV", awk.NumN(2)), awk.VarN("v")}, "", nil)
	}
}

// Program draws an io-profile program.
func (g *IOGen) Program() *awk.Program {
	p := &awk.Program{}
	// BEGIN: ARGV/ARGC edits, getlines
	if g.n(0, 2, "begin") > 0 {
		var b []*awk.Node
		for j := g.n(0, 3, "nedit"); j > 0; j-- {
			g.Feat["argv-edit"]++
			switch g.n(0, 5, "edit") {
			case 0:
				b = append(b, awk.ExprS(awk.AssignN(awk.IndexN("ARGV", awk.NumN(float64(g.n(1, 3, "ai")))), "=", awk.StrN(g.pick([]string{"r0", "r1", "r2", "", "-", "v=fromargv", "nofile"}, "av")))))
			case 1:
				b = append(b, awk.DeleteN("ARGV", awk.NumN(float64(g.n(1, 3, "di")))))
			case 2:
				b = append(b, awk.ExprS(awk.AssignN(awk.IndexN("ARGV", awk.IncrN("++", false, awk.VarN("ARGC"))), "=", awk.StrN(g.pick(ioFiles, "appendf")))))
			case 3:
				b = append(b, awk.ExprS(awk.AssignN(awk.VarN("ARGC"), "=", awk.NumN(float64(g.n(1, 4, "argc"))))))
			default:
				b = append(b, awk.PrintN([]*awk.Node{awk.StrN("ARGC"), awk.VarN("ARGC"), awk.IndexN("ARGV", awk.NumN(1)), awk.IndexN("ARGV", awk.NumN(2))}, "", nil))
			}
		}
		b = append(b, g.action("B", 1, false, false)...)
		b = append(b, trace("BEGIN"))
		p.Begin = append(p.Begin, b)
	}
	nrules := g.n(0, 4, "nrules")
	for i := 0; i < nrules; i++ {
		a := &awk.Action{}
		tag := fmt.Sprintf("R%d", i)
		switch g.n(0, 6, "pat") {
		case 0, 1:
		case 2, 3:
			a.Pattern = []*awk.Node{g.patCond()}
		default:
			g.Feat["range"]++
			a.Pattern = []*awk.Node{g.patCond(), g.patCond()}
		}
		if len(a.Pattern) > 0 && g.n(0, 5, "nobody") == 0 {
			a.NoBody = true
		} else {
			a.Body = append([]*awk.Node{trace(tag)}, g.action(tag, 2, true, true)...)
		}
		p.Actions = append(p.Actions, a)
	}
	if g.n(0, 3, "end") > 0 || (len(p.Begin) == 0 && nrules == 0) {
		e := []*awk.Node{trace("END")}
		e = append(e, g.action("E", 1, false, false)...)
		e = append(e, awk.PrintN([]*awk.Node{awk.StrN("END2"), awk.VarN("NR"), awk.VarN("NF"), awk.FieldN(awk.NumN(0)), awk.VarN("cnt")}, "", nil))
		p.End = append(p.End, e)
	}
	// helper functions called from rules: they may next/nextfile/exit/getline from inside a function (and a loop)
	t0 := &awk.Func{Name: "t0", Params: []string{"tag"}, Body: g.action("F0", 1, true, false)}
	t1body := []*awk.Node{awk.PrintN([]*awk.Node{awk.StrN("in-t1"), awk.VarN("tag"), awk.VarN("NR")}, "", nil)}
	g.ctr++
	c := fmt.Sprintf("_n%d", g.ctr)
	loopBody := g.action("F1", 1, true, false)
	t1body = append(t1body, awk.ForN(awk.ExprS(awk.AssignN(awk.VarN(c), "=", awk.NumN(0))), awk.BinN(awk.VarN(c), "<", awk.NumN(2)), awk.ExprS(awk.IncrN("++", false, awk.VarN(c))), loopBody))
	t1 := &awk.Func{Name: "t1", Params: []string{"tag"}, Body: t1body}
	p.Funcs = []*awk.Func{t0, t1}
	return p
}

// Operands draws an operand list.
func Operands(t *rapid.T) []string {
	n := rapid.IntRange(0, 5).Draw(t, "nopd")
	var out []string
	for i := 0; i < n; i++ {
		out = append(out, rapid.SampledFrom([]string{"r0", "r1", "r2", "r0", "r1", "-", "", "v=1", "v=two", "w=x", "flag=1", "FS=,", "nofile", "v=a\\tb", "v=l1\nl2", "w=\n", "v=a=b\n=c", "v= x ", "flag=1\n"}).Draw(t, "opd"))
	}
	return out
}

// IOFile draws the content of an input file: 0-4 lines, last line with or without newline.
func IOFile(t *rapid.T) string {
	words := []string{"a", "b", "x", "10", "a,b", "z", "1", "ab"}
	s := ""
	n := rapid.IntRange(0, 4).Draw(t, "flines")
	for l := 0; l < n; l++ {
		for f := rapid.IntRange(0, 3).Draw(t, "fnf"); f > 0; f-- {
			if len(s) > 0 && s[len(s)-1] != '\n' {
				s += " "
			}
			s += rapid.SampledFrom(words).Draw(t, "fw")
		}
		if l < n-1 || rapid.IntRange(0, 3).Draw(t, "lastnl") > 0 {
			s += "\n"
		}
	}
	return s
}
