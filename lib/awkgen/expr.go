// Package awkgen holds the rapid generators for AWK trees (package awk).
package awkgen

import (
	"pgregory.net/rapid"

	"verif/lib/awk"
)

// OpSpec describes one operator of the POSIX table for enumeration purposes.
type OpSpec struct {
	Name   string // unique name
	Kind   string // awk node kind
	Op     string
	Pre    bool
	Slots  int    // number of operand slots
	LSlots []bool // which slots need an lvalue
}

// Ops is the full operator set of the precedence table.
var Ops = func() []OpSpec {
	var ops []OpSpec
	for _, o := range []string{"=", "+=", "-=", "*=", "/=", "%=", "^="} {
		ops = append(ops, OpSpec{Name: "assign" + o, Kind: awk.Assign, Op: o, Slots: 2, LSlots: []bool{true, false}})
	}
	ops = append(ops, OpSpec{Name: "cond", Kind: awk.Cond, Slots: 3, LSlots: []bool{false, false, false}})
	for _, o := range []string{"||", "&&", "~", "!~", "<", "<=", "!=", "==", ">", ">=", " ", "+", "-", "*", "/", "%", "^"} {
		ops = append(ops, OpSpec{Name: "bin" + o, Kind: awk.Binary, Op: o, Slots: 2, LSlots: []bool{false, false}})
	}
	ops = append(ops, OpSpec{Name: "in", Kind: awk.In, Slots: 1, LSlots: []bool{false}})
	ops = append(ops, OpSpec{Name: "in2", Kind: awk.In, Slots: 2, LSlots: []bool{false, false}})
	for _, o := range []string{"+", "-", "!"} {
		ops = append(ops, OpSpec{Name: "unary" + o, Kind: awk.Unary, Op: o, Slots: 1, LSlots: []bool{false}})
	}
	for _, o := range []string{"++", "--"} {
		ops = append(ops, OpSpec{Name: "pre" + o, Kind: awk.Incr, Op: o, Pre: true, Slots: 1, LSlots: []bool{true}})
		ops = append(ops, OpSpec{Name: "post" + o, Kind: awk.Incr, Op: o, Slots: 1, LSlots: []bool{true}})
	}
	ops = append(ops, OpSpec{Name: "field", Kind: awk.Field, Slots: 1, LSlots: []bool{false}})
	return ops
}()

// Build makes a node of operator o over the given operands.
func (o OpSpec) Build(kids ...*awk.Node) *awk.Node {
	switch o.Kind {
	case awk.In:
		return &awk.Node{K: awk.In, Name: "arr", A: kids}
	case awk.Incr:
		return &awk.Node{K: awk.Incr, Op: o.Op, Pre: o.Pre, A: kids}
	}
	return &awk.Node{K: o.Kind, Op: o.Op, A: kids}
}

// ProducesLValue reports whether a node of this operator can stand in an lvalue slot.
func (o OpSpec) ProducesLValue() bool { return o.Kind == awk.Field }

// Leaf pools.  Names are chosen so that scalar/array use is consistent:
// x y z w are scalars, a is an array indexed everywhere, arr is the array of
// "in", f is a user function (callers append FuncF to the program text).
const FuncF = "function f(p) { return p }\n"

func LeafPool() []*awk.Node {
	return []*awk.Node{
		awk.VarN("x"), awk.NumN(1), awk.StrN("s"), awk.IndexN("a", awk.VarN("i")), awk.RegexN("re"),
		awk.UserCallN("f", awk.VarN("y")), awk.CallN("length", awk.VarN("z")), awk.NumN(2.5), awk.VarN("NF"),
		awk.FieldN(awk.NumN(1)), awk.IndexN("a", awk.NumN(1), awk.StrN("k")),
	}
}

func LValuePool() []*awk.Node {
	return []*awk.Node{awk.VarN("x"), awk.IndexN("a", awk.VarN("i")), awk.FieldN(awk.NumN(2)), awk.VarN("NF"), awk.FieldN(awk.VarN("y"))}
}

// Leaf returns the k-th leaf for a slot (rotating through the pool).
func Leaf(k int, lvalue bool) *awk.Node {
	if lvalue {
		p := LValuePool()
		return awk.Clone(p[k%len(p)])
	}
	p := LeafPool()
	return awk.Clone(p[k%len(p)])
}

// ExprTree draws a random expression tree of at most the given depth.
// When lvalue is set the result is an lvalue (variable, element or field).
func ExprTree(t *rapid.T, depth int, lvalue bool) *awk.Node {
	if lvalue {
		switch rapid.IntRange(0, 5).Draw(t, "lv") {
		case 0, 1:
			return awk.VarN(rapid.SampledFrom([]string{"x", "y", "z", "NF", "w"}).Draw(t, "v"))
		case 2:
			if depth > 0 {
				return awk.IndexN("a", ExprTree(t, depth-1, false))
			}
			return awk.IndexN("a", awk.VarN("i"))
		case 3:
			if depth > 0 {
				return awk.IndexN("a", ExprTree(t, depth-1, false), ExprTree(t, depth-1, false))
			}
			return awk.IndexN("a", awk.NumN(1))
		default:
			if depth > 0 {
				return awk.FieldN(ExprTree(t, depth-1, false))
			}
			return awk.FieldN(awk.NumN(1))
		}
	}
	if depth <= 0 || rapid.IntRange(0, 9).Draw(t, "leaf") < 2 {
		return Leaf(rapid.IntRange(0, 40).Draw(t, "leafk"), false)
	}
	o := Ops[rapid.IntRange(0, len(Ops)-1).Draw(t, "op")]
	kids := make([]*awk.Node, o.Slots)
	for i := range kids {
		kids[i] = ExprTree(t, depth-1, o.LSlots[i])
	}
	n := o.Build(kids...)
	if !ValidTree(n) {
		// post-increment directly on $$...: replace the operand by a plain field
		n.A[0] = awk.FieldN(awk.NumN(3))
	}
	return n
}

// ValidTree rejects the one shape goawk documents as a deliberate deviation:
// a post-increment applied to a field whose index is itself a field ($$x++
// is read as $($x++)).
func ValidTree(n *awk.Node) bool {
	ok := true
	awk.Walk(n, func(m *awk.Node) {
		if m.K == awk.Incr && !m.Pre && m.A[0].K == awk.Field && endsInField(m.A[0].A[0]) {
			ok = false
		}
	})
	return ok
}

// endsInField: the rendering of n (as the operand of $) ends with a field
// expression that a following ++ would attach to.
func endsInField(n *awk.Node) bool {
	return n.K == awk.Field
}
