package awkgen

import (
	"fmt"
	"sort"
	"strings"

	"pgregory.net/rapid"
)

// The *types* profile: programs whose only interesting content is which
// variable is used how (scalar / array / passed along), over arbitrary call
// graphs.  The program is a small model (TProg) that can be rendered to AWK
// text under any naming and item order, type-checked by an independent
// union-find inference (Infer), and executed by an independent interpreter of
// the model (Eval).

type TVar struct {
	Func int `json:"f"` // >= 0: parameter of that function; -1: global; -2: special (0 NF scalar, 1 ARGV array, 2 ENVIRON array)
	Idx  int `json:"i"`
}

type TArg struct {
	Kind string `json:"k"` // var | group | expr | elem | const
	V    TVar   `json:"v"`
}

type TStmt struct {
	Kind   string `json:"k"` // sread sassign index in forin delete1 deleteall split length call
	V      TVar   `json:"v"`
	Site   int    `json:"s"`           // unique site number (keys, values)
	Site2  int    `json:"s2"`          // key looked up / deleted
	Callee int    `json:"c,omitempty"` // for call
	Args   []TArg `json:"a,omitempty"`
}

type TFunc struct {
	NParams int     `json:"np"`
	Body    []TStmt `json:"body"`
}

type TProg struct {
	Funcs    []TFunc `json:"funcs"`
	NGlobals int     `json:"ng"`
	Begin    []TStmt `json:"begin"`
}

// ---------------------------------------------------------------------------
// generator

var useKinds = []string{"sread", "sassign", "index", "in", "forin", "delete1", "deleteall", "split", "length"}
var scalarUses = []string{"sread", "sassign", "length"}
var arrayUses = []string{"index", "in", "forin", "delete1", "deleteall", "split", "length", "index"}

// GenTProg draws a program.  With conflict=false every variable is given an
// intended type first and only compatible uses are drawn (consistent by
// construction as far as direct uses go; calls may still create conflicts,
// which is fine: the model decides).  With conflict=true uses are drawn freely.
func GenTProg(t *rapid.T) *TProg {
	nf := rapid.IntRange(1, 6).Draw(t, "nfuncs")
	p := &TProg{NGlobals: rapid.IntRange(0, 3).Draw(t, "nglobals")}
	for i := 0; i < nf; i++ {
		p.Funcs = append(p.Funcs, TFunc{NParams: rapid.IntRange(0, 4).Draw(t, "nparams")})
	}
	free := rapid.IntRange(0, 9).Draw(t, "free") < 2
	// intended types: 0 scalar, 1 array, 2 untouched
	intent := map[TVar]int{}
	vars := func(scope int) []TVar {
		var vs []TVar
		if scope >= 0 {
			for i := 0; i < p.Funcs[scope].NParams; i++ {
				vs = append(vs, TVar{scope, i})
			}
		}
		for g := 0; g < p.NGlobals; g++ {
			vs = append(vs, TVar{-1, g})
		}
		vs = append(vs, TVar{-2, 0}, TVar{-2, 1}, TVar{-2, 2})
		return vs
	}
	intentOf := func(v TVar) int {
		if v.Func == -2 {
			if v.Idx == 0 {
				return 0
			}
			return 1
		}
		if it, ok := intent[v]; ok {
			return it
		}
		it := rapid.IntRange(0, 2).Draw(t, "intent")
		intent[v] = it
		return it
	}
	site := 0
	shape := rapid.SampledFrom([]string{"any", "chain", "cycle", "diamond", "self"}).Draw(t, "shape")
	pickCallee := func(scope int) int {
		switch shape {
		case "chain":
			if scope+1 < nf {
				return scope + 1
			}
			return nf - 1
		case "cycle":
			return (scope + 1 + nf) % nf
		case "self":
			if scope >= 0 && rapid.Bool().Draw(t, "selfcall") {
				return scope
			}
		case "diamond":
			if scope < 0 {
				return rapid.IntRange(0, min(1, nf-1)).Draw(t, "dtop")
			}
			return nf - 1
		}
		return rapid.IntRange(0, nf-1).Draw(t, "callee")
	}
	genBody := func(scope int) []TStmt {
		n := rapid.IntRange(0, 5).Draw(t, "nstmts")
		vs := vars(scope)
		var body []TStmt
		for j := 0; j < n; j++ {
			site++
			if rapid.IntRange(0, 9).Draw(t, "iscall") < 4 {
				callee := pickCallee(scope)
				np := p.Funcs[callee].NParams
				nargs := np
				if np > 0 && rapid.IntRange(0, 3).Draw(t, "fewer") == 0 {
					nargs = rapid.IntRange(0, np).Draw(t, "nargs")
				}
				st := TStmt{Kind: "call", Callee: callee, Site: site}
				for a := 0; a < nargs; a++ {
					v := vs[rapid.IntRange(0, len(vs)-1).Draw(t, "argv")]
					if !free {
						// mostly pass variables whose intended type matches the parameter's
						want := intentOf(TVar{callee, a})
						for try := 0; try < 4 && intentOf(v) != want && intentOf(v) != 2 && want != 2; try++ {
							v = vs[rapid.IntRange(0, len(vs)-1).Draw(t, "argv2")]
						}
					}
					k := rapid.IntRange(0, 11).Draw(t, "argk")
					switch {
					case k < 8:
						st.Args = append(st.Args, TArg{"var", v})
					case k < 9 && (free || intentOf(v) != 1):
						st.Args = append(st.Args, TArg{"group", v})
					case k < 10 && (free || intentOf(v) != 1):
						st.Args = append(st.Args, TArg{"expr", v})
					case k < 11 && (free || intentOf(v) != 0):
						st.Args = append(st.Args, TArg{"elem", v})
					default:
						st.Args = append(st.Args, TArg{"const", TVar{}})
					}
				}
				body = append(body, st)
				continue
			}
			v := vs[rapid.IntRange(0, len(vs)-1).Draw(t, "usev")]
			var kind string
			switch {
			case free:
				kind = rapid.SampledFrom(useKinds).Draw(t, "kind")
			case intentOf(v) == 0:
				kind = rapid.SampledFrom(scalarUses).Draw(t, "skind")
			case intentOf(v) == 1:
				kind = rapid.SampledFrom(arrayUses).Draw(t, "akind")
			default:
				kind = "length"
			}
			if v.Func == -2 && (kind == "sassign" || kind == "split" || kind == "deleteall" || kind == "delete1" || kind == "index") {
				kind = "length" // do not modify NF, ARGV, ENVIRON
			}
			body = append(body, TStmt{Kind: kind, V: v, Site: site, Site2: rapid.IntRange(1, site).Draw(t, "site2")})
		}
		return body
	}
	for i := range p.Funcs {
		p.Funcs[i].Body = genBody(i)
	}
	p.Begin = genBody(-1)
	// optionally inject one conflicting use somewhere
	if rapid.IntRange(0, 9).Draw(t, "inject") < 2 {
		scope := rapid.IntRange(-1, nf-1).Draw(t, "iscope")
		vs := vars(scope)
		v := vs[rapid.IntRange(0, len(vs)-1).Draw(t, "iv")]
		if v.Func != -2 {
			site++
			st := TStmt{Kind: rapid.SampledFrom([]string{"sread", "index", "forin", "sassign", "split"}).Draw(t, "ikind"), V: v, Site: site, Site2: 1}
			if scope < 0 {
				p.Begin = append(p.Begin, st)
			} else {
				p.Funcs[scope].Body = append(p.Funcs[scope].Body, st)
			}
		}
	}
	return p
}

func min(a, b int) int {
	if a < b {
		return a
	}
	return b
}

// ---------------------------------------------------------------------------
// independent inference (union-find)

const (
	TUnknown = 0
	TScalar  = 1
	TArray   = 2
)

type Inference struct {
	parent map[TVar]TVar
	typ    map[TVar]int // at roots
	// Conflict is set when some class must be both scalar and array.
	Conflict bool
	// Direct is true when the conflict arose between two direct uses (no call edge involved).
	ViaCall bool
	edges   int
}

func (in *Inference) find(v TVar) TVar {
	p, ok := in.parent[v]
	if !ok || p == v {
		in.parent[v] = v
		return v
	}
	r := in.find(p)
	in.parent[v] = r
	return r
}

func (in *Inference) constrain(v TVar, t int, viaCall bool) {
	r := in.find(v)
	if in.typ[r] != TUnknown && in.typ[r] != t {
		in.Conflict = true
		if viaCall || in.edges > 0 {
			in.ViaCall = true
		}
		return
	}
	in.typ[r] = t
}

func (in *Inference) union(a, b TVar) {
	ra, rb := in.find(a), in.find(b)
	if ra == rb {
		return
	}
	in.edges++
	ta, tb := in.typ[ra], in.typ[rb]
	if ta != TUnknown && tb != TUnknown && ta != tb {
		in.Conflict = true
		in.ViaCall = true
	}
	in.parent[ra] = rb
	if tb == TUnknown {
		in.typ[rb] = ta
	}
}

// TypeOf returns the inferred type of v (TUnknown means unconstrained, which AWK treats as scalar).
func (in *Inference) TypeOf(v TVar) int { return in.typ[in.find(v)] }

func Infer(p *TProg) *Inference {
	in := &Inference{parent: map[TVar]TVar{}, typ: map[TVar]int{}}
	in.constrain(TVar{-2, 0}, TScalar, false)
	in.constrain(TVar{-2, 1}, TArray, false)
	in.constrain(TVar{-2, 2}, TArray, false)
	doBody := func(body []TStmt) {
		for _, st := range body {
			switch st.Kind {
			case "sread", "sassign":
				in.constrain(st.V, TScalar, false)
			case "index", "in", "forin", "delete1", "deleteall", "split":
				in.constrain(st.V, TArray, false)
			case "length":
			case "call":
				for i, a := range st.Args {
					param := TVar{st.Callee, i}
					switch a.Kind {
					case "var":
						in.union(a.V, param)
					case "group", "expr":
						in.constrain(a.V, TScalar, false)
						in.constrain(param, TScalar, true)
					case "elem":
						in.constrain(a.V, TArray, false)
						in.constrain(param, TScalar, true)
					case "const":
						in.constrain(param, TScalar, true)
					}
				}
			}
		}
	}
	for _, f := range p.Funcs {
		doBody(f.Body)
	}
	doBody(p.Begin)
	return in
}

// ---------------------------------------------------------------------------
// rendering

type Naming struct {
	Func   []string
	Param  [][]string
	Global []string
	Order  []int // order of top-level items: 0..nf-1 functions, nf = BEGIN block
}

func DefaultNaming(p *TProg) *Naming {
	n := &Naming{}
	for i, f := range p.Funcs {
		n.Func = append(n.Func, fmt.Sprintf("f%d", i))
		var ps []string
		for j := 0; j < f.NParams; j++ {
			ps = append(ps, fmt.Sprintf("p%d", j))
		}
		n.Param = append(n.Param, ps)
		n.Order = append(n.Order, i)
	}
	n.Order = append(n.Order, len(p.Funcs))
	for g := 0; g < p.NGlobals; g++ {
		n.Global = append(n.Global, fmt.Sprintf("g%d", g))
	}
	return n
}

func (n *Naming) name(v TVar) string {
	switch v.Func {
	case -1:
		return n.Global[v.Idx]
	case -2:
		return []string{"NF", "ARGV", "ENVIRON"}[v.Idx]
	}
	return n.Param[v.Func][v.Idx]
}

func key(site int) string { return fmt.Sprintf("\"u%d\"", site) }

func (n *Naming) stmt(st TStmt) string {
	v := ""
	if st.Kind != "call" {
		v = n.name(st.V)
	}
	switch st.Kind {
	case "sread":
		return fmt.Sprintf("sink_ = sink_ %s \".\"", v)
	case "sassign":
		return fmt.Sprintf("%s = \"%s\"", v, strings.Repeat("x", st.Site%5+1))
	case "index":
		return fmt.Sprintf("%s[%s] = 1", v, key(st.Site))
	case "in":
		return fmt.Sprintf("if (%s in %s) sink_ = sink_ \"i\"", key(st.Site2), v)
	case "forin":
		return fmt.Sprintf("n_ = 0; for (k_ in %s) n_++; sink_ = sink_ n_", v)
	case "delete1":
		return fmt.Sprintf("delete %s[%s]", v, key(st.Site2))
	case "deleteall":
		return fmt.Sprintf("delete %s", v)
	case "split":
		return fmt.Sprintf("split(\"a b c\", %s)", v)
	case "length":
		return fmt.Sprintf("sink_ = sink_ length(%s)", v)
	case "call":
		var args []string
		for _, a := range st.Args {
			switch a.Kind {
			case "var":
				args = append(args, n.name(a.V))
			case "group":
				args = append(args, "("+n.name(a.V)+")")
			case "expr":
				args = append(args, n.name(a.V)+" \"\"")
			case "elem":
				args = append(args, n.name(a.V)+"["+key(st.Site)+"]")
			case "const":
				args = append(args, "1")
			}
		}
		return fmt.Sprintf("if (d_ < 3) { d_++; %s(%s); d_-- }", n.Func[st.Callee], strings.Join(args, ", "))
	}
	panic("bad stmt kind " + st.Kind)
}

// Render renders the program under the naming/order.
func (n *Naming) Render(p *TProg) string {
	var sb strings.Builder
	for _, item := range n.Order {
		if item < len(p.Funcs) {
			f := p.Funcs[item]
			fmt.Fprintf(&sb, "function %s(%s) {\n", n.Func[item], strings.Join(n.Param[item], ", "))
			tr := []string{fmt.Sprintf("\"F%d\"", item)}
			for j := 0; j < f.NParams; j++ {
				tr = append(tr, "length("+n.Param[item][j]+")")
			}
			fmt.Fprintf(&sb, "  print %s\n", strings.Join(tr, ", "))
			for _, st := range f.Body {
				fmt.Fprintf(&sb, "  %s\n", n.stmt(st))
			}
			sb.WriteString("}\n")
		} else {
			sb.WriteString("BEGIN {\n")
			for _, st := range p.Begin {
				fmt.Fprintf(&sb, "  %s\n", n.stmt(st))
			}
			tr := []string{"\"G\""}
			for g := 0; g < p.NGlobals; g++ {
				tr = append(tr, "length("+n.Global[g]+")")
			}
			fmt.Fprintf(&sb, "  print %s, \"S\", sink_\n}\n", strings.Join(tr, ", "))
		}
	}
	return sb.String()
}

// ---------------------------------------------------------------------------
// independent evaluation of the model

type tval struct {
	arr map[string]string // non-nil: array
	s   string
}

type tEval struct {
	p      *TProg
	in     *Inference
	glob   map[int]*tval
	sink   strings.Builder
	out    strings.Builder
	d      int
	argv   *tval
	env    *tval
	nf     *tval
	budget int
}

// Eval runs the model program and returns its expected standard output.  ok
// is false when the step budget is exhausted.
func Eval(p *TProg, in *Inference, argv0 string, environ map[string]string) (string, bool) {
	e := &tEval{p: p, in: in, glob: map[int]*tval{}, budget: 200000}
	e.argv = &tval{arr: map[string]string{"0": argv0}}
	e.env = &tval{arr: map[string]string{}}
	for k, v := range environ {
		e.env.arr[k] = v
	}
	e.nf = &tval{s: "0"}
	for g := 0; g < p.NGlobals; g++ {
		if in.TypeOf(TVar{-1, g}) == TArray {
			e.glob[g] = &tval{arr: map[string]string{}}
		} else {
			e.glob[g] = &tval{}
		}
	}
	e.body(p.Begin, nil)
	tr := []string{"G"}
	for g := 0; g < p.NGlobals; g++ {
		tr = append(tr, lengthOf(e.glob[g]))
	}
	tr = append(tr, "S", e.sink.String())
	e.out.WriteString(strings.Join(tr, " ") + "\n")
	return e.out.String(), e.budget > 0
}

func lengthOf(v *tval) string {
	if v.arr != nil {
		return fmt.Sprint(len(v.arr))
	}
	return fmt.Sprint(len(v.s))
}

func (e *tEval) lookup(v TVar, frame []*tval) *tval {
	switch v.Func {
	case -1:
		return e.glob[v.Idx]
	case -2:
		return []*tval{e.nf, e.argv, e.env}[v.Idx]
	}
	return frame[v.Idx]
}

func (e *tEval) body(body []TStmt, frame []*tval) {
	for _, st := range body {
		e.budget--
		if e.budget <= 0 {
			return
		}
		var v *tval
		if st.Kind != "call" {
			v = e.lookup(st.V, frame)
		}
		k := fmt.Sprintf("u%d", st.Site)
		k2 := fmt.Sprintf("u%d", st.Site2)
		switch st.Kind {
		case "sread":
			e.sink.WriteString(v.s + ".")
		case "sassign":
			v.s = strings.Repeat("x", st.Site%5+1)
		case "index":
			v.arr[k] = "1"
		case "in":
			if _, ok := v.arr[k2]; ok {
				e.sink.WriteString("i")
			}
		case "forin":
			e.sink.WriteString(fmt.Sprint(len(v.arr)))
		case "delete1":
			delete(v.arr, k2)
		case "deleteall":
			for kk := range v.arr {
				delete(v.arr, kk)
			}
		case "split":
			for kk := range v.arr {
				delete(v.arr, kk)
			}
			v.arr["1"], v.arr["2"], v.arr["3"] = "a", "b", "c"
		case "length":
			e.sink.WriteString(lengthOf(v))
		case "call":
			if e.d >= 3 {
				continue
			}
			f := e.p.Funcs[st.Callee]
			newFrame := make([]*tval, f.NParams)
			for i := 0; i < f.NParams; i++ {
				isArr := e.in.TypeOf(TVar{st.Callee, i}) == TArray
				if i < len(st.Args) {
					a := st.Args[i]
					switch a.Kind {
					case "var":
						av := e.lookup(a.V, frame)
						if isArr {
							newFrame[i] = av // by reference
						} else {
							newFrame[i] = &tval{s: av.s} // by value
						}
					case "group", "expr":
						newFrame[i] = &tval{s: e.lookup(a.V, frame).s}
					case "elem":
						av := e.lookup(a.V, frame)
						if _, ok := av.arr[k]; !ok {
							av.arr[k] = "" // referencing an element creates it
						}
						newFrame[i] = &tval{s: av.arr[k]}
					case "const":
						newFrame[i] = &tval{s: "1"}
					}
				} else if isArr {
					newFrame[i] = &tval{arr: map[string]string{}} // fresh local array
				} else {
					newFrame[i] = &tval{}
				}
			}
			e.d++
			tr := []string{fmt.Sprintf("F%d", st.Callee)}
			for i := 0; i < f.NParams; i++ {
				tr = append(tr, lengthOf(newFrame[i]))
			}
			e.out.WriteString(strings.Join(tr, " ") + "\n")
			e.body(f.Body, newFrame)
			e.d--
		}
	}
}

// Permutations returns up to max distinct orders of n items (all of them when n! <= max).
func Permutations(t *rapid.T, n, max int) [][]int {
	base := make([]int, n)
	for i := range base {
		base[i] = i
	}
	if n <= 4 {
		var out [][]int
		var rec func(k int)
		rec = func(k int) {
			if k == n {
				out = append(out, append([]int(nil), base...))
				return
			}
			for i := k; i < n; i++ {
				base[k], base[i] = base[i], base[k]
				rec(k + 1)
				base[k], base[i] = base[i], base[k]
			}
		}
		rec(0)
		sort.Slice(out, func(i, j int) bool { return fmt.Sprint(out[i]) < fmt.Sprint(out[j]) })
		if len(out) > max {
			out = out[:max]
		}
		return out
	}
	var out [][]int
	for i := 0; i < max; i++ {
		out = append(out, rapid.Permutation(base).Draw(t, "perm"))
	}
	return out
}
