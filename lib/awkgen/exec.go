package awkgen

import (
	"fmt"

	"pgregory.net/rapid"

	"verif/lib/awk"
)

// The *exec* profile: programs that are executed.  They terminate by
// construction (every loop has a generated trip-count guard, recursion has a
// decreasing depth parameter), are deterministic (no rand/srand/system/pipes,
// for-in bodies are order-insensitive), type-consistent (fixed symbol table),
// and only touch files of a per-case sandbox (disjoint pools for reading and
// writing).
//
// Symbols: scalars g0..g4 s0 s1, arrays A0 A1 B, functions f0..f2
// (f0(p, q, l, la): p scalar, q array, l local scalar, la local array;
// f1(p, d): recursion on d; f2(): no parameters), loop counters _c<N>.

type Exec struct {
	t       *rapid.T
	ctr     int
	inFunc  string // "", "f0", "f1", "f2"
	inRule  bool
	loops   int
	forInOf string // array being iterated (must not be modified)
	forInV  string
	// IO enables getline/redirection statements.
	IO bool
	// Funcs enables user functions.
	Funcs     bool
	usedFuncs map[string]bool
	// Features seen (for non-triviality classes)
	Feat map[string]int
}

func NewExec(t *rapid.T) *Exec {
	return &Exec{t: t, IO: true, Funcs: true, usedFuncs: map[string]bool{}, Feat: map[string]int{}}
}

func (g *Exec) n(lo, hi int, label string) int { return rapid.IntRange(lo, hi).Draw(g.t, label) }
func (g *Exec) pick(l []string, label string) string {
	return rapid.SampledFrom(l).Draw(g.t, label)
}

var execStrs = []string{"a", "b", "ab", "3x", "", " ", "+5", "1e2", "10", "9", "abc", "A", "x y", "2.5", "007", "a,b:c"}
var execRegexes = []string{"a", "b+", "^a", "[0-9]+", "x|y", "a.c", "[a-c]", "^$", "[,:]", " +"}
var execFmts = []struct {
	f string
	n int
}{{"%d", 1}, {"%s", 1}, {"%5.2f", 1}, {"%s-%s", 2}, {"%d:%s", 2}, {"%x", 1}, {"%c", 1}, {"[%3d]", 1}, {"%-4s|", 1}, {"%.3e", 1}, {"%o", 1}, {"%i %s %d", 3}, {"%5s", 1}, {"%03d", 1}, {"%.2g", 1}, {"100%%", 0}}

func (g *Exec) scalarName() string {
	if g.inFunc == "f0" && g.n(0, 1, "loc") == 0 {
		return g.pick([]string{"p", "l"}, "f0s")
	}
	if g.inFunc == "f1" && g.n(0, 1, "loc") == 0 {
		return "p"
	}
	return g.pick([]string{"g0", "g1", "g2", "g3", "s0", "s1"}, "gs")
}

func (g *Exec) arrayName() string {
	if g.inFunc == "f0" && g.n(0, 1, "loca") == 0 {
		return g.pick([]string{"q", "la"}, "f0a")
	}
	return g.pick([]string{"A0", "A1", "B"}, "ga")
}

func (g *Exec) smallNum() *awk.Node {
	switch g.n(0, 9, "numk") {
	case 0:
		return awk.NumN(0.5)
	case 1:
		return awk.NumN(2.5)
	case 2:
		return awk.NumN(float64(g.n(10, 100, "big")))
	case 3:
		if g.n(0, 2, "edgy") == 0 {
			return g.edgeNum()
		}
		return awk.NumN(float64(g.n(0, 6, "small")))
	default:
		return awk.NumN(float64(g.n(0, 6, "small")))
	}
}

func (g *Exec) fieldIndex() *awk.Node {
	switch g.n(0, 11, "fik") {
	case 11:
		// constant-field shortcuts at and beyond the integer edges; only magnitudes far above the
		// field limit (reads give "", assignments fail): a field number near 1e6 would be legal and
		// make every record a megabyte
		n := edgeNums[g.n(4, len(edgeNums)-1, "fedge")]
		if g.n(0, 3, "feneg") == 0 {
			return awk.UnaryN("-", awk.NumN(n))
		}
		return awk.NumN(n)
	case 8, 9, 10:
		return awk.NumN(float64(g.n(0, 5, "fi")))
	case 0:
		return awk.VarN("NF")
	case 1:
		return awk.BinN(awk.VarN("NF"), "-", awk.NumN(1))
	case 2:
		return awk.GroupN(awk.BinN(awk.NumN(1), "+", awk.NumN(float64(g.n(0, 2, "fadd")))))
	default:
		return awk.NumN(float64(g.n(0, 5, "fi")))
	}
}

// edgeNums are literals at and beyond the edges of exact integer / int64
// representation: constant folding of subscripts, field indexes and number to
// string conversion must agree with what happens at run time.
var edgeNums = []float64{0.1, 1e-5, 1e6, 999999.5, 1e15, 9007199254740992, 1e18, 9223372036854774784, 9223372036854775808, 1e19, 18446744073709551616, 1e30, 1e300}

func (g *Exec) edgeNum() *awk.Node {
	n := edgeNums[g.n(0, len(edgeNums)-1, "edge")]
	if g.n(0, 3, "eneg") == 0 {
		return awk.UnaryN("-", awk.NumN(n))
	}
	return awk.NumN(n)
}

func (g *Exec) subscript(d int) []*awk.Node {
	one := func() *awk.Node {
		switch g.n(0, 6, "subk") {
		case 6:
			return g.edgeNum()
		case 0:
			return awk.StrN(g.pick([]string{"k", "a", "1", "x"}, "subs"))
		case 1:
			return awk.VarN(g.scalarName())
		case 2:
			if d > 0 {
				return g.Expr(d - 1)
			}
			return awk.NumN(1)
		default:
			return awk.NumN(float64(g.n(0, 3, "subn")))
		}
	}
	if g.n(0, 5, "multi") == 0 {
		return []*awk.Node{one(), one()}
	}
	return []*awk.Node{one()}
}

// lvalue draws an assignable target. Targets that would make the program
// order-dependent inside a for-in loop are avoided by the caller.
func (g *Exec) lvalue(d int) *awk.Node {
	switch k := g.n(0, 11, "lvk"); {
	case k < 5:
		g.Feat["lv-var"]++
		return awk.VarN(g.scalarName())
	case k < 8:
		g.Feat["lv-elem"]++
		a := g.arrayName()
		if a == g.forInOf {
			a = "B"
			if g.forInOf == "B" {
				a = "A0"
			}
		}
		return awk.IndexN(a, g.subscript(d)...)
	case k < 10:
		g.Feat["lv-field"]++
		return awk.FieldN(g.fieldIndex())
	default:
		g.Feat["lv-special"]++
		return awk.VarN(g.pick([]string{"OFS", "SUBSEP", "NR", "g4"}, "lvsp"))
	}
}

func (g *Exec) leaf() *awk.Node {
	switch g.n(0, 11, "leafk") {
	case 0, 1, 2:
		return awk.VarN(g.scalarName())
	case 3, 4:
		return g.smallNum()
	case 5, 6:
		return awk.StrN(g.pick(execStrs, "str"))
	case 7, 8:
		return awk.FieldN(g.fieldIndex())
	case 9:
		return awk.IndexN(g.arrayName(), g.subscript(0)...)
	case 10:
		return awk.VarN(g.pick([]string{"NF", "NR", "FNR", "FILENAME", "RSTART", "RLENGTH", "OFS", "FS"}, "special"))
	default:
		return awk.CallN("length")
	}
}

var cmpOps = []string{"<", "<=", "==", "!=", ">", ">="}

// Cond draws a condition, favouring comparisons written directly (fused compare-and-branch).
func (g *Exec) Cond(d int) *awk.Node {
	switch k := g.n(0, 9, "condk"); {
	case k < 5:
		g.Feat["direct-comparison"]++
		return awk.BinN(g.Expr(d-1), g.pick(cmpOps, "cmp"), g.Expr(d-1))
	case k < 6:
		return awk.BinN(g.Expr(d-1), g.pick([]string{"~", "!~"}, "mop"), awk.RegexN(g.pick(execRegexes, "re")))
	case k < 7:
		return awk.UnaryN("!", g.Expr(d-1))
	case k < 8:
		return awk.InN(g.arrayName(), g.subscript(d-1)...)
	default:
		return g.Expr(d)
	}
}

// Expr draws a scalar-valued expression.
func (g *Exec) Expr(d int) *awk.Node {
	if d <= 0 {
		return g.leaf()
	}
	switch k := g.n(0, 39, "ek"); {
	case k < 6:
		return g.leaf()
	case k < 10:
		return awk.BinN(g.Expr(d-1), g.pick([]string{"+", "-", "*"}, "aop"), g.Expr(d-1))
	case k < 11:
		return awk.BinN(g.Expr(d-1), g.pick([]string{"/", "%"}, "dop"), awk.NumN(float64(g.n(2, 5, "div"))))
	case k < 12:
		return awk.BinN(g.leaf(), "^", awk.NumN(float64(g.n(0, 3, "pow"))))
	case k < 15:
		g.Feat["concat"]++
		n := g.Expr(d - 1)
		for j := g.n(1, 3, "ncat"); j > 0; j-- {
			n = awk.BinN(n, " ", g.Expr(d-1))
		}
		return n
	case k < 18:
		return awk.BinN(g.Expr(d-1), g.pick(cmpOps, "cmp"), g.Expr(d-1))
	case k < 19:
		return awk.BinN(g.Expr(d-1), g.pick([]string{"~", "!~"}, "mop"), g.regexOperand())
	case k < 21:
		return awk.BinN(g.Cond(d-1), g.pick([]string{"&&", "||"}, "lop"), g.Cond(d-1))
	case k < 22:
		return awk.UnaryN(g.pick([]string{"-", "+", "!"}, "uop"), g.Expr(d-1))
	case k < 23:
		return awk.CondN(g.Cond(d-1), g.Expr(d-1), g.Expr(d-1))
	case k < 24:
		return awk.InN(g.arrayName(), g.subscript(d-1)...)
	case k < 26:
		g.Feat["assign-expr"]++
		return awk.AssignN(g.lvalue(d-1), g.assignOp(), g.rhs(d-1))
	case k < 28:
		g.Feat["incr-expr"]++
		return awk.IncrN(g.pick([]string{"++", "--"}, "iop"), g.n(0, 1, "pre") == 0, g.lvalue(d-1))
	case k < 29:
		return awk.GroupN(g.Expr(d - 1))
	case k < 30:
		return awk.CallN("length", g.Expr(d-1))
	case k < 31:
		if g.n(0, 1, "s3") == 0 {
			return awk.CallN("substr", g.Expr(d-1), g.smallOrExpr(d-1))
		}
		return awk.CallN("substr", g.Expr(d-1), g.smallOrExpr(d-1), g.smallOrExpr(d-1))
	case k < 32:
		return awk.CallN("index", g.Expr(d-1), g.Expr(d-1))
	case k < 33:
		a := g.arrayName()
		if a == g.forInOf {
			return g.leaf()
		}
		if g.n(0, 1, "sp3") == 0 {
			return awk.CallN("split", g.Expr(d-1), awk.VarN(a))
		}
		return awk.CallN("split", g.Expr(d-1), awk.VarN(a), g.sepOperand())
	case k < 35:
		g.Feat["sub-gsub"]++
		fn := g.pick([]string{"sub", "gsub"}, "sg")
		repl := awk.StrN(g.pick([]string{"X", "", "[&]", "\\&", "&&", "-"}, "repl"))
		if g.n(0, 2, "tgt") == 0 {
			return awk.CallN(fn, g.regexOperand(), repl)
		}
		return awk.CallN(fn, g.regexOperand(), repl, g.lvalue(d-1))
	case k < 36:
		return awk.CallN("match", g.Expr(d-1), g.regexOperand())
	case k < 37:
		f := execFmts[g.n(0, len(execFmts)-1, "fmt")]
		args := []*awk.Node{awk.StrN(f.f)}
		for j := 0; j < f.n; j++ {
			args = append(args, g.fmtArg(f.f, d-1))
		}
		return awk.CallN("sprintf", args...)
	case k < 38:
		return awk.CallN(g.pick([]string{"tolower", "toupper", "int", "sin", "cos"}, "b1"), g.Expr(d-1))
	default:
		if c := g.userCall(d - 1); c != nil {
			return c
		}
		return g.leaf()
	}
}

func (g *Exec) fmtArg(f string, d int) *awk.Node {
	if f == "%c" {
		if g.n(0, 1, "cnum") == 0 {
			return awk.NumN(float64(g.n(65, 90, "cc")))
		}
		return awk.StrN(g.pick([]string{"a", "bc", "Z"}, "cs"))
	}
	if f == "%x" || f == "%o" {
		return awk.NumN(float64(g.n(0, 300, "hexv")))
	}
	return g.Expr(d)
}

func (g *Exec) smallOrExpr(d int) *awk.Node {
	if g.n(0, 2, "soe") == 0 {
		return g.Expr(d)
	}
	switch g.n(0, 5, "sok") {
	case 0:
		return awk.UnaryN("-", awk.NumN(1))
	case 1:
		return awk.NumN(1.5)
	default:
		return awk.NumN(float64(g.n(0, 5, "son")))
	}
}

func (g *Exec) regexOperand() *awk.Node {
	if g.n(0, 3, "dyn") == 0 {
		return awk.StrN(g.pick(execRegexes, "dre"))
	}
	return awk.RegexN(g.pick(execRegexes, "re"))
}

func (g *Exec) sepOperand() *awk.Node {
	if g.n(0, 3, "sre") == 0 {
		return awk.RegexN(g.pick([]string{"[,:]", " +", "a"}, "sepre"))
	}
	return awk.StrN(g.pick([]string{" ", ",", ":", "a+", "", "."}, "sep"))
}

func (g *Exec) assignOp() string {
	switch g.n(0, 9, "aopk") {
	case 0, 1, 2, 3, 4:
		return "="
	case 5:
		return "-="
	case 6:
		return "*="
	default:
		return "+="
	}
}

func (g *Exec) rhs(d int) *awk.Node { return g.Expr(d) }

func (g *Exec) userCall(d int) *awk.Node {
	if !g.Funcs {
		return nil
	}
	// call graph: rules/BEGIN/END -> f0, f1, f2; f0 -> f1, f2; f1 -> f1 (guarded), f2; f2 -> nothing
	var choices []string
	switch g.inFunc {
	case "":
		choices = []string{"f0", "f1", "f2"}
	case "f0":
		choices = []string{"f1", "f2"}
	case "f1":
		choices = []string{"f2"}
	default:
		return nil
	}
	f := g.pick(choices, "callee")
	g.usedFuncs[f] = true
	g.Feat["user-call"]++
	switch f {
	case "f0":
		// f0(p, q, l, la): scalar, array, and two locals that callers normally do not pass
		args := []*awk.Node{}
		switch g.n(0, 3, "f0args") {
		case 0:
		case 1:
			args = append(args, g.Expr(d))
		default:
			a := g.arrayName()
			if a == g.forInOf {
				a = "B"
				if g.forInOf == "B" {
					a = "A0"
				}
			}
			args = append(args, g.Expr(d), awk.VarN(a))
		}
		return awk.UserCallN("f0", args...)
	case "f1":
		return awk.UserCallN("f1", g.Expr(d), awk.NumN(float64(g.n(0, 3, "depth"))))
	default:
		return awk.UserCallN("f2")
	}
}

// ---------------------------------------------------------------------------
// statements

func (g *Exec) counter() string {
	g.ctr++
	return fmt.Sprintf("_c%d", g.ctr)
}

var readFiles = []string{"r0", "r1"}
var writeFiles = []string{"w0", "w1"}

func (g *Exec) fileName(pool []string) *awk.Node {
	name := g.pick(pool, "file")
	if g.n(0, 2, "computed") == 0 {
		// a name computed at run time
		return awk.GroupN(awk.BinN(awk.StrN(name[:1]), " ", awk.NumN(float64(name[1]-'0'))))
	}
	return awk.StrN(name)
}

func (g *Exec) printStmt(d int) *awk.Node {
	kind := awk.Print
	n := &awk.Node{K: kind}
	if g.n(0, 3, "printf") == 0 {
		n.K = awk.Printf
		f := execFmts[g.n(0, len(execFmts)-1, "fmt")]
		n.A = append(n.A, awk.StrN(f.f+"\n"))
		for j := 0; j < f.n; j++ {
			n.A = append(n.A, g.fmtArg(f.f, d-1))
		}
	} else {
		for j := g.n(0, 3, "nargs"); j > 0; j-- {
			n.A = append(n.A, g.Expr(d-1))
		}
	}
	if g.IO && g.n(0, 5, "redir") == 0 {
		n.Op = g.pick([]string{">", ">>"}, "rop")
		n.Dest = g.fileName(writeFiles)
		g.Feat["file-output"]++
	}
	return n
}

func (g *Exec) forInBody(v, arr string) []*awk.Node {
	// order-insensitive bodies only; the iterated array is never extended inside the loop
	// (reading arr[v] for an existing key does not create anything)
	incr := awk.ExprS(awk.IncrN("++", false, awk.VarN("g3")))
	switch g.n(0, 6, "fik") {
	case 0:
		return []*awk.Node{incr}
	case 1:
		return []*awk.Node{awk.ExprS(awk.AssignN(awk.VarN("g2"), "+=", awk.CallN("length", awk.VarN(v))))}
	case 2:
		return []*awk.Node{incr, awk.ExprS(awk.AssignN(awk.VarN("g2"), "+=", awk.CallN("int", awk.IndexN(arr, awk.VarN(v)))))}
	case 3:
		other := "B"
		if arr == "B" {
			other = "A1"
		}
		return []*awk.Node{awk.IfN(awk.InN(other, awk.VarN(v)), []*awk.Node{incr}, nil, false)}
	case 4:
		return []*awk.Node{incr, awk.DeleteN(arr, awk.VarN(v))}
	case 5:
		g.Feat["for-in-break"]++
		return []*awk.Node{incr, awk.Simple(awk.Break)}
	default:
		g.Feat["for-in-break"]++
		return []*awk.Node{awk.ExprS(awk.AssignN(awk.VarN("g1"), "=", awk.StrN("seen"))), awk.Simple(awk.Break)}
	}
}

func (g *Exec) stmts(d int, lo, hi int) []*awk.Node {
	var out []*awk.Node
	for j := g.n(lo, hi, "nstmts"); j > 0; j-- {
		out = append(out, g.Stmt(d)...)
	}
	return out
}

// Stmt draws one statement (possibly with a preceding counter reset).
// convfmtChain: a concatenation of three or more operands whose third (or a
// later) operand changes CONVFMT; the operands to its left have been converted
// (pairwise, left to right) before it is evaluated.  Only generated as a whole
// statement operand: elsewhere (print lists, subscript lists) the moment of
// conversion relative to the evaluation of sibling expressions is not defined.
func (g *Exec) convfmtChain(d int) *awk.Node {
	g.Feat["concat-convfmt"]++
	frac := func() *awk.Node { return awk.BinN(g.leaf(), "/", awk.NumN(float64(g.n(3, 7, "cdiv")))) }
	n := awk.BinN(frac(), " ", awk.StrN(","))
	for j := g.n(0, 2, "cpre"); j > 0; j-- {
		n = awk.BinN(n, " ", g.Expr(d-1))
	}
	n = awk.BinN(n, " ", awk.GroupN(awk.AssignN(awk.VarN("CONVFMT"), "=", awk.StrN(g.pick([]string{"%.2g", "%.3f", "%.4e", "%.6g"}, "cfv")))))
	for j := g.n(0, 2, "cpost"); j > 0; j-- {
		n = awk.BinN(n, " ", frac())
	}
	return n
}

// selfAssign: "v = v OP e" (or "v OP= e", "v = e OP v") where evaluating e
// itself changes v.  Operands are evaluated left to right, so the value of the
// left "v" is taken before e runs: any shortcut that re-reads v afterwards (as an
// augmented assignment does) changes the result.
func (g *Exec) selfAssign() *awk.Node {
	g.Feat["stmt-self-assign"]++
	var v *awk.Node
	switch g.n(0, 3, "savk") {
	case 0, 1:
		v = awk.VarN(g.scalarName())
	case 2:
		a := g.arrayName()
		if a == g.forInOf {
			v = awk.VarN(g.scalarName())
		} else {
			v = awk.IndexN(a, g.smallNum())
		}
	default:
		v = awk.FieldN(awk.NumN(float64(g.n(1, 3, "saf"))))
	}
	cp := func() *awk.Node { return awk.Clone(v) }
	var e *awk.Node
	switch g.n(0, 5, "saek") {
	case 0:
		e = awk.IncrN(g.pick([]string{"++", "--"}, "saop"), false, cp())
	case 1:
		e = awk.IncrN(g.pick([]string{"++", "--"}, "saop"), true, cp())
	case 2:
		e = awk.GroupN(awk.AssignN(cp(), "=", g.smallNum()))
	case 3:
		e = awk.GroupN(awk.AssignN(cp(), g.pick([]string{"+=", "*=", "-="}, "saaug"), g.smallNum()))
	case 4:
		e = awk.CallN("sub", awk.RegexN("^."), awk.StrN("7"), cp())
	default:
		e = awk.BinN(g.smallNum(), "*", awk.IncrN("++", false, cp()))
	}
	op := g.pick([]string{"+", "-", "*", "/", "%", "^", " "}, "sabin")
	switch g.n(0, 3, "sashape") {
	case 0, 1:
		return awk.AssignN(v, "=", awk.BinN(cp(), op, e))
	case 2:
		return awk.AssignN(v, "=", awk.BinN(e, op, cp()))
	default:
		return awk.AssignN(v, g.pick([]string{"+=", "-=", "*=", "/=", "%=", "^="}, "saaop"), e)
	}
}

func (g *Exec) Stmt(d int) []*awk.Node {
	k := g.n(0, 39, "sk")
	if d <= 0 && k >= 22 && k < 34 {
		k = 0
	}
	one := func(n *awk.Node) []*awk.Node { return []*awk.Node{n} }
	switch {
	case k < 8:
		if g.n(0, 7, "selfassign") == 0 {
			return one(awk.ExprS(g.selfAssign()))
		}
		g.Feat["stmt-assign"]++
		return one(awk.ExprS(awk.AssignN(g.lvalue(2), g.assignOp(), g.rhs(2))))
	case k < 11:
		g.Feat["stmt-incr"]++
		return one(awk.ExprS(awk.IncrN(g.pick([]string{"++", "--"}, "iop"), g.n(0, 1, "pre") == 0, g.lvalue(2))))
	case k < 17:
		return one(g.printStmt(3))
	case k < 19:
		if g.n(0, 3, "chain") == 0 {
			return one(awk.ExprS(awk.AssignN(awk.VarN(g.pick([]string{"g0", "g1", "s0"}, "chv")), "=", g.convfmtChain(2))))
		}
		return one(awk.ExprS(g.Expr(3)))
	case k < 20:
		a := g.arrayName()
		if a == g.forInOf {
			return one(awk.ExprS(awk.IncrN("++", false, awk.VarN("g3"))))
		}
		if g.n(0, 2, "dall") == 0 {
			return one(awk.DeleteN(a))
		}
		return one(awk.DeleteN(a, g.subscript(1)...))
	case k < 22:
		if g.IO {
			return one(g.getlineStmt())
		}
		return one(g.printStmt(2))
	case k < 26:
		hasElse := g.n(0, 1, "else") == 0
		var els []*awk.Node
		if hasElse {
			els = g.stmts(d-1, 0, 2)
		}
		g.Feat["if"]++
		return one(awk.IfN(g.Cond(2), g.stmts(d-1, 0, 3), els, hasElse))
	case k < 28:
		c := g.counter()
		g.loops++
		body := g.stmts(d-1, 0, 3)
		g.loops--
		g.Feat["for"]++
		cond := awk.BinN(awk.VarN(c), "<", awk.NumN(float64(g.n(0, 4, "trip"))))
		if g.n(0, 3, "extra") == 0 {
			cond = awk.BinN(cond, "&&", g.Cond(1))
		}
		return one(awk.ForN(awk.ExprS(awk.AssignN(awk.VarN(c), "=", awk.NumN(0))), cond, awk.ExprS(awk.IncrN("++", false, awk.VarN(c))), body))
	case k < 30:
		c := g.counter()
		g.loops++
		body := g.stmts(d-1, 0, 3)
		g.loops--
		g.Feat["while"]++
		cond := awk.BinN(awk.IncrN("++", false, awk.VarN(c)), "<", awk.NumN(float64(g.n(0, 4, "trip"))))
		if g.n(0, 3, "extra") == 0 {
			cond = awk.BinN(cond, "&&", g.Cond(1))
		}
		return []*awk.Node{awk.ExprS(awk.AssignN(awk.VarN(c), "=", awk.NumN(0))), awk.WhileN(cond, body)}
	case k < 32:
		c := g.counter()
		g.loops++
		body := g.stmts(d-1, 0, 3)
		g.loops--
		g.Feat["do-while"]++
		op := g.pick([]string{"<", "<=", "!="}, "dwop")
		return []*awk.Node{awk.ExprS(awk.AssignN(awk.VarN(c), "=", awk.NumN(0))), awk.DoWhileN(body, awk.BinN(awk.IncrN("++", true, awk.VarN(c)), op, awk.NumN(float64(g.n(1, 4, "trip")))))}
	case k < 33:
		if g.forInOf != "" {
			return one(g.printStmt(2))
		}
		arr := g.arrayName()
		v := g.pick([]string{"k", "k2"}, "fiv")
		g.Feat["for-in"]++
		return one(awk.ForInN(v, arr, g.forInBody(v, arr)))
	case k < 34:
		return one(awk.BlockN(g.stmts(d-1, 0, 3)))
	case k < 36:
		if g.loops > 0 {
			g.Feat["break-continue"]++
			// guarded so that statements after it are still reachable
			return one(awk.IfN(g.Cond(1), []*awk.Node{awk.Simple(g.pick([]string{awk.Break, awk.Continue}, "bc"))}, nil, false))
		}
		return one(g.printStmt(2))
	case k < 37:
		if g.inRule && g.inFunc == "" {
			g.Feat["next"]++
			return one(awk.IfN(g.Cond(1), []*awk.Node{awk.Simple(g.pick([]string{awk.Next, awk.Next, awk.Nextfile}, "nn"))}, nil, false))
		}
		return one(g.printStmt(2))
	case k < 38:
		g.Feat["exit"]++
		var e *awk.Node
		if g.n(0, 1, "ev") == 0 {
			e = awk.NumN(float64(g.n(0, 5, "status")))
		}
		return one(awk.IfN(g.Cond(1), []*awk.Node{awk.ExitN(e)}, nil, false))
	default:
		if g.inFunc != "" {
			var e *awk.Node
			if g.n(0, 2, "rv") > 0 {
				e = g.Expr(2)
			}
			return one(awk.IfN(g.Cond(1), []*awk.Node{awk.ReturnN(e)}, nil, false))
		}
		return one(g.printStmt(2))
	}
}

func (g *Exec) getlineStmt() *awk.Node {
	g.Feat["getline"]++
	var target *awk.Node
	switch g.n(0, 3, "gt") {
	case 0:
	case 1:
		target = awk.VarN(g.scalarName())
	case 2:
		target = awk.IndexN("B", awk.StrN("gl"))
	default:
		target = awk.FieldN(awk.NumN(float64(g.n(1, 3, "gf"))))
	}
	var file *awk.Node
	if g.n(0, 1, "gfile") == 0 {
		file = g.fileName(readFiles)
	}
	gl := awk.GetlineN(nil, target, file)
	switch g.n(0, 2, "gshape") {
	case 0:
		return awk.ExprS(gl)
	case 1:
		return awk.ExprS(awk.AssignN(awk.VarN("g1"), "=", awk.GroupN(gl)))
	default:
		return awk.IfN(awk.BinN(awk.GroupN(gl), ">", awk.NumN(0)), []*awk.Node{g.printStmt(2)}, nil, false)
	}
}

// Program draws a whole exec-profile program.
func (g *Exec) Program() *awk.Program {
	p := &awk.Program{}
	nitems := g.n(1, 5, "items")
	for j := 0; j < nitems; j++ {
		switch g.n(0, 6, "item") {
		case 0, 1:
			p.Begin = append(p.Begin, g.stmts(g.n(1, 3, "depth"), 1, 5))
		case 2:
			p.End = append(p.End, g.stmts(g.n(1, 3, "depth"), 1, 5))
		default:
			g.inRule = true
			a := &awk.Action{}
			switch g.n(0, 6, "pat") {
			case 0, 1:
			case 2:
				a.Pattern = []*awk.Node{g.Cond(2)}
			case 3:
				a.Pattern = []*awk.Node{awk.RegexN(g.pick(execRegexes, "pre"))}
			case 4:
				g.Feat["range"]++
				a.Pattern = []*awk.Node{g.Cond(1), g.Cond(1)}
			case 5:
				a.Pattern = []*awk.Node{awk.BinN(awk.VarN("NR"), g.pick(cmpOps, "nrop"), awk.NumN(float64(g.n(1, 4, "nr"))))}
			default:
				a.Pattern = []*awk.Node{g.Expr(2)}
			}
			if len(a.Pattern) > 0 && g.n(0, 4, "nobody") == 0 {
				a.NoBody = true
			} else {
				a.Body = g.stmts(g.n(1, 3, "depth"), 0, 5)
			}
			p.Actions = append(p.Actions, a)
			g.inRule = false
		}
	}
	// function definitions (always all three, so that calls resolve)
	if g.Funcs {
		g.inFunc = "f2"
		f2 := &awk.Func{Name: "f2", Body: g.stmts(1, 0, 3)}
		g.inFunc = "f1"
		body1 := g.stmts(2, 0, 3)
		rec := awk.IfN(awk.BinN(awk.VarN("d"), ">", awk.NumN(0)), []*awk.Node{awk.ExprS(awk.AssignN(awk.VarN("g0"), "=", awk.BinN(awk.VarN("g0"), " ", awk.UserCallN("f1", awk.BinN(awk.VarN("p"), " ", awk.StrN("r")), awk.BinN(awk.VarN("d"), "-", awk.NumN(1))))))}, nil, false)
		body1 = append(body1, rec, awk.ReturnN(awk.BinN(awk.VarN("p"), " ", awk.VarN("d"))))
		f1 := &awk.Func{Name: "f1", Params: []string{"p", "d"}, Body: body1}
		g.inFunc = "f0"
		body0 := []*awk.Node{awk.ExprS(awk.AssignN(awk.IndexN("q", awk.StrN("k")), "=", awk.VarN("p"))), awk.ExprS(awk.AssignN(awk.IndexN("la", awk.NumN(1)), "=", awk.NumN(1)))}
		body0 = append(body0, g.stmts(2, 0, 4)...)
		f0 := &awk.Func{Name: "f0", Params: []string{"p", "q", "l", "la"}, Body: body0}
		g.inFunc = ""
		p.Funcs = []*awk.Func{f0, f1, f2}
		if g.n(0, 5, "deeprec") == 0 {
			// deep recursion through a function with several parameters the caller never supplies: every
			// activation must see them empty, however much operand stack earlier expressions have used and
			// however often the stack has grown; the recursive call sits inside a larger expression
			g.Feat["deep-recursion-locals"]++
			depth := float64(g.n(8, 70, "drdepth"))
			nloc := g.n(2, 4, "drlocals")
			params := []string{"n"}
			var seen *awk.Node = awk.StrN("<")
			var set []*awk.Node
			for i := 0; i < nloc; i++ {
				name := fmt.Sprintf("u%d", i)
				params = append(params, name)
				seen = awk.BinN(awk.BinN(seen, " ", awk.VarN(name)), " ", awk.StrN(","))
				set = append(set, awk.ExprS(awk.AssignN(awk.VarN(name), "=", awk.BinN(awk.VarN("n"), "*", awk.NumN(float64(i+2))))))
			}
			body := []*awk.Node{awk.ExprS(awk.AssignN(awk.VarN("g4"), "=", awk.BinN(awk.VarN("g4"), " ", awk.BinN(seen, " ", awk.StrN(">")))))}
			body = append(body, set...)
			call := awk.UserCallN("dr", awk.BinN(awk.VarN("n"), "-", awk.NumN(1)))
			var expr *awk.Node
			switch g.n(0, 2, "drshape") {
			case 0:
				expr = call
			case 1:
				expr = awk.BinN(awk.BinN(awk.NumN(1), "+", awk.BinN(awk.NumN(2), "*", call)), "-", awk.VarN("u0"))
			default:
				expr = awk.BinN(awk.BinN(awk.VarN("u1"), " ", awk.StrN("|")), " ", awk.GroupN(awk.BinN(awk.VarN("u0"), "+", call)))
			}
			body = append(body, awk.IfN(awk.BinN(awk.VarN("n"), ">", awk.NumN(0)), []*awk.Node{awk.ReturnN(expr)}, nil, false), awk.ReturnN(awk.VarN("u0")))
			p.Funcs = append(p.Funcs, &awk.Func{Name: "dr", Params: params, Body: body})
			callSt := []*awk.Node{awk.ExprS(awk.AssignN(awk.VarN("g3"), "=", awk.UserCallN("dr", awk.NumN(depth)))), awk.PrintN([]*awk.Node{awk.CallN("length", awk.VarN("g4")), awk.VarN("g3")}, "", nil)}
			if g.n(0, 1, "drwhere") == 0 || len(p.Begin) == 0 {
				p.Begin = append(p.Begin, callSt)
			} else {
				p.End = append(p.End, callSt)
			}
		}
	}
	return p
}

// Input draws input text: 0-6 lines of 0-5 plain fields.
func Input(t *rapid.T) string {
	words := []string{"a", "b", "ab", "abc", "10", "9", "3x", "2.5", "x", "y", "007", "+5", "1e2", "a,b", "c:d", "A"}
	var s string
	for l := rapid.IntRange(0, 6).Draw(t, "nlines"); l > 0; l-- {
		nf := rapid.IntRange(0, 5).Draw(t, "nf")
		for f := 0; f < nf; f++ {
			if f > 0 {
				s += rapid.SampledFrom([]string{" ", " ", " ", "  ", "\t"}).Draw(t, "sep")
			}
			s += rapid.SampledFrom(words).Draw(t, "word")
		}
		s += "\n"
	}
	return s
}
