package awkgen

import (
	"strconv"

	"verif/lib/awk"
)

// Rewriter applies meaning-preserving rewrites ("two spellings of the same
// program") to a tree.  Choose(n) returns a number in [0,n) and is supplied by
// the caller (rapid), so that rewritten programs shrink and replay.
type Rewriter struct {
	Choose  func(n int) int
	Applied map[string]int
}

func pureExpr(n *awk.Node) bool {
	pure := true
	awk.Walk(n, func(m *awk.Node) {
		switch m.K {
		case awk.Assign, awk.Incr, awk.UserCall, awk.Getline:
			pure = false
		case awk.Call:
			switch m.Name {
			case "sub", "gsub", "split", "match", "close":
				pure = false
			}
		case awk.Index:
			pure = false // referencing an element may create it
		}
	})
	return pure
}

// simpleLValue: evaluating the target twice is harmless
func simpleLValue(n *awk.Node) bool {
	switch n.K {
	case awk.Var:
		return true
	case awk.Field, awk.Index:
		for _, a := range n.A {
			if !pureExpr(a) {
				return false
			}
		}
		return true
	}
	return false
}

func isComparison(n *awk.Node) bool {
	if n.K != awk.Binary {
		return false
	}
	switch n.Op {
	case "<", "<=", "==", "!=", ">", ">=":
		return true
	}
	return false
}

func (r *Rewriter) hit(name string, oneIn int) bool {
	if r.Choose(oneIn) != 0 {
		return false
	}
	r.Applied[name]++
	return true
}

// Program rewrites a copy of p.
func (r *Rewriter) Program(p *awk.Program) *awk.Program {
	q := awk.CloneProgram(p)
	for i := range q.Begin {
		q.Begin[i] = r.stmts(q.Begin[i])
	}
	for _, a := range q.Actions {
		for i := range a.Pattern {
			if len(a.Pattern) == 1 {
				a.Pattern[i] = r.cond(a.Pattern[i])
			} else {
				a.Pattern[i] = r.expr(a.Pattern[i])
			}
		}
		if !a.NoBody {
			a.Body = r.stmts(a.Body)
		}
	}
	for i := range q.End {
		q.End[i] = r.stmts(q.End[i])
	}
	for _, f := range q.Funcs {
		f.Body = r.stmts(f.Body)
	}
	return q
}

func (r *Rewriter) stmts(l []*awk.Node) []*awk.Node {
	out := make([]*awk.Node, 0, len(l))
	for _, s := range l {
		out = append(out, r.stmt(s))
	}
	if len(out) > 0 && r.hit("wrap-block", 12) {
		return []*awk.Node{awk.BlockN(out)}
	}
	return out
}

func (r *Rewriter) stmt(s *awk.Node) *awk.Node {
	switch s.K {
	case awk.ExprStmt:
		e := s.A[0]
		switch {
		case e.K == awk.Incr && simpleLValue(e.A[0]):
			lv := e.A[0]
			delta := "+"
			if e.Op == "--" {
				delta = "-"
			}
			switch r.Choose(6) {
			case 0:
				r.Applied["incr-flip-pre-post"]++
				return awk.ExprS(awk.IncrN(e.Op, !e.Pre, lv))
			case 1:
				r.Applied["incr-to-augassign"]++
				return awk.ExprS(awk.AssignN(lv, delta+"=", awk.NumN(1)))
			case 2:
				r.Applied["incr-to-assign"]++
				return awk.ExprS(awk.AssignN(lv, "=", awk.BinN(awk.Clone(lv), delta, awk.NumN(1))))
			case 3:
				r.Applied["stmt-grouped"]++
				return awk.ExprS(awk.GroupN(e))
			}
		case e.K == awk.Assign:
			e.A[1] = r.expr(e.A[1])
			if e.Op != "=" && simpleLValue(e.A[0]) && pureExpr(e.A[1]) && r.hit("augassign-to-assign", 4) {
				return awk.ExprS(awk.AssignN(e.A[0], "=", awk.BinN(awk.Clone(e.A[0]), e.Op[:len(e.Op)-1], awk.GroupN(e.A[1]))))
			}
			if r.hit("stmt-grouped", 4) {
				return awk.ExprS(awk.GroupN(e))
			}
		default:
			s.A[0] = r.expr(e)
			if e.K != awk.Getline && r.hit("stmt-grouped", 6) {
				return awk.ExprS(awk.GroupN(s.A[0]))
			}
		}
		return s
	case awk.Print, awk.Printf:
		for i := range s.A {
			s.A[i] = r.expr(s.A[i])
		}
		return s
	case awk.If:
		s.Body = r.stmts(s.Body)
		s.Else = r.stmts(s.Else)
		if r.hit("if-negate-swap", 5) {
			return awk.IfN(awk.UnaryN("!", awk.GroupN(s.A[0])), s.Else, s.Body, true)
		}
		s.A[0] = r.cond(s.A[0])
		return s
	case awk.While:
		s.Body = r.stmts(s.Body)
		if r.hit("while-to-for", 4) {
			return awk.ForN(nil, s.A[0], nil, s.Body)
		}
		s.A[0] = r.cond(s.A[0])
		return s
	case awk.DoWhile:
		s.Body = r.stmts(s.Body)
		s.A[0] = r.cond(s.A[0])
		return s
	case awk.For:
		s.Body = r.stmts(s.Body)
		if s.A[0] != nil {
			s.A[0] = r.stmt(s.A[0])
			if s.A[0].K == awk.Block {
				s.A[0] = s.A[0].Body[0]
			}
		}
		if s.A[2] != nil {
			s.A[2] = r.stmt(s.A[2])
		}
		if s.A[1] != nil {
			if s.A[0] == nil && s.A[2] == nil && r.hit("for-to-while", 3) {
				return awk.WhileN(s.A[1], s.Body)
			}
			s.A[1] = r.cond(s.A[1])
		}
		return s
	case awk.ForIn:
		return s // bodies are order-sensitive templates: left alone
	case awk.Block:
		s.Body = r.stmts(s.Body)
		return s
	case awk.Exit, awk.Return:
		if s.A[0] != nil {
			s.A[0] = r.expr(s.A[0])
		}
		return s
	}
	return s
}

// cond rewrites a condition position.
func (r *Rewriter) cond(c *awk.Node) *awk.Node {
	if isComparison(c) {
		switch r.Choose(5) {
		case 0:
			r.Applied["cond-grouped"]++
			return awk.GroupN(c)
		case 1:
			r.Applied["cond-double-negated"]++
			return awk.UnaryN("!", awk.UnaryN("!", awk.GroupN(c)))
		}
		return c
	}
	return r.expr(c)
}

func (r *Rewriter) expr(e *awk.Node) *awk.Node {
	if e == nil {
		return nil
	}
	switch e.K {
	case awk.Regex, awk.Num, awk.Str, awk.Var:
		return e
	case awk.Field:
		if e.A[0].K == awk.Num && r.hit("field-index-computed", 4) {
			if r.Choose(2) == 0 {
				return awk.FieldN(awk.GroupN(e.A[0]))
			}
			return awk.FieldN(awk.GroupN(awk.BinN(e.A[0], "+", awk.NumN(0))))
		}
		e.A[0] = r.expr(e.A[0])
		return e
	case awk.Index:
		if len(e.A) == 1 && e.A[0].K == awk.Num && e.A[0].N == float64(int(e.A[0].N)) && r.hit("subscript-as-string", 4) {
			return awk.IndexN(e.Name, awk.StrN(strconv.Itoa(int(e.A[0].N))))
		}
		// (a, b) joins after both are evaluated; a SUBSEP (b) converts a and reads SUBSEP before b is: the same
		// only when b leaves the conversion format and SUBSEP alone
		if len(e.A) == 2 && !assignsFormat(e.A[1]) && !assignsVar(e.A[1], "SUBSEP") && r.hit("subscript-subsep", 4) {
			return awk.IndexN(e.Name, awk.BinN(awk.BinN(r.expr(e.A[0]), " ", awk.VarN("SUBSEP")), " ", awk.GroupN(r.expr(e.A[1]))))
		}
		for i := range e.A {
			e.A[i] = r.expr(e.A[i])
		}
		return e
	case awk.Binary:
		if e.Op == " " && e.A[0].K == awk.Binary && e.A[0].Op == " " && !assignsFormat(e.A[1]) && r.hit("concat-regroup", 3) {
			// (a b) c  ->  a (b c)
			a, b, c := e.A[0].A[0], e.A[0].A[1], e.A[1]
			return awk.BinN(r.expr(a), " ", awk.GroupN(awk.BinN(r.expr(b), " ", r.expr(c))))
		}
		if e.Op == "&&" && r.hit("and-as-conditional", 5) {
			return awk.GroupN(awk.CondN(awk.GroupN(r.expr(e.A[0])), awk.GroupN(awk.CondN(awk.GroupN(r.expr(e.A[1])), awk.NumN(1), awk.NumN(0))), awk.NumN(0)))
		}
		if e.Op == "||" && r.hit("or-as-conditional", 5) {
			return awk.GroupN(awk.CondN(awk.GroupN(r.expr(e.A[0])), awk.NumN(1), awk.GroupN(awk.CondN(awk.GroupN(r.expr(e.A[1])), awk.NumN(1), awk.NumN(0)))))
		}
		e.A[0] = r.expr(e.A[0])
		if !((e.Op == "~" || e.Op == "!~") && e.A[1].K == awk.Regex) {
			e.A[1] = r.expr(e.A[1])
		}
		return e
	case awk.Unary:
		if e.Op == "!" && r.hit("not-as-conditional", 5) {
			return awk.GroupN(awk.CondN(awk.GroupN(r.expr(e.A[0])), awk.NumN(0), awk.NumN(1)))
		}
		e.A[0] = r.expr(e.A[0])
		return e
	case awk.Cond:
		e.A[0] = r.cond(e.A[0])
		e.A[1] = r.expr(e.A[1])
		e.A[2] = r.expr(e.A[2])
		return e
	case awk.Group:
		e.A[0] = r.expr(e.A[0])
		return e
	case awk.Assign:
		e.A[1] = r.expr(e.A[1])
		return e
	case awk.In:
		for i := range e.A {
			e.A[i] = r.expr(e.A[i])
		}
		return e
	case awk.Call:
		for i, a := range e.A {
			if a.K == awk.Regex {
				continue
			}
			if (e.Name == "sub" || e.Name == "gsub") && i == 2 {
				continue
			}
			if e.Name == "split" && i == 1 {
				continue
			}
			e.A[i] = r.expr(a)
		}
		return e
	case awk.UserCall:
		for i, a := range e.A {
			if a.K == awk.Var {
				continue // may be an array argument
			}
			e.A[i] = r.expr(a)
		}
		return e
	}
	return e
}

// assignsFormat: does the expression assign CONVFMT or OFMT?  Regrouping a
// concatenation moves the moment its left operands are converted to strings
// past the evaluation of its right operand, which is only an equivalence when
// that operand leaves the conversion format alone.
func assignsVar(n *awk.Node, name string) bool {
	found := false
	awk.Walk(n, func(m *awk.Node) {
		if (m.K == awk.Assign || m.K == awk.Incr) && len(m.A) > 0 && m.A[0] != nil && m.A[0].K == awk.Var && m.A[0].Name == name {
			found = true
		}
	})
	return found
}

func assignsFormat(n *awk.Node) bool {
	found := false
	awk.Walk(n, func(m *awk.Node) {
		if (m.K == awk.Assign || m.K == awk.Incr) && len(m.A) > 0 && m.A[0] != nil && m.A[0].K == awk.Var && (m.A[0].Name == "CONVFMT" || m.A[0].Name == "OFMT") {
			found = true
		}
		// a user function may assign the format in its body; getline, sub and gsub can have it as their target
		// (thorough run, seed 5: `g0 (-0.1) f0(g0)` with f0 setting CONVFMT = "%.3f")
		if m.K == awk.UserCall || m.K == awk.Getline || m.K == awk.Call && (m.Name == "sub" || m.Name == "gsub") {
			found = true
		}
	})
	return found
}
