package awkgen

import (
	"fmt"
	"strings"

	"pgregory.net/rapid"

	"verif/lib/awk"
)

// The *syntax* profile: whole programs covering every syntactic form, type
// consistent (so the resolver accepts them) but never meant to be executed.
//
// Symbol discipline: scalars x y z w n i k s, arrays a b arr, functions
// f(p) g(p, q) h() with p scalar and q array, l an extra local.

type Syn struct {
	t        *rapid.T
	MaxDepth int
	inFunc   bool
	inAction bool
	loop     int
	// AllBytes lets string literals contain every byte value.
	AllBytes bool
}

func NewSyn(t *rapid.T) *Syn { return &Syn{t: t, MaxDepth: 4, AllBytes: true} }

func (g *Syn) n(lo, hi int, label string) int { return rapid.IntRange(lo, hi).Draw(g.t, label) }
func (g *Syn) pick(l []string, label string) string {
	return rapid.SampledFrom(l).Draw(g.t, label)
}

var scalarNames = []string{"x", "y", "z", "w", "n", "i", "k", "s", "NF", "NR", "FS", "OFS", "RSTART", "x1", "_y"}
var arrayNames = []string{"a", "b", "arr"}

func (g *Syn) scalar() string {
	if g.inFunc && g.n(0, 2, "loc") == 0 {
		return g.pick([]string{"p", "l"}, "local")
	}
	return g.pick(scalarNames, "scalar")
}

func (g *Syn) array() string {
	if g.inFunc && g.n(0, 2, "loca") == 0 {
		return "q"
	}
	return g.pick(arrayNames, "array")
}

var interestingRunes = []string{"\u00e9", "\u00ad", "\u2028", "\U0001F600", "\u0085", "\ufeff", "\u00ff", "\u3000"}

func (g *Syn) strContent() string {
	n := g.n(0, 6, "slen")
	var sb strings.Builder
	for j := 0; j < n; j++ {
		switch g.n(0, 9, "sk") {
		case 0, 1, 2, 3:
			sb.WriteByte(byte(g.n(0x20, 0x7e, "print")))
		case 4:
			sb.WriteString(g.pick([]string{`"`, `\`, "'", "/", "&", "%", "\n", "\t", "\r"}, "special"))
		case 5:
			if g.AllBytes {
				sb.WriteByte(byte(g.n(0, 255, "byte")))
			} else {
				sb.WriteByte('b')
			}
		case 6:
			sb.WriteString(g.pick(interestingRunes, "rune"))
		case 7:
			sb.WriteString(g.pick([]string{"a", "f", "0", "7", "9", "A", "x", "u"}, "hexish")) // follows escapes
		case 8:
			if g.AllBytes {
				sb.WriteByte(byte(g.n(0x80, 0xff, "high")))
			} else {
				sb.WriteByte('h')
			}
		default:
			sb.WriteString(g.pick([]string{"%d", "%s", "%5.2f", "%c", "%%"}, "fmt"))
		}
	}
	return sb.String()
}

// regexContent: in the lexer's normal form (see awk.QuoteRegex), always a valid Go regexp.
func (g *Syn) regexContent() string {
	pieces := []string{"a", "b", ".", "x*", "y+", "z?", "[a-z]", "[^0-9]", "(a|b)", "^", "$", "/", `\\`, `\.`, `\/`[1:], "[/]", "=", "=x", " ", "é", `\$`, "a{2}", "(ab)*", `\+`, `[[:alpha:]]`, `\\/`[2:]}
	n := g.n(1, 4, "rlen")
	var sb strings.Builder
	for j := 0; j < n; j++ {
		sb.WriteString(g.pick(pieces, "rp"))
	}
	return sb.String()
}

func (g *Syn) number() *awk.Node {
	switch g.n(0, 9, "numk") {
	case 0, 1, 2:
		return awk.NumN(float64(g.n(0, 12, "small")))
	case 3:
		return awk.NumN(float64(g.n(0, 1000000, "int")))
	case 4:
		return awk.NumN(0.5)
	case 5:
		return awk.NumN(rapid.SampledFrom([]float64{1e3, 1.5e10, 12345678901234567, 9.2233720368547758e18, 1.8446744073709552e19, 1e300, 0.001, 1e-7, 3.14159265358979, 123456.789, 0.1}).Draw(g.t, "float"))
	case 6:
		return awk.NumN(rapid.Float64Range(0, 1e6).Draw(g.t, "rf"))
	default:
		return awk.NumN(float64(g.n(0, 3, "tiny")))
	}
}

func (g *Syn) lvalue(d int) *awk.Node {
	switch g.n(0, 6, "lvk") {
	case 0, 1, 2:
		return awk.VarN(g.scalar())
	case 3:
		return awk.IndexN(g.array(), g.Expr(d-1))
	case 4:
		return awk.IndexN(g.array(), g.Expr(d-1), g.Expr(d-1))
	case 5:
		return awk.FieldN(g.Expr(d - 1))
	default:
		return awk.FieldN(g.number())
	}
}

func (g *Syn) leaf() *awk.Node {
	switch g.n(0, 11, "leafk") {
	case 0, 1:
		return awk.VarN(g.scalar())
	case 2, 3:
		return g.number()
	case 4, 5:
		return awk.StrN(g.strContent())
	case 6:
		return awk.RegexN(g.regexContent())
	case 7:
		return awk.FieldN(g.number())
	case 8:
		return awk.CallN("length")
	case 9:
		return awk.IndexN(g.array(), awk.VarN(g.scalar()))
	case 10:
		return awk.UserCallN("h")
	default:
		return awk.VarN("NF")
	}
}

var builtins1 = []string{"cos", "sin", "exp", "log", "sqrt", "int", "tolower", "toupper", "system", "close", "length", "fflush", "srand"}

// Expr draws an expression of at most depth d.
func (g *Syn) Expr(d int) *awk.Node {
	if d <= 0 {
		return g.leaf()
	}
	switch k := g.n(0, 29, "ek"); {
	case k < 4:
		return g.leaf()
	case k < 12:
		// operators of the precedence table
		o := Ops[g.n(0, len(Ops)-1, "op")]
		kids := make([]*awk.Node, o.Slots)
		for j := range kids {
			if o.LSlots[j] {
				kids[j] = g.lvalue(d - 1)
			} else {
				kids[j] = g.Expr(d - 1)
			}
		}
		n := o.Build(kids...)
		if o.Kind == awk.In {
			n.Name = g.array()
		}
		if !ValidTree(n) {
			n.A[0] = awk.FieldN(awk.NumN(3))
		}
		return n
	case k < 14:
		// adjacency hazards
		x := awk.VarN(g.scalar())
		y := awk.VarN(g.scalar())
		switch g.n(0, 11, "hz") {
		case 0:
			return awk.UnaryN("-", awk.UnaryN("-", x))
		case 1:
			return awk.UnaryN("+", awk.UnaryN("+", x))
		case 2:
			return awk.UnaryN("-", awk.IncrN("--", true, x))
		case 3:
			return awk.UnaryN("+", awk.IncrN("++", true, x))
		case 4:
			return awk.BinN(x, "-", awk.UnaryN("-", y))
		case 5:
			return awk.BinN(awk.IncrN("--", false, x), "-", y)
		case 6:
			return awk.BinN(awk.IncrN("++", false, x), "+", awk.IncrN("++", true, y))
		case 7:
			return awk.BinN(x, " ", awk.UnaryN("!", y))
		case 8:
			return awk.BinN(awk.BinN(x, "/", y), "/", awk.VarN("z"))
		case 9:
			return awk.AssignN(x, "=", awk.RegexN("=re"))
		case 10:
			return awk.BinN(x, " ", awk.UnaryN("-", g.number()))
		default:
			return awk.UnaryN("!", awk.BinN(x, "~", y))
		}
	case k < 15:
		return awk.GroupN(g.Expr(d - 1))
	case k < 16:
		return awk.NamedN(rapid.SampledFrom([]*awk.Node{awk.StrN("name"), awk.VarN("x"), awk.GroupN(awk.BinN(awk.StrN("a"), " ", awk.VarN("y")))}).Draw(g.t, "named"))
	case k < 18:
		// getline forms
		var target *awk.Node
		if g.n(0, 1, "gt") == 1 {
			target = g.lvalue(d - 1)
		}
		switch g.n(0, 2, "gk") {
		case 0:
			return awk.GetlineN(nil, target, nil)
		case 1:
			return awk.GetlineN(nil, target, rapid.SampledFrom([]*awk.Node{awk.StrN("file"), awk.VarN("x"), awk.GroupN(awk.BinN(awk.StrN("d/"), " ", awk.VarN("y"))), awk.FieldN(awk.NumN(1))}).Draw(g.t, "gfile"))
		default:
			return awk.GetlineN(g.exprAtLeastConcat(d-1), target, nil)
		}
	case k < 19:
		return awk.CallN(g.pick(builtins1[:10], "b1"), g.Expr(d-1))
	case k < 20:
		switch g.n(0, 5, "b0") {
		case 0:
			return awk.CallN("length")
		case 1:
			return awk.CallN("length", g.Expr(d-1))
		case 2:
			return awk.CallN("rand")
		case 3:
			return awk.CallN("srand")
		case 4:
			return awk.CallN("fflush")
		default:
			return awk.CallN("srand", g.Expr(d-1))
		}
	case k < 21:
		return awk.CallN(g.pick([]string{"atan2", "index"}, "b2"), g.Expr(d-1), g.Expr(d-1))
	case k < 22:
		if g.n(0, 1, "s3") == 0 {
			return awk.CallN("substr", g.Expr(d-1), g.Expr(d-1))
		}
		return awk.CallN("substr", g.Expr(d-1), g.Expr(d-1), g.Expr(d-1))
	case k < 23:
		re := g.regexOrExpr(d - 1)
		if g.n(0, 1, "sub3") == 0 {
			return awk.CallN(g.pick([]string{"sub", "gsub"}, "sg"), re, g.Expr(d-1))
		}
		return awk.CallN(g.pick([]string{"sub", "gsub"}, "sg"), re, g.Expr(d-1), g.lvalue(d-1))
	case k < 24:
		return awk.CallN("match", g.Expr(d-1), g.regexOrExpr(d-1))
	case k < 25:
		if g.n(0, 1, "sp3") == 0 {
			return awk.CallN("split", g.Expr(d-1), awk.VarN(g.array()))
		}
		return awk.CallN("split", g.Expr(d-1), awk.VarN(g.array()), g.regexOrExpr(d-1))
	case k < 26:
		args := []*awk.Node{awk.StrN(g.strContent())}
		for j := g.n(0, 3, "spn"); j > 0; j-- {
			args = append(args, g.Expr(d-1))
		}
		return awk.CallN("sprintf", args...)
	case k < 27:
		return awk.UserCallN("f", g.Expr(d-1))
	case k < 28:
		switch g.n(0, 2, "gargs") {
		case 0:
			return awk.UserCallN("g")
		case 1:
			return awk.UserCallN("g", g.Expr(d-1))
		default:
			return awk.UserCallN("g", g.Expr(d-1), awk.VarN(g.array()))
		}
	case k < 29:
		// $-chains
		x := awk.VarN(g.scalar())
		switch g.n(0, 5, "dk") {
		case 0:
			return awk.FieldN(awk.FieldN(x))
		case 1:
			return awk.IncrN("++", false, awk.FieldN(x))
		case 2:
			return awk.FieldN(awk.IncrN("++", false, x))
		case 3:
			return awk.FieldN(awk.IncrN("++", true, x))
		case 4:
			return awk.FieldN(awk.UnaryN("-", awk.NumN(1)))
		default:
			return awk.FieldN(awk.FieldN(awk.FieldN(awk.NumN(1))))
		}
	default:
		return awk.CondN(g.Expr(d-1), awk.CondN(g.Expr(d-1), g.leaf(), g.leaf()), g.Expr(d-1))
	}
}

func (g *Syn) regexOrExpr(d int) *awk.Node {
	if g.n(0, 1, "re?") == 0 {
		return awk.RegexN(g.regexContent())
	}
	return g.Expr(d)
}

func (g *Syn) exprAtLeastConcat(d int) *awk.Node {
	for j := 0; j < 8; j++ {
		e := g.Expr(d)
		if e.K != awk.Regex && e.K != awk.Getline && awk.Prec(e) >= awk.BinPrec(" ") {
			return e
		}
	}
	return awk.BinN(awk.StrN("cmd "), " ", awk.VarN("x"))
}

func (g *Syn) simpleStmt(d int) *awk.Node {
	switch g.n(0, 9, "ssk") {
	case 0, 1, 2:
		return awk.ExprS(g.Expr(d))
	case 3, 4, 5:
		kind := awk.Print
		nargs := g.n(0, 3, "pn")
		if g.n(0, 2, "pf") == 0 {
			kind = awk.Printf
			if nargs == 0 {
				nargs = 1
			}
		}
		n := &awk.Node{K: kind}
		for j := 0; j < nargs; j++ {
			n.A = append(n.A, g.Expr(d-1))
		}
		if kind == awk.Printf {
			n.A[0] = awk.StrN(g.strContent())
		}
		if g.n(0, 2, "redir") == 0 {
			n.Op = g.pick([]string{">", ">>", "|"}, "rop")
			n.Dest = g.exprAtLeastConcat(d - 1)
		}
		return n
	case 6:
		if g.n(0, 1, "dall") == 0 {
			return awk.DeleteN(g.array())
		}
		if g.n(0, 1, "d2") == 0 {
			return awk.DeleteN(g.array(), g.Expr(d-1), g.Expr(d-1))
		}
		return awk.DeleteN(g.array(), g.Expr(d-1))
	case 7:
		return awk.ExprS(awk.AssignN(g.lvalue(d-1), g.pick([]string{"=", "+=", "-=", "*=", "/=", "%=", "^="}, "aop"), g.Expr(d-1)))
	case 8:
		return awk.ExprS(awk.IncrN(g.pick([]string{"++", "--"}, "iop"), g.n(0, 1, "pre") == 0, g.lvalue(d-1)))
	default:
		return awk.ExprS(awk.AssignN(awk.VarN(g.scalar()), "=", awk.AssignN(awk.VarN(g.scalar()), "=", g.Expr(d-1))))
	}
}

func (g *Syn) body(d int) []*awk.Node {
	if d <= 0 {
		return []*awk.Node{g.simpleStmt(1)}
	}
	n := g.n(0, 3, "bodylen")
	out := []*awk.Node{}
	for j := 0; j < n; j++ {
		out = append(out, g.Stmt(d))
	}
	return out
}

// Stmt draws a statement with nesting depth at most d.
func (g *Syn) Stmt(d int) *awk.Node {
	k := g.n(0, 19, "sk")
	if d <= 0 && k >= 8 && k < 15 {
		k = 0
	}
	switch {
	case k < 8:
		return g.simpleStmt(g.MaxDepth - 1)
	case k < 10:
		hasElse := g.n(0, 1, "else") == 0
		var els []*awk.Node
		if hasElse {
			els = g.body(d - 1)
		}
		return awk.IfN(g.Expr(2), g.body(d-1), els, hasElse)
	case k < 11:
		var pre, cond, post *awk.Node
		if g.n(0, 3, "fpre") > 0 {
			pre = g.simpleStmt(2)
		}
		if g.n(0, 3, "fcond") > 0 {
			cond = g.Expr(2)
		}
		if g.n(0, 3, "fpost") > 0 {
			post = g.simpleStmt(2)
		}
		g.loop++
		b := g.body(d - 1)
		g.loop--
		return awk.ForN(pre, cond, post, b)
	case k < 12:
		g.loop++
		b := g.body(d - 1)
		g.loop--
		return awk.ForInN(g.pick([]string{"k", "i", "x"}, "fiv"), g.array(), b)
	case k < 13:
		g.loop++
		b := g.body(d - 1)
		g.loop--
		return awk.WhileN(g.Expr(2), b)
	case k < 14:
		g.loop++
		b := g.body(d - 1)
		g.loop--
		return awk.DoWhileN(b, g.Expr(2))
	case k < 15:
		return awk.BlockN(g.body(d - 1))
	case k < 16:
		if g.loop > 0 {
			return awk.Simple(g.pick([]string{awk.Break, awk.Continue}, "bc"))
		}
		return g.simpleStmt(2)
	case k < 17:
		if g.inAction || g.inFunc {
			return awk.Simple(g.pick([]string{awk.Next, awk.Nextfile}, "nn"))
		}
		return g.simpleStmt(2)
	case k < 18:
		if g.n(0, 1, "ev") == 0 {
			return awk.ExitN(nil)
		}
		return awk.ExitN(g.Expr(2))
	default:
		if g.inFunc {
			if g.n(0, 1, "rv") == 0 {
				return awk.ReturnN(nil)
			}
			return awk.ReturnN(g.Expr(2))
		}
		return g.simpleStmt(2)
	}
}

// Program draws a whole program.  The three helper functions f, g, h are
// always defined (after the drawn items).
func (g *Syn) Program() *awk.Program {
	p := &awk.Program{}
	nitems := g.n(1, 4, "items")
	for j := 0; j < nitems; j++ {
		switch g.n(0, 5, "item") {
		case 0:
			p.Begin = append(p.Begin, g.body(g.n(0, 3, "bd")))
		case 1:
			p.End = append(p.End, g.body(g.n(0, 3, "ed")))
		default:
			g.inAction = true
			a := &awk.Action{}
			switch g.n(0, 4, "pat") {
			case 0:
			case 1:
				a.Pattern = []*awk.Node{g.Expr(2)}
			case 2:
				a.Pattern = []*awk.Node{awk.RegexN(g.regexContent())}
			case 3:
				a.Pattern = []*awk.Node{g.Expr(2), g.Expr(2)}
			default:
				a.Pattern = []*awk.Node{g.Expr(3)}
			}
			if len(a.Pattern) > 0 && g.n(0, 3, "nobody") == 0 {
				a.NoBody = true
			} else {
				a.Body = g.body(g.n(0, 3, "ad"))
			}
			p.Actions = append(p.Actions, a)
			g.inAction = false
		}
	}
	g.inFunc = true
	p.Funcs = append(p.Funcs,
		&awk.Func{Name: "f", Params: []string{"p", "l"}, Body: g.body(g.n(0, 2, "fd"))},
		&awk.Func{Name: "g", Params: []string{"p", "q", "l"}, Body: append([]*awk.Node{awk.ExprS(awk.AssignN(awk.IndexN("q", awk.VarN("p")), "=", awk.NumN(1)))}, g.body(g.n(0, 2, "gd"))...)},
		&awk.Func{Name: "h", Body: g.body(g.n(0, 1, "hd"))},
	)
	g.inFunc = false
	return p
}

// SpellString renders string content with a drawn mixture of escape forms,
// every one of which the AWK lexer reads back as the same bytes.
func SpellString(t *rapid.T, s string) string {
	var sb strings.Builder
	sb.WriteByte('"')
	for i := 0; i < len(s); i++ {
		c := s[i]
		nextHex := i+1 < len(s) && isHex(s[i+1])
		nextOct := i+1 < len(s) && s[i+1] >= '0' && s[i+1] <= '7'
		mode := rapid.IntRange(0, 5).Draw(t, "spell")
		switch {
		case c == '"' || c == '\\':
			sb.WriteByte('\\')
			sb.WriteByte(c)
		case c == '\n' || c == '\r' || c == 0:
			switch {
			case c == '\n':
				sb.WriteString(`\n`)
			case c == '\r':
				sb.WriteString(`\r`)
			default:
				sb.WriteString(`\000`)
			}
		case mode == 0 && !nextHex:
			fmt.Fprintf(&sb, `\x%02x`, c)
		case mode == 1:
			fmt.Fprintf(&sb, `\%03o`, c)
		case mode == 2 && !nextOct && c < 0100:
			fmt.Fprintf(&sb, `\%o`, c)
		case mode == 3 && c == '/':
			sb.WriteString(`\/`)
		case mode == 3 && c == '\t':
			sb.WriteString(`\t`)
		case mode == 4 && c >= 'g' && c <= 'm':
			sb.WriteByte('\\') // "\z" is just "z" for letters that are not escapes
			sb.WriteByte(c)
		default:
			sb.WriteByte(c)
		}
	}
	sb.WriteByte('"')
	return sb.String()
}

func isHex(c byte) bool {
	return c >= '0' && c <= '9' || c >= 'a' && c <= 'f' || c >= 'A' && c <= 'F'
}
