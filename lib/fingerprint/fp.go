// Package fingerprint computes a deep, order-independent fingerprint of an
// arbitrary Go value by reflection, including unexported fields, following
// pointers (cycle-safe), hashing slices by content and maps by sorted content.
// It is used to check that executing a parsed Program does not modify it.
package fingerprint

import (
	"fmt"
	"hash/fnv"
	"reflect"
	"sort"
)

type state struct {
	visiting map[uintptr]bool
}

// Of returns the fingerprint of v.
func Of(v any) string {
	s := &state{visiting: map[uintptr]bool{}}
	return s.walk(reflect.ValueOf(v), 0)
}

func h(parts ...string) string {
	f := fnv.New64a()
	for _, p := range parts {
		f.Write([]byte(p))
		f.Write([]byte{0})
	}
	return fmt.Sprintf("%016x", f.Sum64())
}

func (s *state) walk(v reflect.Value, depth int) string {
	if !v.IsValid() {
		return "invalid"
	}
	if depth > 200 {
		return "deep"
	}
	t := v.Type()
	switch v.Kind() {
	case reflect.Bool:
		return fmt.Sprint(v.Bool())
	case reflect.Int, reflect.Int8, reflect.Int16, reflect.Int32, reflect.Int64:
		return fmt.Sprint(v.Int())
	case reflect.Uint, reflect.Uint8, reflect.Uint16, reflect.Uint32, reflect.Uint64, reflect.Uintptr:
		return fmt.Sprint(v.Uint())
	case reflect.Float32, reflect.Float64:
		return fmt.Sprintf("%x", v.Float())
	case reflect.String:
		return "s" + v.String()
	case reflect.Ptr:
		if v.IsNil() {
			return "nilptr"
		}
		if t.Elem().PkgPath() == "regexp" && t.Elem().Name() == "Regexp" {
			return "regexp:" + v.Elem().FieldByName("expr").String()
		}
		p := v.Pointer()
		if s.visiting[p] {
			return "cycle"
		}
		s.visiting[p] = true
		r := s.walk(v.Elem(), depth+1)
		delete(s.visiting, p)
		return "&" + r
	case reflect.Interface:
		if v.IsNil() {
			return "nilif"
		}
		return "i:" + v.Elem().Type().String() + ":" + s.walk(v.Elem(), depth+1)
	case reflect.Slice:
		if v.IsNil() {
			return "nilslice"
		}
		fallthrough
	case reflect.Array:
		parts := []string{"[", fmt.Sprint(v.Len())}
		for i := 0; i < v.Len(); i++ {
			parts = append(parts, s.walk(v.Index(i), depth+1))
		}
		return h(parts...)
	case reflect.Map:
		if v.IsNil() {
			return "nilmap"
		}
		var entries []string
		it := v.MapRange()
		for it.Next() {
			entries = append(entries, h(s.walk(it.Key(), depth+1), s.walk(it.Value(), depth+1)))
		}
		sort.Strings(entries)
		return h(append([]string{"map", fmt.Sprint(len(entries))}, entries...)...)
	case reflect.Struct:
		parts := []string{"struct", t.String()}
		for i := 0; i < v.NumField(); i++ {
			parts = append(parts, t.Field(i).Name, s.walk(v.Field(i), depth+1))
		}
		return h(parts...)
	case reflect.Func:
		if v.IsNil() {
			return "nilfunc"
		}
		return fmt.Sprintf("func@%x", v.Pointer())
	case reflect.Chan, reflect.UnsafePointer:
		return fmt.Sprintf("ptr@%x", v.Pointer())
	}
	return "kind:" + v.Kind().String()
}
