// C08 — CSV/TSV input follows RFC 4180; CSV output reads back to the same fields.
package c08

import (
	"bytes"
	"encoding/csv"
	"fmt"
	"io"
	"strconv"
	"strings"
	"testing"
	"unicode/utf8"

	"github.com/benhoyt/goawk/interp"
	"github.com/benhoyt/goawk/parser"
	"pgregory.net/rapid"

	"verif/lib/awk"
	"verif/lib/h"
	"verif/lib/sandbox"
)

func TestMain(m *testing.M)   { h.Main(m, "C08") }
func TestAll(t *testing.T)    { h.RunAll(t) }
func TestReplay(t *testing.T) { h.Replay(t) }

// ---------------------------------------------------------------------------
// input side

type InCase struct {
	Input      h.Str   `json:"input"` // without BOM
	BOM        bool    `json:"bom"`
	Sep        string  `json:"sep"`     // one character
	Comment    string  `json:"comment"` // "" or one character
	Header     bool    `json:"header"`
	TSV        bool    `json:"tsv"`
	Via        string  `json:"via"` // config | var | begin
	Deliveries [][]int `json:"deliveries,omitempty"`
	Exhaustive bool    `json:"exhaustive,omitempty"`
	Pad        int     `json:"pad,omitempty"`
	// RS/FS set by the program although CSV/TSV input mode ignores them ("-" = leave alone)
	RS h.Str `json:"rs,omitempty"`
	FS h.Str `json:"fs,omitempty"`
	// how the program takes its records: "" the main loop, "getline" a plain-getline loop in BEGIN,
	// "mixed" the main loop plus a plain getline in every action (every second record arrives by getline),
	// "dash" a loop of getline < "-" in BEGIN (the redirected form reading the same bytes)
	Reader string `json:"reader,omitempty"`
}

const bom = "\xEF\xBB\xBF"

type rec struct {
	text   string
	fields []string
	bad    int
}

const probeDump = `function dump(   i, bad) {
  printf "%d %d:%s", NR, length($0), $0
  for (i = 1; i <= NF; i++) printf " %d:%s", length($i), $i
  bad = 0
  for (i = 1; i <= NF && (i in FIELDS); i++) if ((@(FIELDS[i]) "") != ($i "")) bad++
  printf " bad=%d\n", bad
}
`

const probeEnd = `END {
  n = 0; for (k in FIELDS) n++
  printf "END %d %d", NR, n
  for (i = 1; i <= n; i++) printf " %d:%s", length(FIELDS[i]), FIELDS[i]
  printf "\n"
}
`

const probeDumpNoHeader = `function dump(   i) {
  printf "%d %d:%s", NR, length($0), $0
  for (i = 1; i <= NF; i++) printf " %d:%s", length($i), $i
  printf " bad=0\n"
}
`

const probeEndNoHeader = `END { printf "END %d 0\n", NR }
`

func probeSource(header bool, reader string) string {
	dump, end := probeDumpNoHeader, probeEndNoHeader
	if header {
		dump, end = probeDump, probeEnd
	}
	switch reader {
	case "getline":
		return dump + "BEGIN { while ((getline) > 0) dump() }\n" + end
	case "mixed":
		return dump + "{ dump(); if ((getline) > 0) dump() }\n" + end
	case "dash":
		// the redirected form: standard input named "-" (so that the delivery stays under control);
		// it does not count records, the probe does
		return dump + "BEGIN { while ((getline < \"-\") > 0) { NR++; dump() } }\n" + end
	}
	return dump + "{ dump() }\n" + end
}

func takeLen(s string) (string, string, bool) {
	i := strings.IndexByte(s, ':')
	if i < 0 {
		return "", "", false
	}
	n, err := strconv.Atoi(s[:i])
	if err != nil || i+1+n > len(s) {
		return "", "", false
	}
	return s[i+1 : i+1+n], s[i+1+n:], true
}

func parseTranscript(out string) (recs []rec, nr int, names []string, ok bool) {
	for {
		if strings.HasPrefix(out, "END ") {
			rest := out[4:]
			sp := strings.IndexByte(rest, ' ')
			if sp < 0 {
				return nil, 0, nil, false
			}
			nr, _ = strconv.Atoi(rest[:sp])
			rest = rest[sp+1:]
			// number of names
			j := strings.IndexAny(rest, " \n")
			if j < 0 {
				return nil, 0, nil, false
			}
			rest = rest[j:]
			for strings.HasPrefix(rest, " ") {
				var f string
				f, rest, ok = takeLen(rest[1:])
				if !ok {
					return nil, 0, nil, false
				}
				names = append(names, f)
			}
			return recs, nr, names, rest == "\n"
		}
		sp := strings.IndexByte(out, ' ')
		if sp < 0 {
			return nil, 0, nil, false
		}
		var r rec
		rest := out[sp+1:]
		r.text, rest, ok = takeLen(rest)
		if !ok {
			return nil, 0, nil, false
		}
		for strings.HasPrefix(rest, " ") && !strings.HasPrefix(rest, " bad=") {
			var f string
			f, rest, ok = takeLen(rest[1:])
			if !ok {
				return nil, 0, nil, false
			}
			r.fields = append(r.fields, f)
		}
		if !strings.HasPrefix(rest, " bad=") {
			return nil, 0, nil, false
		}
		nl := strings.IndexByte(rest, '\n')
		if nl < 0 {
			return nil, 0, nil, false
		}
		r.bad, _ = strconv.Atoi(rest[5:nl])
		out = rest[nl+1:]
		recs = append(recs, r)
	}
}

var progs = map[string]*parser.Program{}

func getProg(src string) (*parser.Program, error) {
	if p, ok := progs[src]; ok {
		return p, nil
	}
	p, err := parser.ParseProgram([]byte(src), nil)
	if err == nil {
		progs[src] = p
	}
	return p, err
}

func modeString(c InCase) string {
	s := "csv"
	if c.TSV {
		s = "tsv"
	}
	dflt := ","
	if c.TSV {
		dflt = "\t"
	}
	if c.Sep != dflt {
		s += " separator=" + c.Sep
	}
	if c.Comment != "" {
		s += " comment=" + c.Comment
	}
	if c.Header {
		s += " header"
	}
	return s
}

func execIn(c InCase, input []byte, chunks []int) (string, error) {
	src := probeSource(c.Header, c.Reader)
	cfg := &interp.Config{Argv0: "goawk", Environ: []string{}, NoExec: true, NoFileWrites: true, NoFileReads: true}
	sep, _ := utf8.DecodeRuneInString(c.Sep)
	var comment rune
	if c.Comment != "" {
		comment, _ = utf8.DecodeRuneInString(c.Comment)
	}
	switch c.Via {
	case "var":
		cfg.Vars = []string{"INPUTMODE", modeString(c)}
	case "begin":
		src = "BEGIN { INPUTMODE = " + awk.QuoteStr(modeString(c)) + " }\n" + src
	default:
		cfg.InputMode = interp.CSVMode
		if c.TSV {
			cfg.InputMode = interp.TSVMode
		}
		cfg.CSVInput = interp.CSVInputConfig{Separator: sep, Comment: comment, Header: c.Header}
	}
	if c.RS != "" && c.RS != "-" {
		v := string(c.RS)
		if v == "empty" {
			v = ""
		}
		cfg.Vars = append(cfg.Vars, "RS", v)
	}
	if c.FS != "" && c.FS != "-" {
		cfg.Vars = append(cfg.Vars, "FS", string(c.FS))
	}
	prog, err := getProg(src)
	if err != nil {
		return "", fmt.Errorf("harness: %w", err)
	}
	var out bytes.Buffer
	cfg.Output = &out
	cfg.Error = &out
	if chunks == nil {
		cfg.Stdin = bytes.NewReader(input)
	} else {
		cfg.Stdin = sandbox.NewChunkReader(input, chunks)
	}
	_, err = interp.ExecProgram(prog, cfg)
	return out.String(), err
}

// expectedRecords: the oracle — encoding/csv with lenient quotes for the
// fields, and byte ranges for $0.
type expRec struct {
	fields []string
	raw    string // record's own bytes without the line terminator
}

func oracle(data string, sep, comment rune) ([]expRec, error) {
	r := csv.NewReader(strings.NewReader(data))
	r.Comma = sep
	r.Comment = comment
	r.LazyQuotes = true
	r.FieldsPerRecord = -1
	var out []expRec
	prev := 0
	for {
		fields, err := r.Read()
		if err == io.EOF {
			return out, nil
		}
		if err != nil {
			return nil, err
		}
		end := int(r.InputOffset())
		// skip blank and comment lines in front of the record
		start := prev
		for start < end {
			nl := strings.IndexByte(data[start:end], '\n')
			lineEnd := end
			if nl >= 0 {
				lineEnd = start + nl + 1
			}
			line := data[start:lineEnd]
			first, _ := utf8.DecodeRuneInString(line)
			if line == "\n" || line == "\r\n" || (comment != 0 && first == comment) {
				start = lineEnd
				continue
			}
			break
		}
		raw := data[start:end]
		switch {
		case strings.HasSuffix(raw, "\r\n"):
			raw = raw[:len(raw)-2]
		case strings.HasSuffix(raw, "\n"):
			raw = raw[:len(raw)-1]
		case end == len(data) && strings.HasSuffix(raw, "\r"):
			raw = raw[:len(raw)-1] // backward-compatible: a trailing CR right before EOF is dropped
		}
		out = append(out, expRec{fields: append([]string(nil), fields...), raw: raw})
		prev = end
	}
}

func eq(a, b []string) bool {
	if len(a) != len(b) {
		return false
	}
	for i := range a {
		if a[i] != b[i] {
			return false
		}
	}
	return true
}

func runIn(x *h.Ctx, c InCase) string {
	sep, _ := utf8.DecodeRuneInString(c.Sep)
	var comment rune
	if c.Comment != "" {
		comment, _ = utf8.DecodeRuneInString(c.Comment)
	}
	data := strings.Repeat("f", c.Pad) + string(c.Input)
	if c.Pad > 0 && (c.Sep == "f" || c.Comment == "f") {
		x.Discard("filler collides")
		return ""
	}
	want, err := oracle(data, sep, comment)
	if err != nil {
		x.Discard("encoding/csv rejects the input: " + h.Trunc(err.Error(), 40))
		return ""
	}
	var wantNames []string
	if c.Header {
		if len(want) > 0 {
			wantNames = want[0].fields
			want = want[1:]
		}
	}
	full := data
	if c.BOM {
		full = bom + data
	}
	if h.KFOpen("KF-C08-X") && c.BOM {
		x.Excluded("KF-C08-1")
		return ""
	}
	describe := func() string {
		return fmt.Sprintf("mode=%q via=%s bom=%v RS=%q FS=%q (both ignored in this mode) input=%q", modeString(c), c.Via, c.BOM, c.RS, c.FS, h.Trunc(data, 400))
	}
	base, err := execIn(c, []byte(full), nil)
	if err != nil {
		return fmt.Sprintf("run-time error: %v\n%s", err, describe())
	}
	recs, nr, names, ok := parseTranscript(base)
	if !ok {
		return fmt.Sprintf("harness: cannot parse transcript %q\n%s", h.Trunc(base, 300), describe())
	}
	if nr != len(recs) {
		return fmt.Sprintf("NR=%d but %d records seen\n%s", nr, len(recs), describe())
	}
	if len(recs) != len(want) {
		return fmt.Sprintf("%d records read, an RFC 4180 reader (lenient quotes) finds %d\ngoawk: %s\nreader: %s\n%s", len(recs), len(want), h.Trunc(fmt.Sprintf("%q", recs), 400), h.Trunc(fmt.Sprintf("%q", want), 400), describe())
	}
	distinctNames := true
	seen := map[string]bool{}
	for _, n := range wantNames {
		if seen[n] {
			distinctNames = false
		}
		seen[n] = true
	}
	for i, r := range recs {
		w := want[i]
		if !eq(r.fields, w.fields) {
			return fmt.Sprintf("record %d: fields %s, an RFC 4180 reader (lenient quotes) gives %s\n%s", i+1, h.Trunc(fmt.Sprintf("%q", r.fields), 300), h.Trunc(fmt.Sprintf("%q", w.fields), 300), describe())
		}
		okText := r.text == w.raw || r.text == strings.ReplaceAll(w.raw, "\r\n", "\n")
		if !okText {
			return fmt.Sprintf("record %d: $0 = %q is not the record's own text %q (without its line terminator)\n%s", i+1, h.Trunc(r.text, 300), h.Trunc(w.raw, 300), describe())
		}
		if c.Header && distinctNames && r.bad != 0 {
			return fmt.Sprintf("record %d: @\"name\" lookups disagree with the fields for %d names\nheader: %q fields: %q\n%s", i+1, r.bad, wantNames, r.fields, describe())
		}
	}
	if c.Header && len(recs) > 0 && !eq(names, wantNames) {
		return fmt.Sprintf("FIELDS = %q but the header row is %q\n%s", names, wantNames, describe())
	}
	// chunking independence
	nontrivial := false
	check := func(chunks []int) string {
		got, err := execIn(c, []byte(full), chunks)
		if err != nil {
			return fmt.Sprintf("run-time error under chunking %v: %v\n%s", chunks, err, describe())
		}
		if got != base {
			return fmt.Sprintf("the records depend on how the input is delivered\nchunks %v\none read: %q\nchunked:  %q\n%s", chunks, h.Trunc(base, 400), h.Trunc(got, 400), describe())
		}
		return ""
	}
	if c.Exhaustive {
		n := len(full)
		if n > 13 {
			x.Discard("too long for exhaustive chunking")
			return ""
		}
		if n > 0 {
			for mask := uint64(0); mask < 1<<uint(n-1); mask++ {
				if msg := check(sandbox.Chunking(n, mask)); msg != "" {
					return msg
				}
			}
		}
		nontrivial = true
	}
	for _, d := range c.Deliveries {
		if msg := check(d); msg != "" {
			return msg
		}
	}
	if strings.ContainsAny(data, "\"") || c.BOM || c.Comment != "" && strings.Contains(data, c.Comment) || strings.Contains(data, "\n\n") {
		nontrivial = true
	}
	x.Class("via-" + c.Via)
	if c.Reader != "" {
		x.Class("reader-" + c.Reader)
	}
	if c.BOM {
		x.Class("bom")
	}
	if c.Header {
		x.Class("header")
	}
	if nontrivial && len(recs) > 0 {
		x.Nontrivial("")
	}
	return ""
}

// generators

var seps = []string{",", ",", ",", "\t", ";", "|", "é"}
var comments = []string{"", "", "#", ";", "é", "!"}

func genField(t *rapid.T, sep string) string {
	plain := []string{"a", "b", "12", "x y", "", "é", " lead", "trail ", "3.5", "日本", "q"}
	k := rapid.IntRange(0, 9).Draw(t, "fk")
	switch {
	case k < 5:
		return rapid.SampledFrom(plain).Draw(t, "plain")
	case k < 8:
		// quoted, possibly with embedded specials
		inner := ""
		for i := rapid.IntRange(0, 3).Draw(t, "ninner"); i > 0; i-- {
			inner += rapid.SampledFrom([]string{"a", sep, "\"\"", "\n", "\r\n", "\r", " ", "b", "#", ""}).Draw(t, "inner")
		}
		return "\"" + inner + "\""
	case k < 9:
		// bare quote in an unquoted field, or garbage after a closing quote (lenient)
		return rapid.SampledFrom([]string{"a\"b", "\"a\"b", "a\"", "\"\"x", "\"a\"\"", "x\"y\"z"}).Draw(t, "lazy")
	default:
		return "\"unterminated"
	}
}

func genCSV(t *rapid.T, sep, comment string) string {
	var sb strings.Builder
	n := rapid.IntRange(0, 5).Draw(t, "nlines")
	for i := 0; i < n; i++ {
		switch k := rapid.IntRange(0, 9).Draw(t, "lk"); {
		case k < 1:
			// blank line
		case k < 2 && comment != "":
			sb.WriteString(comment + "comment " + sep)
		default:
			nf := rapid.IntRange(1, 4).Draw(t, "nf")
			for j := 0; j < nf; j++ {
				if j > 0 {
					sb.WriteString(sep)
				}
				sb.WriteString(genField(t, sep))
			}
		}
		if i < n-1 || rapid.IntRange(0, 3).Draw(t, "lastnl") > 0 {
			sb.WriteString(rapid.SampledFrom([]string{"\n", "\n", "\n", "\r\n"}).Draw(t, "nl"))
		} else if rapid.IntRange(0, 5).Draw(t, "trailcr") == 0 {
			sb.WriteString("\r")
		}
	}
	return sb.String()
}

var rawAlpha = []string{",", ";", "|", "\t", "\"", "\r", "\n", "#", "a", "b", "é", "\xff", " "}

func genRaw(t *rapid.T) string {
	var sb strings.Builder
	for i := rapid.IntRange(0, 16).Draw(t, "nraw"); i > 0; i-- {
		sb.WriteString(rapid.SampledFrom(rawAlpha).Draw(t, "raw"))
	}
	return sb.String()
}

func genDeliveries(t *rapid.T, n int) [][]int {
	var d [][]int
	if n > 1 {
		for i := rapid.IntRange(1, 4).Draw(t, "nsplits"); i > 0; i-- {
			d = append(d, []int{rapid.IntRange(1, n-1).Draw(t, "split"), 1 << 30})
		}
		d = append(d, []int{1})
		if rapid.Bool().Draw(t, "rand") {
			var ch []int
			for left := n; left > 0; {
				k := rapid.IntRange(1, 5).Draw(t, "ch")
				ch = append(ch, k)
				left -= k
			}
			d = append(d, append(ch, 1<<30))
		}
	}
	return d
}

func genIn(t *rapid.T) InCase {
	c := InCase{Sep: rapid.SampledFrom(seps).Draw(t, "sep"), Via: rapid.SampledFrom([]string{"config", "config", "var", "begin"}).Draw(t, "via")}
	c.Comment = rapid.SampledFrom(comments).Draw(t, "comment")
	if c.Comment == c.Sep {
		c.Comment = ""
	}
	if c.Sep == "\t" {
		c.TSV = true
	}
	if (c.Via == "var" || c.Via == "begin") && (c.Sep == "\t" && !c.TSV) {
		c.Via = "config"
	}
	c.Header = rapid.IntRange(0, 3).Draw(t, "header") == 0
	c.BOM = rapid.IntRange(0, 3).Draw(t, "bom") == 0
	c.Reader = rapid.SampledFrom([]string{"", "", "", "getline", "mixed", "dash"}).Draw(t, "reader")
	if rapid.IntRange(0, 3).Draw(t, "setrs") == 0 {
		c.RS = h.Str(rapid.SampledFrom([]string{"empty", ";", "a", "x+", "\n\n"}).Draw(t, "rs"))
	}
	if rapid.IntRange(0, 3).Draw(t, "setfs") == 0 {
		c.FS = h.Str(rapid.SampledFrom([]string{";", "a", " ", "[,;]", "\t"}).Draw(t, "fs"))
	}
	if rapid.IntRange(0, 4).Draw(t, "rawin") == 0 {
		c.Input = h.Str(genRaw(t))
	} else {
		c.Input = h.Str(genCSV(t, c.Sep, c.Comment))
	}
	n := len(c.Input)
	if c.BOM {
		n += 3
	}
	if n <= 10 && rapid.IntRange(0, 2).Draw(t, "exh") == 0 {
		c.Exhaustive = true
	} else {
		c.Deliveries = genDeliveries(t, n)
	}
	return c
}

func genInEdge(t *rapid.T) InCase {
	c := genIn(t)
	c.Exhaustive = false
	c.Pad = 65536 - rapid.IntRange(0, 30).Draw(t, "before")
	if c.BOM {
		c.Pad -= 3
	}
	c.Deliveries = [][]int{{0}, {65536, 1 << 30}, {4096}}
	return c
}

// ---------------------------------------------------------------------------
// output side: write then read back

type OutCase struct {
	Records [][]h.Str `json:"records"`
	Sep     string    `json:"sep"`
	TSV     bool      `json:"tsv"`
	Rebuild bool      `json:"rebuild"` // via $1 = $1 ... rebuilding $0 instead of print a, b, c
	CRLF    bool      `json:"crlf"`    // Config.NewlineOutput = CRLF: records end in \r\n, which the input mode accepts
}

var outPieces = []string{"a", "b", ",", ";", "|", "\t", "\"", "\n", " ", "", "é", "\x00", "\xff", "x y", "#", "12", "'", "\ufeff", "\xef\xbb", "\\.", "\v"}

func genOut(t *rapid.T) OutCase {
	c := OutCase{Sep: rapid.SampledFrom([]string{",", ",", ";", "|", "é", "\t"}).Draw(t, "sep"), Rebuild: rapid.IntRange(0, 2).Draw(t, "rebuild") == 0, CRLF: rapid.IntRange(0, 2).Draw(t, "crlf") == 0}
	c.TSV = c.Sep == "\t"
	for r := rapid.IntRange(1, 3).Draw(t, "nrec"); r > 0; r-- {
		var rec []h.Str
		for f := rapid.IntRange(1, 6).Draw(t, "nf"); f > 0; f-- {
			var sb strings.Builder
			for p := rapid.IntRange(0, 3).Draw(t, "np"); p > 0; p-- {
				sb.WriteString(rapid.SampledFrom(outPieces).Draw(t, "op"))
			}
			rec = append(rec, h.Str(sb.String()))
		}
		c.Records = append(c.Records, rec)
	}
	return c
}

func runOut(x *h.Ctx, c OutCase) string {
	mode := "csv"
	if c.TSV {
		mode = "tsv"
	}
	ms := mode
	if !(c.Sep == "," && !c.TSV) && !(c.Sep == "\t" && c.TSV) {
		ms += " separator=" + c.Sep
	}
	var src strings.Builder
	src.WriteString("BEGIN { OUTPUTMODE = " + awk.QuoteStr(ms) + "\n")
	needsQuoting := false
	for _, rec := range c.Records {
		if h.KFOpen("KF-C08-Y") && len(rec) == 1 && rec[0] == "" {
			x.Excluded("KF-C08-2")
			return ""
		}
		if c.Rebuild {
			src.WriteString("  $0 = \"\"; ")
			for i, f := range rec {
				fmt.Fprintf(&src, "$%d = %s; ", i+1, awk.QuoteStr(string(f)))
			}
			src.WriteString("print\n")
		} else {
			parts := make([]string, len(rec))
			for i, f := range rec {
				parts[i] = awk.QuoteStr(string(f))
			}
			src.WriteString("  print " + strings.Join(parts, ", ") + "\n")
		}
		for _, f := range rec {
			if strings.ContainsAny(string(f), c.Sep+"\"\n") || strings.HasPrefix(string(f), " ") {
				needsQuoting = true
			}
		}
		if len(rec) == 1 && rec[0] == "" {
			needsQuoting = true
		}
	}
	src.WriteString("}\n")
	prog, err := parser.ParseProgram([]byte(src.String()), nil)
	if err != nil {
		return fmt.Sprintf("harness: %v\n%s", err, src.String())
	}
	var out bytes.Buffer
	wcfg := &interp.Config{Stdin: strings.NewReader(""), Output: &out, Error: &out, Argv0: "goawk", Environ: []string{}}
	if c.CRLF {
		wcfg.NewlineOutput = interp.CRLFNewlineMode
	}
	if _, err := interp.ExecProgram(prog, wcfg); err != nil {
		return fmt.Sprintf("writing failed: %v\nprogram: %s", err, src.String())
	}
	written := out.String()
	// read back with goawk's own input mode
	in := InCase{Sep: c.Sep, TSV: c.TSV, Via: "config"}
	back, err := execIn(in, []byte(written), nil)
	if err != nil {
		return fmt.Sprintf("reading back failed: %v\nwritten: %q", err, written)
	}
	recs, _, _, ok := parseTranscript(back)
	if !ok {
		return fmt.Sprintf("harness: cannot parse transcript %q", h.Trunc(back, 300))
	}
	wantStr := make([][]string, len(c.Records))
	for i, rec := range c.Records {
		for _, f := range rec {
			wantStr[i] = append(wantStr[i], string(f))
		}
	}
	show := func() string {
		return fmt.Sprintf("program: %s\nwritten bytes: %q\nread back: %v", src.String(), written, recs)
	}
	if len(recs) != len(wantStr) {
		return fmt.Sprintf("wrote %d records, read back %d\n%s", len(wantStr), len(recs), show())
	}
	for i := range recs {
		if !eq(recs[i].fields, wantStr[i]) {
			return fmt.Sprintf("record %d written as %q reads back as %q\n%s", i+1, wantStr[i], recs[i].fields, show())
		}
	}
	// and an independent RFC 4180 reader agrees
	sep, _ := utf8.DecodeRuneInString(c.Sep)
	r := csv.NewReader(strings.NewReader(written))
	r.Comma = sep
	r.FieldsPerRecord = -1
	all, err := r.ReadAll()
	if err != nil {
		return fmt.Sprintf("the written bytes are not valid CSV for a strict reader: %v\n%s", err, show())
	}
	if len(all) != len(wantStr) {
		return fmt.Sprintf("a strict CSV reader finds %d records in the written bytes, %d were written\n%s", len(all), len(wantStr), show())
	}
	for i := range all {
		if !eq(all[i], wantStr[i]) {
			return fmt.Sprintf("a strict CSV reader decodes record %d as %q, written was %q\n%s", i+1, all[i], wantStr[i], show())
		}
	}
	if needsQuoting {
		x.Nontrivial("")
	}
	return ""
}

func init() {
	h.Prop("input_vs_rfc4180_reader", 30000, 500000, genIn, runIn)
	h.Prop("input_buffer_edge_64k", 200, 3000, genInEdge, runIn)
	h.Prop("output_roundtrip", 20000, 300000, genOut, runOut)
}
