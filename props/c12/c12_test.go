// C12 — NoExec, NoFileWrites and NoFileReads confine every program.
package c12

import (
	"bytes"
	"fmt"
	"os"
	"path/filepath"
	"sort"
	"strings"
	"sync"
	"testing"

	"github.com/benhoyt/goawk/interp"
	"github.com/benhoyt/goawk/parser"
	"pgregory.net/rapid"

	"verif/lib/awk"
	"verif/lib/h"
)

func TestMain(m *testing.M)   { h.Main(m, "C12") }
func TestAll(t *testing.T)    { h.RunAll(t) }
func TestReplay(t *testing.T) { h.Replay(t) }

// One step of a straight-line program.
type Step struct {
	Kind  string `json:"kind"`
	N     int    `json:"n"`     // which file / sentinel
	Style int    `json:"style"` // how the name is computed at run time
}

// kinds and what they need
//
//	write:  print>  print>>  printf>  print>reopen (close then > again)
//	exec:   system  print|  cmd|getline  cmd|getline-var
//	read:   getline<  getline-var<
//	free:   close  fflush  getline-dash  print-devstdout  print-devstderr  print-dash
var stepKinds = []string{"print>", "print>>", "printf>", "print>reopen", "system", "print|", "cmd|getline", "cmd|getline-var", "getline<", "getline-var<", "close", "fflush", "getline-dash",
	"getline-plain", "getline-plain-var", "getline-arr<", "getline-field<", "cmd|getline-arr", "printf|", "print>>new"}
var finalKinds = []string{"print-devstdout", "print-devstderr", "print-dash"}

func need(kind string) string {
	switch kind {
	case "print>", "print>>", "printf>", "print>reopen", "print>>new":
		return "write"
	case "system", "print|", "cmd|getline", "cmd|getline-var", "cmd|getline-arr", "printf|":
		return "exec"
	case "getline<", "getline-var<", "getline-arr<", "getline-field<":
		return "read"
	case "getline-plain", "getline-plain-var":
		return "operand" // a read only when there is a file operand
	}
	return ""
}

type Case struct {
	Steps      []Step `json:"steps"`
	NoExec     bool   `json:"no_exec"`
	NoWrites   bool   `json:"no_writes"`
	NoReads    bool   `json:"no_reads"`
	CustomOpen bool   `json:"custom_open"`
	How        string `json:"how"`   // execprogram | execute | reused (an earlier run with all flags off, then this one) | reused-after-restricted (earlier run with all flags on)
	Where      string `json:"where"` // begin | rule | function | end
	Operand    string `json:"operand"` // "", "args" (Config.Args) or "argv" (ARGV set in BEGIN): a file operand for the main loop / plain getline; "args-eq" / "argv-eq": the file is called operand=2024 (relative to the working directory) and Config.NoArgVars makes it a file operand, not an assignment
	Shell      bool   `json:"shell"`   // a custom Config.ShellCommand that leaves a trace of every start
}

func genCase(t *rapid.T) Case {
	c := Case{NoExec: rapid.Bool().Draw(t, "noexec"), NoWrites: rapid.Bool().Draw(t, "nowrites"), NoReads: rapid.Bool().Draw(t, "noreads"), CustomOpen: rapid.Bool().Draw(t, "customopen"),
		How: rapid.SampledFrom([]string{"execprogram", "execute", "reused", "reused-after-restricted"}).Draw(t, "how"), Where: rapid.SampledFrom([]string{"begin", "rule", "function", "end"}).Draw(t, "where")}
	n := rapid.IntRange(1, 8).Draw(t, "nsteps")
	for i := 0; i < n; i++ {
		c.Steps = append(c.Steps, Step{Kind: rapid.SampledFrom(stepKinds).Draw(t, "kind"), N: rapid.IntRange(0, 2).Draw(t, "n"), Style: rapid.IntRange(0, 7).Draw(t, "style")})
	}
	if rapid.IntRange(0, 3).Draw(t, "final") == 0 {
		c.Steps = append(c.Steps, Step{Kind: rapid.SampledFrom(finalKinds).Draw(t, "fkind")})
	}
	c.Operand = rapid.SampledFrom([]string{"", "", "", "args", "args", "argv", "argv", "args-eq", "argv-eq"}).Draw(t, "operand")
	c.Shell = rapid.Bool().Draw(t, "shell")
	return c
}

// name expression computed at run time: D is the sandbox directory (a variable), base the file name
func nameExpr(base string, style int) string {
	switch style {
	case 0:
		return fmt.Sprintf("(D \"/%s\")", base)
	case 1:
		return fmt.Sprintf("sprintf(\"%%s/%%s\", D, %s)", awk.QuoteStr(base))
	case 2:
		return fmt.Sprintf("(names[%s])", awk.QuoteStr(base)) // array element set up in BEGIN
	case 3:
		return fmt.Sprintf("(D \"/\" substr(%s, 2))", awk.QuoteStr("x"+base))
	case 5:
		// the same file reached through a path that starts like a device name
		return fmt.Sprintf("(\"/dev/..\" D \"/%s\")", base)
	case 6:
		return fmt.Sprintf("(\"/dev/shm/../..\" D \"/./%s\")", base)
	case 7:
		return fmt.Sprintf("(D \"//%s\")", base)
	default:
		return fmt.Sprintf("(ENVIRON[\"SANDBOX\"] \"/%s\")", base)
	}
}

func stmt(s Step, k int) string {
	w := fmt.Sprintf("w%d", s.N)
	r := fmt.Sprintf("secret%d", s.N)
	sent := fmt.Sprintf("sentinel%d_%d", k, s.N)
	switch s.Kind {
	case "print>":
		return fmt.Sprintf("print \"data%d\" > %s", k, nameExpr(w, s.Style))
	case "print>>":
		return fmt.Sprintf("print \"data%d\" >> %s", k, nameExpr(w, s.Style))
	case "printf>":
		return fmt.Sprintf("printf \"%%s\\n\", \"data%d\" > %s", k, nameExpr(w, s.Style))
	case "print>reopen":
		return fmt.Sprintf("close(%s); print \"again%d\" > %s", nameExpr(w, s.Style), k, nameExpr(w, (s.Style+1)%8))
	case "system":
		return fmt.Sprintf("system(\"echo hi > \" %s)", nameExpr(sent, s.Style))
	case "print|":
		return fmt.Sprintf("cmd_ = \"cat > \" %s; print \"piped\" | cmd_; close(cmd_)", nameExpr(sent, s.Style))
	case "cmd|getline":
		return fmt.Sprintf("cmd_ = \"echo hi > \" %s \"; cat \" %s; cmd_ | getline; print \"got\", $0; close(cmd_)", nameExpr(sent, s.Style), nameExpr(r, s.Style))
	case "cmd|getline-var":
		return fmt.Sprintf("cmd_ = \"echo hi > \" %s \"; cat \" %s; cmd_ | getline v_; print \"got\", v_; close(cmd_)", nameExpr(sent, s.Style), nameExpr(r, s.Style))
	case "getline<":
		return fmt.Sprintf("r_ = (getline < %s); print \"read\", r_, $0", nameExpr(r, s.Style))
	case "getline-var<":
		return fmt.Sprintf("r_ = (getline v_ < %s); print \"read\", r_, v_", nameExpr(r, s.Style))
	case "getline-arr<":
		return fmt.Sprintf("r_ = (getline arr_[%d] < %s); print \"read\", r_, arr_[%d]", k, nameExpr(r, s.Style), k)
	case "getline-field<":
		return fmt.Sprintf("r_ = (getline $2 < %s); print \"read\", r_, $2", nameExpr(r, s.Style))
	case "cmd|getline-arr":
		return fmt.Sprintf("cmd_ = \"echo hi > \" %s \"; cat \" %s; cmd_ | getline arr_[%d]; print \"got\", arr_[%d]; close(cmd_)", nameExpr(sent, s.Style), nameExpr(r, s.Style), k, k)
	case "printf|":
		return fmt.Sprintf("cmd_ = \"cat > \" %s; printf \"%%s\", \"piped\" | cmd_; close(cmd_)", nameExpr(sent, s.Style))
	case "print>>new":
		return fmt.Sprintf("print \"data%d\" >> %s", k, nameExpr(fmt.Sprintf("new%d", s.N), s.Style))
	case "getline-plain":
		return "r_ = getline; print \"plain\", r_, $0"
	case "getline-plain-var":
		return "r_ = (getline v_); print \"plain\", r_, v_"
	case "close":
		return fmt.Sprintf("close(%s)", nameExpr(w, s.Style))
	case "fflush":
		return "fflush()"
	case "getline-dash":
		return "r_ = (getline v_ < \"-\"); print \"stdin\", r_, v_"
	case "print-devstdout":
		return "print \"to-devstdout\" > \"/dev/stdout\""
	case "print-devstderr":
		return "print \"to-devstderr\" > \"/dev/stderr\""
	case "print-dash":
		return "print \"to-dash\" > \"-\""
	}
	panic("bad kind " + s.Kind)
}

func program(c Case) string {
	var body strings.Builder
	for k, s := range c.Steps {
		fmt.Fprintf(&body, "  %s\n  print \"mark %d\"\n", stmt(s, k), k+1)
	}
	var sb strings.Builder
	sb.WriteString("BEGIN { for (i_ = 0; i_ < 3; i_++) { names[\"w\" i_] = D \"/w\" i_; names[\"secret\" i_] = D \"/secret\" i_; names[\"new\" i_] = D \"/new\" i_; for (k_ = 0; k_ < 10; k_++) names[\"sentinel\" k_ \"_\" i_] = D \"/sentinel\" k_ \"_\" i_ } }\n")
	if c.Operand == "argv" {
		sb.WriteString("BEGIN { ARGV[1] = D \"/operand\"; ARGC = 2 }\n")
	}
	if c.Operand == "argv-eq" {
		sb.WriteString("BEGIN { ARGV[1] = \"operand=2024\"; ARGC = 2 }\n")
	}
	switch c.Where {
	case "begin":
		sb.WriteString("BEGIN {\n" + body.String() + "}\n")
	case "rule":
		sb.WriteString("NR == 1 {\n" + body.String() + "}\n")
	case "function":
		sb.WriteString("function doit(   v_, r_, cmd_, arr_) {\n" + body.String() + "}\nBEGIN { doit() }\n")
	case "end":
		sb.WriteString("END {\n" + body.String() + "}\n")
	}
	if c.Operand != "" {
		sb.WriteString("{ print \"rec\", FILENAME, $0 }\n")
	}
	return sb.String()
}

type opened struct {
	name string
	flag int
}

func snapshot(dir string) map[string]string {
	m := map[string]string{}
	entries, _ := os.ReadDir(dir)
	for _, e := range entries {
		d, _ := os.ReadFile(filepath.Join(dir, e.Name()))
		m[e.Name()] = string(d)
	}
	return m
}

func run(x *h.Ctx, c Case) string {
	dir := h.TempDir("c12")
	defer os.RemoveAll(dir)
	for i := 0; i < 3; i++ {
		os.WriteFile(filepath.Join(dir, fmt.Sprintf("secret%d", i)), []byte(fmt.Sprintf("SECRET-CONTENT-%d\n", i)), 0o644)
		if i < 2 {
			os.WriteFile(filepath.Join(dir, fmt.Sprintf("w%d", i)), []byte("old\n"), 0o644)
		}
	}
	os.WriteFile(filepath.Join(dir, "operand"), []byte("SECRET-OPERAND-1\nSECRET-OPERAND-2\n"), 0o644)
	operandBase := "operand"
	if strings.HasSuffix(c.Operand, "-eq") {
		// a file whose name looks like an assignment; it has to be named relative to the working directory (one
		// case runs at a time in this process)
		operandBase = "operand=2024"
		os.WriteFile(filepath.Join(dir, operandBase), []byte("SECRET-OPERAND-1\nSECRET-OPERAND-2\n"), 0o644)
		if cwd, err := os.Getwd(); err == nil {
			defer os.Chdir(cwd)
		}
		if err := os.Chdir(dir); err != nil {
			return "harness: " + err.Error()
		}
	}
	os.WriteFile(filepath.Join(dir, "mysh"), []byte("#!/bin/sh\necho started >> "+filepath.Join(dir, "sentinel-shell")+"\nexec /bin/sh \"$@\"\n"), 0o755)
	before := snapshot(dir)
	src := program(c)
	prog, err := parser.ParseProgram([]byte(src), nil)
	if err != nil {
		return "harness: " + err.Error() + "\n" + src
	}
	var mu sync.Mutex
	var log, staleLog []opened
	var out, errOut bytes.Buffer
	mk := func(noExec, noWrites, noReads bool, o, e *bytes.Buffer) *interp.Config {
		cfg := &interp.Config{Stdin: strings.NewReader("stdin-line-1\nstdin-line-2\nstdin-line-3\n"), Output: o, Error: e, Argv0: "goawk", Vars: []string{"D", dir},
			Environ: []string{"SANDBOX", dir, "PATH", "/usr/bin:/bin"}, NoExec: noExec, NoFileWrites: noWrites, NoFileReads: noReads}
		if c.Operand == "args" {
			cfg.Args = []string{filepath.Join(dir, "operand")}
		}
		if c.Operand == "args-eq" {
			cfg.Args = []string{"operand=2024"}
		}
		cfg.NoArgVars = strings.HasSuffix(c.Operand, "-eq")
		if c.Shell {
			cfg.ShellCommand = []string{filepath.Join(dir, "mysh"), "-c"}
		}
		if c.CustomOpen {
			cfg.OpenFile = func(name string, flag int, perm os.FileMode) (*os.File, error) {
				mu.Lock()
				log = append(log, opened{name, flag})
				mu.Unlock()
				return os.OpenFile(name, flag, perm)
			}
		}
		return cfg
	}
	var runErr error
	switch c.How {
	case "execprogram":
		_, runErr = interp.ExecProgram(prog, mk(c.NoExec, c.NoWrites, c.NoReads, &out, &errOut))
	case "execute":
		it, _ := interp.New(prog)
		_, runErr = it.Execute(mk(c.NoExec, c.NoWrites, c.NoReads, &out, &errOut))
	default:
		// an earlier, unrestricted run on the same interpreter; then the sandbox is restored and the flags set
		it, _ := interp.New(prog)
		var o2, e2 bytes.Buffer
		restricted := c.How == "reused-after-restricted"
		// the earlier run has the opposite OpenFile arrangement: its own recording function if this run has none, none if this run has one
		firstCfg := mk(restricted, restricted, restricted, &o2, &e2)
		if c.CustomOpen {
			firstCfg.OpenFile = nil
		} else {
			firstCfg.OpenFile = func(name string, flag int, perm os.FileMode) (*os.File, error) {
				mu.Lock()
				staleLog = append(staleLog, opened{name, flag})
				mu.Unlock()
				return os.OpenFile(name, flag, perm)
			}
		}
		it.Execute(firstCfg)
		mu.Lock()
		staleLog = nil
		mu.Unlock()
		for name := range snapshot(dir) {
			os.Remove(filepath.Join(dir, name))
		}
		for name, content := range before {
			os.WriteFile(filepath.Join(dir, name), []byte(content), 0o755)
		}
		mu.Lock()
		log = nil
		mu.Unlock()
		it.ResetVars()
		_, runErr = it.Execute(mk(c.NoExec, c.NoWrites, c.NoReads, &out, &errOut))
	}
	after := snapshot(dir)
	output := out.String()
	describe := func() string {
		return fmt.Sprintf("flags: NoExec=%v NoFileWrites=%v NoFileReads=%v customOpenFile=%v how=%s\nprogram (D = sandbox dir):\n%s\nstdout:\n%s\nstderr: %s\nerror: %v", c.NoExec, c.NoWrites, c.NoReads, c.CustomOpen, c.How, src, h.Trunc(output, 1500), h.Trunc(errOut.String(), 300), runErr)
	}
	forbidden := func(kind string) bool {
		switch need(kind) {
		case "exec":
			return c.NoExec
		case "write":
			return c.NoWrites
		case "read":
			return c.NoReads
		case "operand":
			return c.NoReads && c.Operand != ""
		}
		return false
	}
	// ---- independent confinement checks
	if c.NoExec {
		for name := range after {
			if strings.HasPrefix(name, "sentinel") {
				return fmt.Sprintf("NoExec is set but a command ran (it created %s)\n%s", name, describe())
			}
		}
	}
	if c.NoWrites {
		for name, content := range after {
			if strings.HasPrefix(name, "sentinel") {
				continue // created by a child process, which NoFileWrites does not govern
			}
			if old, ok := before[name]; !ok || old != content {
				return fmt.Sprintf("NoFileWrites is set but %s was created or modified (%q -> %q)\n%s", name, before[name], content, describe())
			}
		}
		for name := range before {
			if _, ok := after[name]; !ok {
				return fmt.Sprintf("NoFileWrites is set but %s disappeared\n%s", name, describe())
			}
		}
	}
	if c.NoReads && !(!c.NoExec) {
		// with commands forbidden too, no secret can legitimately reach the output
		if strings.Contains(output, "SECRET") {
			return fmt.Sprintf("NoFileReads (and NoExec) are set but file content reached the output\n%s", describe())
		}
	}
	if c.NoReads {
		for _, l := range strings.Split(output, "\n") {
			if strings.HasPrefix(l, "read 1") || (strings.HasPrefix(l, "rec ") && strings.Contains(l, "operand")) || strings.HasPrefix(l, "plain 1 SECRET") {
				return fmt.Sprintf("NoFileReads is set but a file was read (%q)\n%s", l, describe())
			}
		}
	}
	// ---- the marker protocol: the program is straight-line, so the first forbidden statement is known
	firstForbidden := -1
	main := c.Where == "rule" || c.Where == "end"
	operandFirst := c.Operand != "" && c.NoReads && main // the operand is opened before the rule/END body runs
	for k, s := range c.Steps {
		if forbidden(s.Kind) {
			firstForbidden = k
			break
		}
	}
	wantMarks := len(c.Steps)
	mustFail := false
	switch {
	case operandFirst:
		wantMarks, mustFail = 0, true
	case firstForbidden >= 0:
		wantMarks, mustFail = firstForbidden, true
	case c.Operand != "" && c.NoReads:
		mustFail = true // all steps ran (BEGIN/function), then the operand cannot be opened
	}
	gotMarks := 0
	for k := 1; k <= len(c.Steps); k++ {
		if strings.Contains(output, fmt.Sprintf("mark %d\n", k)) {
			gotMarks = k
		} else {
			break
		}
	}
	lastIsFinal := len(c.Steps) > 0 && need(c.Steps[len(c.Steps)-1].Kind) == "" && strings.HasPrefix(c.Steps[len(c.Steps)-1].Kind, "print-")
	if lastIsFinal && c.NoWrites && firstForbidden < 0 && !operandFirst {
		// writing to "-", /dev/stdout, /dev/stderr under NoFileWrites may be allowed or denied: both confine
		if gotMarks < len(c.Steps)-1 {
			return fmt.Sprintf("%d marks printed, expected at least %d\n%s", gotMarks, len(c.Steps)-1, describe())
		}
	} else {
		if gotMarks != wantMarks {
			return fmt.Sprintf("%d marks printed, expected %d (the first statement the flags forbid is #%d)\n%s", gotMarks, wantMarks, firstForbidden+1, describe())
		}
		if mustFail && runErr == nil {
			return fmt.Sprintf("a forbidden operation did not end the run with an error\n%s", describe())
		}
		if !mustFail && runErr != nil {
			return fmt.Sprintf("nothing forbidden was attempted, yet the run failed\n%s", describe())
		}
	}
	// positive controls: allowed operations really happen
	if !mustFail {
		for k, s := range c.Steps {
			if need(s.Kind) == "exec" {
				if _, ok := after[fmt.Sprintf("sentinel%d_%d", k, s.N)]; !ok {
					return fmt.Sprintf("step %d (%s) is allowed but its command left no trace\n%s", k+1, s.Kind, describe())
				}
				if _, ok := after["sentinel-shell"]; c.Shell && !ok {
					return fmt.Sprintf("step %d (%s) ran a command, but not through the configured ShellCommand\n%s", k+1, s.Kind, describe())
				}
			}
		}
	}
	mu.Lock()
	nstale := len(staleLog)
	mu.Unlock()
	if nstale > 0 {
		return fmt.Sprintf("files were opened through the OpenFile function of an EARLIER run on the same Interpreter (%v), not through this run's configuration\n%s", staleLog, describe())
	}
	// ---- custom OpenFile sees every file the program touches
	if c.CustomOpen {
		seen := map[string]int{}
		mu.Lock()
		for _, o := range log {
			seen[filepath.Base(o.name)] |= 1
			if o.flag&(os.O_WRONLY|os.O_RDWR|os.O_CREATE|os.O_APPEND|os.O_TRUNC) != 0 {
				seen[filepath.Base(o.name)] |= 2
			}
		}
		mu.Unlock()
		for name, content := range after {
			if strings.HasPrefix(name, "sentinel") {
				continue
			}
			if old, ok := before[name]; !ok || old != content {
				if seen[name]&2 == 0 {
					return fmt.Sprintf("%s was written although the custom OpenFile function never opened it for writing (calls: %v)\n%s", name, log, describe())
				}
			}
		}
		for _, l := range strings.Split(output, "\n") {
			if strings.HasPrefix(l, "read 1 SECRET-CONTENT-") {
				name := "secret" + l[len("read 1 SECRET-CONTENT-"):]
				if seen[name] == 0 {
					return fmt.Sprintf("%s was read although the custom OpenFile function never opened it\n%s", name, describe())
				}
			}
			if (strings.HasPrefix(l, "rec ") || strings.HasPrefix(l, "plain 1 SECRET-OPERAND")) && seen[operandBase] == 0 {
				return fmt.Sprintf("the file operand was read although the custom OpenFile function never opened it\n%s", describe())
			}
		}
	}
	x.Class(fmt.Sprintf("flags-%v-%v-%v", c.NoExec, c.NoWrites, c.NoReads))
	x.Class("how-" + c.How)
	x.Class("where-" + c.Where)
	x.Class("operand-" + c.Operand)
	if mustFail {
		x.Nontrivial("")
	}
	_ = sort.Strings
	return ""
}

func init() {
	h.Prop("flags_confine_straight_line_programs", 6000, 100000, genCase, run)
}
