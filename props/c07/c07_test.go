// C07 — record reading is lossless and independent of how input bytes arrive.
package c07

import (
	"bytes"
	"fmt"
	"os"
	"path/filepath"
	"regexp"
	"strconv"
	"strings"
	"testing"

	"github.com/benhoyt/goawk/interp"
	"github.com/benhoyt/goawk/parser"
	"pgregory.net/rapid"

	"verif/lib/awk"
	"verif/lib/h"
	"verif/lib/recmodel"
	"verif/lib/sandbox"
)

func TestMain(m *testing.M)   { h.Main(m, "C07") }
func TestAll(t *testing.T)    { h.RunAll(t) }
func TestReplay(t *testing.T) { h.Replay(t) }

type Case struct {
	Input h.Str `json:"input"`
	RS    h.Str `json:"rs"`
	// Deliveries: explicit chunk-size lists; nil entry = whole input in one read.
	// Exhaustive = all 2^(n-1) chunkings are tried instead.
	Deliveries [][]int `json:"deliveries,omitempty"`
	Exhaustive bool    `json:"exhaustive,omitempty"`
	Via        string  `json:"via"` // main | getline | getline-dash | file
	Pad        int     `json:"pad,omitempty"` // filler bytes prepended so that the interesting part straddles the 64 KiB buffer edge
}

var progCache = map[string]*parser.Program{}

func program(rs, via string) (*parser.Program, string, error) {
	var src string
	probe := `printf "%d %d:%s %d:%s\n", NR, length($0), $0, length(RT), RT`
	switch via {
	case "getline":
		src = "BEGIN { RS = " + awk.QuoteStr(rs) + "; while ((getline) > 0) { " + probe + " } printf \"END %d\\n\", NR }"
	case "getline-dash":
		src = "BEGIN { RS = " + awk.QuoteStr(rs) + "; n = 0; while ((getline line < \"-\") > 0) { n++; printf \"%d %d:%s %d:%s\\n\", n, length(line), line, length(RT), RT } printf \"END %d\\n\", n }"
	default:
		src = "BEGIN { RS = " + awk.QuoteStr(rs) + " } { " + probe + " } END { printf \"END %d\\n\", NR }"
	}
	if p, ok := progCache[src]; ok {
		return p, src, nil
	}
	p, err := parser.ParseProgram([]byte(src), nil)
	if err == nil {
		progCache[src] = p
	}
	return p, src, err
}

type rec struct{ text, rt string }

func parseTranscript(out string) ([]rec, int, bool) {
	var recs []rec
	for {
		if strings.HasPrefix(out, "END ") {
			n, err := strconv.Atoi(strings.TrimSuffix(out[4:], "\n"))
			return recs, n, err == nil
		}
		sp := strings.IndexByte(out, ' ')
		if sp < 0 {
			return recs, 0, false
		}
		out = out[sp+1:]
		take := func() (string, bool) {
			i := strings.IndexByte(out, ':')
			if i < 0 {
				return "", false
			}
			n, err := strconv.Atoi(out[:i])
			if err != nil || i+1+n > len(out) {
				return "", false
			}
			s := out[i+1 : i+1+n]
			out = out[i+1+n:]
			return s, true
		}
		t, ok := take()
		if !ok || !strings.HasPrefix(out, " ") {
			return recs, 0, false
		}
		out = out[1:]
		rt, ok := take()
		if !ok || !strings.HasPrefix(out, "\n") {
			return recs, 0, false
		}
		out = out[1:]
		recs = append(recs, rec{t, rt})
	}
}

func execute(prog *parser.Program, input []byte, chunks []int, via string, dir string) (string, error) {
	var out bytes.Buffer
	cfg := &interp.Config{Output: &out, Error: &out, Argv0: "goawk", Environ: []string{}, NoExec: true, NoFileWrites: true}
	if via == "file" {
		path := filepath.Join(dir, "input")
		if err := os.WriteFile(path, input, 0o644); err != nil {
			return "", err
		}
		cfg.Args = []string{path}
		cfg.Stdin = strings.NewReader("")
	} else if chunks == nil {
		cfg.Stdin = bytes.NewReader(input)
	} else {
		cfg.Stdin = sandbox.NewChunkReader(input, chunks)
	}
	_, err := interp.ExecProgram(prog, cfg)
	return out.String(), err
}

// canMatchEmpty / prefixAlternatives classify regex RS values
func compileRS(rs string) *regexp.Regexp {
	kind := recmodel.RSKind(rs)
	expr := rs
	if kind == "rune" {
		expr = regexp.QuoteMeta(rs)
	}
	re, err := regexp.Compile("(?s:" + expr + ")")
	if err != nil {
		return nil
	}
	re.Longest()
	return re
}

func run(x *h.Ctx, c Case) string {
	rs := string(c.RS)
	kind := recmodel.RSKind(rs)
	var re *regexp.Regexp
	if kind == "regex" || kind == "rune" {
		re = compileRS(rs)
		if re == nil {
			x.Discard("RS regex does not compile")
			return ""
		}
	}
	input := []byte(strings.Repeat("f", c.Pad) + string(c.Input))
	if c.Pad > 0 && kind != "regex" {
		// filler must not contain the separator
		if strings.Contains(rs, "f") {
			x.Discard("filler collides with RS")
			return ""
		}
	}
	via := c.Via
	if via == "" {
		via = "main"
	}
	prog, src, err := program(rs, via)
	if err != nil {
		return fmt.Sprintf("harness: program does not parse: %v\n%s", err, src)
	}
	dir := ""
	if via == "file" {
		dir = h.TempDir("c07")
		defer os.RemoveAll(dir)
	}
	// reference delivery: the whole input in one read
	base, err := execute(prog, input, nil, via, dir)
	if err != nil {
		return fmt.Sprintf("run-time error with RS=%q: %v\ninput: %q", rs, err, h.Trunc(string(input), 300))
	}
	recs, nr, ok := parseTranscript(base)
	if !ok {
		return fmt.Sprintf("harness: cannot parse transcript %q", h.Trunc(base, 300))
	}
	if nr != len(recs) {
		return fmt.Sprintf("NR at END is %d but %d records were seen\nRS=%q input=%q", nr, len(recs), rs, h.Trunc(string(input), 300))
	}
	in := string(input)
	// position independence: a long separator-free prefix moves the interesting part to the scanner's buffer edge;
	// the records and their RT must be those of the unprefixed input, the first record's text merely being longer
	if c.Pad > 0 && (kind == "paragraph" || kind == "newline" || kind == "byte") && len(c.Input) > 0 && !strings.ContainsAny(string(c.Input[:1]), "\r\n"+rs) {
		plain, err := execute(prog, []byte(c.Input), nil, via, dir)
		if err == nil {
			if r0, _, ok0 := parseTranscript(plain); ok0 && len(r0) > 0 {
				same := len(r0) == len(recs)
				for i := 0; same && i < len(r0); i++ {
					wantText := r0[i].text
					if i == 0 {
						wantText = strings.Repeat("f", c.Pad) + wantText
					}
					same = recs[i].text == wantText && recs[i].rt == r0[i].rt
				}
				if !same {
					short := func(r []rec) string {
						var sb strings.Builder
						for _, q := range r {
							fmt.Fprintf(&sb, " [%q RT=%q]", h.Trunc(strings.TrimLeft(q.text, "f"), 60), q.rt)
						}
						return sb.String()
					}
					return fmt.Sprintf("the records (or their RT) depend on where the scanner's internal buffer boundary falls: the same text preceded by %d filler bytes splits differently\nRS=%q text=%q\nalone:      %s\nwith prefix (filler stripped):%s", c.Pad, rs, string(c.Input), short(r0), short(recs))
				}
			}
		}
	}
	show := func(r []rec) string {
		var sb strings.Builder
		for _, q := range r {
			fmt.Fprintf(&sb, " [%q RT=%q]", h.Trunc(q.text, 80), q.rt)
		}
		return sb.String()
	}
	// ---- layer 2: reconstruction laws
	switch kind {
	case "regex", "rune":
		var sb strings.Builder
		for _, r := range recs {
			sb.WriteString(r.text)
			sb.WriteString(r.rt)
		}
		if sb.String() != in {
			return fmt.Sprintf("records followed by their RT do not reproduce the input (regex RS)\nRS=%q\ninput:   %q\nrebuilt: %q\nrecords:%s", rs, h.Trunc(in, 300), h.Trunc(sb.String(), 300), show(recs))
		}
	case "byte":
		texts := make([]string, len(recs))
		for i, r := range recs {
			texts[i] = r.text
		}
		j := strings.Join(texts, rs)
		if !(j == in || j+rs == in) {
			return fmt.Sprintf("records joined by RS do not reproduce the input (single-character RS)\nRS=%q\ninput:  %q\njoined: %q", rs, h.Trunc(in, 300), h.Trunc(j, 300))
		}
	}
	// even a single read passes through the scanner's 64 KiB buffer: an input longer than that has a
	// boundary at every multiple of 65536, where KF-C07-1 applies just as at a delivery boundary
	if h.KFOpen("KF-C07-1") && kind == "regex" && growable(re, in, nil) {
		x.Excluded("KF-C07-1")
		return ""
	}
	// ---- layer 3: exact model where the answer is uncontroversial
	modelOK := true
	switch kind {
	case "regex":
		if re.MatchString("") {
			modelOK = false // a regex that can match empty: only layers 1-2
		}
	case "paragraph":
		if strings.Contains(in, "\r") {
			modelOK = false
		}
	}
	if modelOK {
		want, err := recmodel.Records(in, rs)
		if err != nil {
			x.Discard("model cannot compile RS")
			return ""
		}
		bad := len(want) != len(recs)
		for i := 0; !bad && i < len(want); i++ {
			if want[i].Text != recs[i].text {
				bad = true
			}
			if (kind == "regex" || kind == "rune") && want[i].RT != recs[i].rt {
				bad = true
			}
		}
		if bad {
			var sb strings.Builder
			for _, q := range want {
				fmt.Fprintf(&sb, " [%q RT=%q]", h.Trunc(q.Text, 80), q.RT)
			}
			return fmt.Sprintf("records differ from the splitting model (%s RS, whole input delivered in one read)\nRS=%q input=%q\ngoawk:%s\nmodel:%s", kind, rs, h.Trunc(in, 300), show(recs), sb.String())
		}
	}
	// ---- layer 1: chunking independence
	nontrivial := false
	check := func(chunks []int) string {
		if h.KFOpen("KF-C07-1") && (kind == "regex") && growable(re, in, chunks) {
			x.Excluded("KF-C07-1")
			return ""
		}
		got, err := execute(prog, input, chunks, via, dir)
		if err != nil {
			return fmt.Sprintf("run-time error under chunking %v: %v", chunks, err)
		}
		if got != base {
			r2, _, _ := parseTranscript(got)
			return fmt.Sprintf("the records depend on how the input is delivered\nRS=%q input=%q\none read:      %s\nchunks %v:%s", rs, h.Trunc(in, 300), show(recs), trimChunks(chunks), show(r2))
		}
		if len(recs) >= 2 && boundaryNearSeparator(in, recs, chunks) {
			nontrivial = true
		}
		return ""
	}
	if via != "file" {
		if c.Exhaustive {
			n := len(input)
			if n > 13 {
				x.Discard("too long for exhaustive chunking")
				return ""
			}
			if n > 0 {
				for mask := uint64(0); mask < 1<<uint(n-1); mask++ {
					if msg := check(sandbox.Chunking(n, mask)); msg != "" {
						return msg
					}
				}
			}
			x.Class("all-chunkings")
		}
		for _, d := range c.Deliveries {
			if msg := check(d); msg != "" {
				return msg
			}
		}
	}
	x.Class("rs-" + kind)
	x.Class("via-" + via)
	if nontrivial || (via == "file" && len(recs) >= 2) {
		x.Nontrivial("")
	}
	return ""
}

func trimChunks(c []int) []int {
	if len(c) > 0 && c[len(c)-1] == 1<<30 {
		return c[:len(c)-1]
	}
	return c
}

// boundaryNearSeparator: some chunk boundary falls inside, immediately before or immediately after a separator occurrence
func boundaryNearSeparator(in string, recs []rec, chunks []int) bool {
	cuts := map[int]bool{}
	for _, p := range cutsOf(len(in), chunks) {
		cuts[p] = true
	}
	// separator extents from the transcript: after each record text comes its terminator region
	off := 0
	for i, r := range recs {
		idx := strings.Index(in[off:], r.text)
		if idx < 0 {
			return len(cuts) > 0
		}
		start := off + idx + len(r.text)
		end := start + len(r.rt)
		if r.rt == "" {
			end = start + 1
		}
		for p := start; p <= end && p <= len(in); p++ {
			if cuts[p] {
				return true
			}
		}
		off = end
		_ = i
	}
	return false
}

// growable: signature of KF-C07-1.  With a regex RS, the match the splitter
// finds in the data delivered so far ends strictly before the end of that data
// (so the splitter returns it), yet in the whole input the first non-empty
// match from the same scanning position is a different one (a longer
// alternative, or one starting earlier, that needed bytes beyond the chunk
// boundary).  The regexp API offers no way to know that without reading ahead,
// so the splitter cannot decide this from a partial buffer.
func growable(re *regexp.Regexp, in string, chunks []int) bool {
	for _, cut := range cutsOf(len(in), chunks) {
		lo := cut - 64 // matches relevant to this boundary start close to it (inputs have short interesting parts)
		if lo < 0 {
			lo = 0
		}
		for start := lo; start < cut; start++ {
			l1 := firstNonEmpty(re, in[start:cut])
			if l1 == nil || l1[1] >= cut-start {
				continue // nothing found yet, or the match touches the boundary (the splitter then asks for more data)
			}
			l2 := firstNonEmpty(re, in[start:])
			if l2 == nil || l2[0] != l1[0] || l2[1] != l1[1] {
				return true
			}
		}
	}
	return false
}

// cutsOf lists the chunk boundaries a ChunkReader with these sizes produces
// (the last size repeats; sizes <= 0 or huge mean "everything that is left").
func cutsOf(n int, chunks []int) []int {
	var cuts []int
	pos := 0
	for i := 0; pos < n; i++ {
		c := 0
		if len(chunks) > 0 {
			c = chunks[len(chunks)-1]
			if i < len(chunks) {
				c = chunks[i]
			}
		}
		if c <= 0 {
			c = 65536 // the scanner's buffer size
		}
		pos += c
		if pos < n {
			cuts = append(cuts, pos)
		}
	}
	return cuts
}

func firstNonEmpty(re *regexp.Regexp, s string) []int {
	for _, m := range re.FindAllStringIndex(s, -1) {
		if m[0] != m[1] {
			return m
		}
	}
	return nil
}

// ---------------------------------------------------------------------------
// generators

var inputPieces = []string{"a", "b", "c", "ab", "abb", "\n", "\n", "\n\n", "\r\n", "\r", ";", ";;", "é", "\xff", "\x00", " ", "x", "\n\n\n", "\r\n\r\n", "aa", "ba"}

var rsPool = []string{"\r\n", "\r\n", "\r", " ", "\t", "\n\n", "\n\r", "\r\n|\n", "(\r\n)+", "[\n]", "\\n", "\\.", "\n;", "\n", "\n", ";", "a", "\x00", "\xff", "|", ".", "", "", "é", "ab+", "a|ab", "\r?\n", "\n\n+", "[;,]", "b+", "(ab)+", "ab|abb", ";;?", "x*", "\n|\n\n", "a+b", "é+"}

func genInput(t *rapid.T, max int) string {
	n := rapid.IntRange(0, max).Draw(t, "npieces")
	var sb strings.Builder
	for i := 0; i < n; i++ {
		sb.WriteString(rapid.SampledFrom(inputPieces).Draw(t, "piece"))
	}
	return sb.String()
}

func genCase(t *rapid.T) Case {
	c := Case{RS: h.Str(rapid.SampledFrom(rsPool).Draw(t, "rs")), Via: rapid.SampledFrom([]string{"main", "main", "main", "getline", "getline-dash", "file"}).Draw(t, "via")}
	in := genInput(t, 14)
	if rapid.IntRange(0, 3).Draw(t, "ensure") > 0 && c.RS != "" && len(c.RS) <= 2 {
		// make sure the separator occurs
		p := rapid.IntRange(0, len(in)).Draw(t, "p")
		in = in[:p] + string(c.RS) + in[p:]
	}
	c.Input = h.Str(in)
	n := len(in)
	if n > 1 {
		// every single split point would be O(n) runs; draw a few, plus 1-byte delivery and random chunkings
		for i := rapid.IntRange(1, 4).Draw(t, "nsplits"); i > 0; i-- {
			c.Deliveries = append(c.Deliveries, []int{rapid.IntRange(1, n-1).Draw(t, "split"), 1 << 30})
		}
		c.Deliveries = append(c.Deliveries, []int{1})
		for i := rapid.IntRange(0, 2).Draw(t, "nrand"); i > 0; i-- {
			var ch []int
			for left := n; left > 0; {
				k := rapid.IntRange(1, 4).Draw(t, "ch")
				ch = append(ch, k)
				left -= k
			}
			c.Deliveries = append(c.Deliveries, append(ch, 1<<30))
		}
	}
	return c
}

// inputs whose interesting tail straddles the scanner's 64 KiB buffer edge
func genEdge(t *rapid.T) Case {
	c := Case{RS: h.Str(rapid.SampledFrom(rsPool).Draw(t, "rs")), Via: rapid.SampledFrom([]string{"main", "file", "getline"}).Draw(t, "via")}
	c.Input = h.Str(genInput(t, 12))
	if rapid.IntRange(0, 3).Draw(t, "para") == 0 {
		// paragraph mode with runs of several newlines (and CRLF blank lines) at the edge
		c.RS = ""
		var sb strings.Builder
		for i := rapid.IntRange(1, 4).Draw(t, "nparas"); i > 0; i-- {
			sb.WriteString(rapid.SampledFrom([]string{"a", "ab c", "x\ny", ""}).Draw(t, "ptext"))
			sb.WriteString(rapid.SampledFrom([]string{"\n\n", "\n\n\n", "\n\n\n\n", "\r\n\r\n", "\n\r\n\n", "\n\n\n\n\n\n", "\n"}).Draw(t, "psep"))
		}
		c.Input = h.Str(sb.String())
	}
	// the buffer edge falls on a drawn offset of the interesting part (every offset of it is equally likely)
	c.Pad = 65536 - rapid.IntRange(0, len(c.Input)).Draw(t, "before")
	// "file-like" delivery: fill whatever buffer is offered (chunk size 0), and one split exactly at the edge
	c.Deliveries = [][]int{{0}, {65536, 1 << 30}, {c.Pad, 1 << 30}, {4096}}
	return c
}

// exhaustive: a fixed family of short inputs x RS values, all chunkings
var exhaustiveFamily = map[string][]string{
	"\n":      {"a\nb\n", "a\r\nb\r\n", "a\r", "\n\na", "ab\r\n\r\nc", "\r\n", "a\rb\n", "a\n\r\n"},
	";":       {"a;b;", ";a;;b", "a", ";;", "a;b", "\n;\n"},
	"\xff":    {"a\xffb", "\xff\xff", "é\xffé"},
	"":        {"a\n\nb", "a\n\n\nb\n", "\n\na\nb\n\n", "a\nb\n\n\n\nc", "\n", "a\n \nb", "a\n\nb\n\n", "\n\n\na", "a\n"},
	"é":       {"aéb", "é", "éaé", "a\xc3b", "aé"},
	"ab+":     {"xabbby", "xab", "abab", "xabbabb"},
	"a|ab":    {"xaby", "ab", "xaxab"},
	"\r?\n":   {"a\r\nb\nc", "a\r\n", "\r\n\r\n", "a\rb\r\n"},
	"\n\n+":   {"a\n\n\nb", "a\n\nb\n\n", "a\nb\n\n\n"},
	"[;,]":    {"a;b,c", ";,", "a;"},
	"ab|abb":  {"xabby", "abb"},
	"\n|\n\n": {"a\n\nb", "a\nb\n\n"},
	"x*":      {"axxb", "xx", "ab"},
}

func enumExhaustive(thorough bool, yield func(Case) bool) {
	rss := make([]string, 0, len(exhaustiveFamily))
	for rs := range exhaustiveFamily {
		rss = append(rss, rs)
	}
	// deterministic order
	for i := 0; i < len(rss); i++ {
		for j := i + 1; j < len(rss); j++ {
			if rss[j] < rss[i] {
				rss[i], rss[j] = rss[j], rss[i]
			}
		}
	}
	for _, rs := range rss {
		for _, in := range exhaustiveFamily[rs] {
			vias := []string{"main"}
			if thorough {
				vias = []string{"main", "getline", "getline-dash"}
			}
			for _, via := range vias {
				if !yield(Case{Input: h.Str(in), RS: h.Str(rs), Exhaustive: true, Via: via}) {
					return
				}
				// longer variant: the input twice (up to 13 bytes) in the thorough tier
				if thorough && len(in)*2 <= 13 {
					if !yield(Case{Input: h.Str(in + in), RS: h.Str(rs), Exhaustive: true, Via: via}) {
						return
					}
				}
			}
		}
	}
}

// ---------------------------------------------------------------------------
// Interleaved sources: the records of the main input must not depend on reads
// from another source happening in between (and vice versa): a program that
// alternates between main records and "getline s < file" sees, per source,
// exactly the records it sees when that source is read alone.

type SideCase struct {
	Input h.Str `json:"input"`
	Side  h.Str `json:"side"`
	RS    h.Str `json:"rs"`
	Chunk []int `json:"chunk,omitempty"` // delivery of the main input (nil: one read)
	Burst int   `json:"burst"`           // side records read per main record
}

func genSide(t *rapid.T) SideCase {
	rs := rapid.SampledFrom([]string{"\n", "\n", ";", "", "x+", "é", "\r\n"}).Draw(t, "rs")
	mk := func(label string) string {
		var sb strings.Builder
		n := rapid.IntRange(1, 12).Draw(t, label+"n")
		for i := 0; i < n; i++ {
			sb.WriteString(rapid.StringMatching("[a-c ]{0,9}").Draw(t, label+"r"))
			sep := rs
			switch rs {
			case "":
				sep = "\n\n"
			case "x+":
				sep = rapid.SampledFrom([]string{"x", "xx", "xxx"}).Draw(t, label+"s")
			}
			sb.WriteString(sep)
		}
		return sb.String()
	}
	c := SideCase{Input: h.Str(mk("m")), Side: h.Str(mk("s")), RS: h.Str(rs), Burst: rapid.IntRange(1, 3).Draw(t, "burst")}
	if rapid.Bool().Draw(t, "chunked") && len(c.Input) > 1 {
		c.Chunk = []int{rapid.IntRange(1, len(c.Input)-1).Draw(t, "split"), 1 << 30}
	}
	return c
}

func splitTagged(out string) (m, sd string, ok bool) {
	var mb, sb strings.Builder
	for len(out) > 0 {
		if len(out) < 4 || (out[0] != 'M' && out[0] != 'S') || out[1] != ' ' {
			return "", "", false
		}
		i := strings.IndexByte(out, ':')
		if i < 0 {
			return "", "", false
		}
		n, err := strconv.Atoi(out[2:i])
		if err != nil || i+1+n+1 > len(out) || out[i+1+n] != '\n' {
			return "", "", false
		}
		item := out[:i+1+n+1]
		if out[0] == 'M' {
			mb.WriteString(item)
		} else {
			sb.WriteString(item)
		}
		out = out[len(item):]
	}
	return mb.String(), sb.String(), true
}

func runSide(x *h.Ctx, c SideCase) string {
	dir := h.TempDir("c07s")
	defer os.RemoveAll(dir)
	sidePath := filepath.Join(dir, "side")
	os.WriteFile(sidePath, []byte(c.Side), 0o644)
	rsq := awk.QuoteStr(string(c.RS))
	runProg := func(src string, stdin []byte, chunks []int, args []string) (string, error) {
		prog, err := parser.ParseProgram([]byte(src), nil)
		if err != nil {
			return "", fmt.Errorf("harness program: %v\n%s", err, src)
		}
		var out bytes.Buffer
		cfg := &interp.Config{Output: &out, Error: &out, Argv0: "goawk", Environ: []string{}, NoExec: true, NoFileWrites: true, Args: args, Vars: []string{"F", sidePath}}
		if chunks == nil {
			cfg.Stdin = bytes.NewReader(stdin)
		} else {
			cfg.Stdin = sandbox.NewChunkReader(stdin, chunks)
		}
		_, err = interp.ExecProgram(prog, cfg)
		return out.String(), err
	}
	mainAlone, err := runProg("BEGIN { RS = "+rsq+" } { printf \"M %d:%s\\n\", length($0), $0 }", []byte(c.Input), nil, nil)
	if err != nil {
		return "main input alone: " + err.Error()
	}
	sideAlone, err := runProg("BEGIN { RS = "+rsq+" } { printf \"S %d:%s\\n\", length($0), $0 }", nil, nil, []string{sidePath})
	if err != nil {
		return "side file alone: " + err.Error()
	}
	src := fmt.Sprintf("BEGIN { RS = %s } { printf \"M %%d:%%s\\n\", length($0), $0; for (i = 0; i < %d; i++) if ((getline s < F) > 0) printf \"S %%d:%%s\\n\", length(s), s } END { while ((getline s < F) > 0) printf \"S %%d:%%s\\n\", length(s), s }", rsq, c.Burst)
	both, err := runProg(src, []byte(c.Input), c.Chunk, nil)
	if err != nil {
		return "interleaved run: " + err.Error()
	}
	m, sd, ok := splitTagged(both)
	if !ok {
		return fmt.Sprintf("the interleaved transcript is malformed: %q\nprogram: %s", h.Trunc(both, 400), src)
	}
	if m != mainAlone {
		return fmt.Sprintf("the records of the main input depend on reads from another file in between\nRS=%q main input=%q side file=%q delivery=%v\nmain records alone:       %q\nmain records interleaved: %q", string(c.RS), string(c.Input), string(c.Side), trimChunks(c.Chunk), mainAlone, m)
	}
	if sd != sideAlone {
		return fmt.Sprintf("the records of a getline file depend on main-input reads in between\nRS=%q main input=%q side file=%q\nside records alone:       %q\nside records interleaved: %q", string(c.RS), string(c.Input), string(c.Side), sideAlone, sd)
	}
	if strings.Count(m, "\n") >= 2 && strings.Count(sd, "\n") >= 2 {
		x.Nontrivial("")
	}
	return ""
}

func init() {
	h.Prop("interleaved_side_file", 6000, 100000, genSide, runSide)
	h.Enum("all_chunkings_short_inputs", enumExhaustive, run)
	h.Prop("random_inputs_deliveries", 20000, 300000, genCase, run)
	h.Prop("buffer_edge_64k", 1600, 24000, genEdge, run)
}
