// C02 — running any accepted program never crashes the host.
package c02

import (
	"bytes"
	"context"
	"errors"
	"fmt"
	"io"
	"os"
	"path/filepath"
	"reflect"
	"strings"
	"testing"
	"time"

	"github.com/benhoyt/goawk/interp"
	"github.com/benhoyt/goawk/parser"
	"pgregory.net/rapid"

	"verif/lib/awk"
	"verif/lib/awkgen"
	"verif/lib/bclint"
	"verif/lib/h"
	"verif/lib/sandbox"
)

func TestMain(m *testing.M)   { h.Main(m, "C02") }
func TestAll(t *testing.T)    { h.RunAll(t) }
func TestReplay(t *testing.T) { h.Replay(t) }

// ---------------------------------------------------------------- hostile constants

var hostileNums = []string{
	"0", "-0", "0.5", "-0.5", "1", "-1", "2", "3", "255", "256", "65535", "65536", "999999", "1000000", "1000001",
	"2147483647", "2147483648", "-2147483648", "-2147483649", "4294967295", "4294967296", "9007199254740992",
	"9223372036854775807", "9223372036854775808", "-9223372036854775808", "-9223372036854775809", "18446744073709551615", "18446744073709551616",
	"1e30", "-1e30", "1e308", "-1e308", "1e309", "-log(0)", "log(0)", "log(-1)", "-log(-1)",
	`""`, `"x"`, `"0x10"`, `"1e400"`, `"nan"`, `"+inf"`, `" 12 "`, "NF", "NR", "$1", "$NF", "u", "NF+1", "NF-1", "-NF", "length(big)", "2^31", "2^53", "2^63", "2^64", "-2^63",
}

var hostileStrs = []string{
	`""`, `" "`, `"\n"`, `"\t"`, `"("`, `"["`, `")"`, `"a**"`, `"\\"`, `"\200"`, `"\377"`, `"\303"`, `"é"`, `"\000"`, `"a\000b"`, "big", `"(((((((((("`,
	`"(a*)*b"`, `"[[:foo:]]"`, `"\\1"`, `"x{1000}"`, `"x{1001}"`, `"(x{1000}){1000}"`, `"(?i)a"`, `"\\p{Greek}"`, `"."`, `"^"`, `"$"`, `"|"`, `"a|"`, `"*"`, `"+"`, `"?"`, `"{"`, `"}"`,
	`"a b c"`, `"%"`, `"%d"`, `"%s%s%s"`, `"%*d"`, `"%c"`, `"%5"`, `"%99999999999d"`, `"%.99999999999f"`, `"%-*.*s"`, `"%z"`, `"%%"`, `"\\&"`, `"&&&&"`, `"\\\\&"`,
	"$0", "$1", "u", `"-"`, `"/nonexistent/x"`, `"name"`, `","`, `"a,b\n\"c\n\",d"`, "\"\\xEF\\xBB\\xBFa\"", `"[a"`, `"(("`, `"a(b"`, `"[z-a]"`, `"x{2,1}"`,
}

var modeStrs = []string{`"csv"`, `"tsv"`, `"csv header"`, `"csv separator=;"`, `"csv comment=#"`, `"xyz"`, `""`, `"csv header=x"`, "\"csv separator=\\200\"", `"csv separator=\""`, `"csv comment=\n"`, `"tsv header comment=#"`, `"csv  header"`, `"csv separator="`, `"csv separator=ab"`}

// statement templates: {N} hostile number, {S} hostile string, {M} mode string, {k} small index
var templates = []string{
	`$({N}) = {S}`, `x = $({N})`, `$({N})++`, `$({N}) += {N}`, `--$({N})`, `NF = {N}`, `NF += {N}`, `NF--`, `ARGC = {N}`, `$0 = {S}`, `$0 = $0 {S} $0`,
	`x = substr({S}, {N}, {N})`, `x = substr({S}, {N})`, `x = substr($0, {N}, {N})`, `x = sprintf("%*d", {N}, {N})`, `x = sprintf("%.*f", {N}, {N})`, `x = sprintf("%*.*s", {N}, {N}, {S})`,
	`x = sprintf("%c", {N})`, `x = sprintf("%c", {S})`, `x = sprintf("%d %i %o %x %X %u %e %g", {N}, {N}, {N}, {N}, {N}, {N}, {N}, {N})`, `x = sprintf("%" {N} "d", 1)`, `x = sprintf({S}, {N})`, `x = sprintf({S}, {S}, {N})`, `x = sprintf({S})`,
	`x = system({S})`, `{S} | getline x; close({S})`, `print {N} | {S}; close({S})`, `"echo hi" | getline; "echo hi" | getline y`, `print "x" | "cat"; print "y" | "cat"`, `while (("ls" | getline line) > 0) if (++cnt > 5) break`, `system("true"); fflush(); system("")`,
	`printf {S}`, `printf {S}, {N}, {S}`,
	// one format string first used with enough arguments, then (byte-identical) with too few, and the other way round
	`printf "%s-%s|", {N}, {S}; printf "%s-%s|", {N}`, `x = sprintf("%d %d", {N}, {N}); x = sprintf("%d %d", {N})`, `printf "%*d|", {k}, {N}; printf "%*d|", {k}`, `x = sprintf("%s %c %d", {S}, {N}, {N}) sprintf("%s %c %d")`,
	`fmt_ = "%s:%s:%s|"; printf fmt_, 1, 2, 3; printf fmt_, 1, 2; printf fmt_`, `x = sprintf("%d"); x = sprintf("%d", {N})`, `for (i = 3; i >= 0; i--) x = x sprintf(i > 0 ? "%s%s%s" : "%s%s%s", "a", "b", i > 1 ? "c" : "")`, `printf "%.*f|", {k}, {N}; printf "%.*f|", {k}`, `print {N}, {S}`, `print > {S}`, `print | {S}`, `printf("%s") > "/dev/stderr"`,
	`srand({N})`, `x = rand()`, `x = int({N})`, `x = {N} % {N}`, `x = {N} ^ {N}`, `x = {N} / {N}`, `x = -{N}`, `x = !{N}`, `x = {N} " " {N}`, `x = ({N} < {N}) + ({S} < {N})`, `x = {N} ? {S} : {N}`,
	`n = split({S}, arr, {S})`, `n = split({S}, arr)`, `n = split($0, arr, {S})`, `n = split({S}, arr, ""); for (k in arr) delete arr[k]`,
	`a[{N}] = 1`, `delete a[{N}]`, `x = ({N}) in a`, `a[{N}, {S}] = {N}`, `for (k in a) delete a[k]`, `delete a`, `x = length(a)`, `for (k in a) { a[k {S}] = 1; if (++cnt > 50) break }`,
	`FS = {S}`, `RS = {S}`, `OFS = {s}`, `ORS = {S}`, `SUBSEP = {S}`, `CONVFMT = {S}`, `OFMT = {S}`, `x = 0.1 ""`, `print 0.1, 1e300, 17`, `$3 = "z"; print`, `$1 = $1`,
	`x = ({S} ~ {S})`, `x = ($0 ~ {S})`, `x = match({S}, {S})`, `x = match($0, {S}) RSTART RLENGTH`, `sub({S}, {S}, t)`, `gsub({S}, {s}, t)`, `gsub({S}, {s})`, `gsub({S}, "&&\\&", $0)`, `gsub(//, {s})`, `sub({S}, {S}, $({N}))`, `gsub({S}, {s}, a[{N}])`,
	`INPUTMODE = {M}`, `OUTPUTMODE = {M}`, `getline`, `getline x`, `getline < "/nonexistent/file"`, `getline x < {S}`, `getline $({N})`, `getline a[{N}]`, `getline $({N}) < {S}`, `{S} | getline`, `while ((getline line) > 0) if (++cnt > 100) break`,
	`getline x < DATAFILE`, `getline < DATAFILE`, `getline $({N}) < DATAFILE`, `while ((getline line < DATAFILE) > 0) if (++cnt > 100) break`, `close(DATAFILE)`, `getline a[{N}] < DATAFILE`,
	`close({S})`, `fflush({S})`, `fflush()`, `x = @{S}`, `x = @"name"`, `x = @$1`, `x = length()`, `x = length({S})`, `x = index({S}, {S})`, `x = tolower({S}) toupper({S})`,
	`x = 1 + 2 * fnext({k})`, `x = "a" "b" fnf()`, `a[NR] = fexit({k}) + 1`, `for (k in ENVIRON) x = 1 + fnext(0)`, `x = substr("abc", fnext(1), fnf())`, `x = 1 + fexit({N})`,
	`x = f({N})`, `x = g({N})`, `x = g({k})`, `x = h({N}, a)`, `x = m1({k})`, `r(arr, {k})`, `x = deep({N})`,
	`RSTART = {N}; RLENGTH = {N}`, `NR = {N}`, `FNR = {N}`, `FILENAME = {S}`, `ENVIRON[{S}] = {S}`, `ARGV[{N}] = {S}`, `ARGV[1] = {S}; ARGC = 2`,
	`t = {S}`, `t = t t`, `x = x + 1`, `u2 = u[1]`, `exit {N}`, `if ({N}) next2()`, `for (i = 0; i < 3; i++) { $({N}) = i; x = x $i }`, `do { x = substr(x, 2) } while (length(x) > 0 && ++cnt < 100)`,
	`x = $NF; $(NF + {k}) = {S}; NF = NF - {k}`, `$({N}) = {S}; print NF; NF = {k}`, `$(-{k}) = {S}`, `x = $(-{k})`,
}

const prelude = `
function f(n) { return f(n + 1) }
function g(n) { return n <= 0 ? 0 : g(n - 1) + 1 }
function h(n, arr) { arr[n] = n; if (n > 0 && n < 100) return h(n - 1, arr); return length(arr) }
function m1(n) { return m2(n) } function m2(n) { return n > 5000 ? n : m1(n + 1) }
function r(arr2, n,   loc) { loc[n] = 1; arr2[n] = loc[n]; if (n > 0) r(arr2, n - 1); return }
function deep(n,   i, s) { for (i = 0; i < 3; i++) s = s deep2(n) ; return s }
function deep2(n) { return substr("abcdef", n, n) sprintf("%c", n) }
function next2() { return 1 }
function fnext(n) { if (n > 2) next; return fnext(n + 1) + 1 }
function fnf() { nextfile }
function fexit(n) { exit n }
BEGIN { big = "a"; for (i_ = 0; i_ < 16; i_++) big = big big; big = big "aaaaaaaaaaaaaaaaaaaaaaaaaaaaaaaaaaaaaaaaaaaaaaaaaaaaaaaaaaaaaaaaaaaaaaaaaaaaaaaa" }
`

func fill(t *rapid.T, tpl string) string {
	var sb strings.Builder
	for i := 0; i < len(tpl); i++ {
		if tpl[i] == '{' && i+2 < len(tpl) && tpl[i+2] == '}' {
			switch tpl[i+1] {
			case 'N':
				sb.WriteString(rapid.SampledFrom(hostileNums).Draw(t, "N"))
				i += 2
				continue
			case 'S':
				sb.WriteString(rapid.SampledFrom(hostileStrs).Draw(t, "S"))
				i += 2
				continue
			case 's':
				v := rapid.SampledFrom(hostileStrs).Draw(t, "s")
				if v == "big" || v == "$0" || v == "$1" {
					v = `"q"`
				}
				sb.WriteString(v)
				i += 2
				continue
			case 'M':
				sb.WriteString(rapid.SampledFrom(modeStrs).Draw(t, "M"))
				i += 2
				continue
			case 'k':
				sb.WriteString(fmt.Sprint(rapid.IntRange(0, 12).Draw(t, "k")))
				i += 2
				continue
			}
		}
		sb.WriteByte(tpl[i])
	}
	return sb.String()
}

type Cfg struct {
	Chars    bool    `json:"chars"`
	Mode     string  `json:"mode"` // "", csv, tsv, csv-header
	Newline  int     `json:"newline"`
	Vars     []h.Str `json:"vars"` // h.Str: operands and values may hold invalid UTF-8, which must survive the replay file
	Args     []h.Str `json:"args"`
	NoReads  bool    `json:"no_reads"`
	Chunk    uint64  `json:"chunk"`                // how stdin is delivered
	Twice    bool    `json:"twice"`                // run a second time on the same Interpreter
	BadShell bool    `json:"bad_shell,omitempty"`  // NoExec off, but Config.ShellCommand names a program that does not exist: every process start fails
	OutK     int     `json:"out_kind,omitempty"`   // dynamic type of Config.Output (see outOf): 0 pointer, 1 func, 2 struct with a slice, 3-5 by-value wrappers around those
	ErrSame  bool    `json:"err_same,omitempty"`   // Config.Error is the same value as Config.Output (otherwise io.Discard)
	StdinK   int     `json:"stdin_kind,omitempty"` // dynamic type of Config.Stdin: 0 *ChunkReader, 1 a func type with Read and Close (not comparable), 2 a struct value holding a slice (not comparable) with Read and Close, 3 *os.File-like ReadCloser pointer
}

// Writers of unusual dynamic types: Config.Output and Config.Error are io.Writers; goawk compares them (to find out
// whether a child process shares the program's writer), and comparing interface values panics when the dynamic
// types are the same and hold something uncomparable -- directly or, for a by-value wrapper, one level down.
type funcWriter func(p []byte) (int, error)

func (f funcWriter) Write(p []byte) (int, error) { return f(p) }

type sliceWriter struct {
	parts []io.Writer
}

func (w sliceWriter) Write(p []byte) (int, error) { return w.parts[0].Write(p) }

func outOf(kind int, w io.Writer) io.Writer {
	switch kind {
	case 1:
		return funcWriter(w.Write)
	case 2:
		return sliceWriter{parts: []io.Writer{w}}
	case 3:
		return struct{ io.Writer }{funcWriter(w.Write)} // comparable static type, uncomparable content
	case 4:
		return struct{ io.Writer }{sliceWriter{parts: []io.Writer{w}}}
	case 5:
		return struct{ io.Writer }{w}
	}
	return w
}

// Readers of unusual dynamic types: Config.Stdin is an io.Reader, and nothing says its dynamic type is comparable.
type funcReader func(p []byte) (int, error)

func (f funcReader) Read(p []byte) (int, error) { return f(p) }
func (f funcReader) Close() error               { return nil }

type sliceReader struct {
	parts []io.Reader // a slice makes the struct type uncomparable
}

func (r sliceReader) Read(p []byte) (int, error) { return r.parts[0].Read(p) }
func (r sliceReader) Close() error               { return nil }

type ptrReadCloser struct{ r io.Reader }

func (r *ptrReadCloser) Read(p []byte) (int, error) { return r.r.Read(p) }
func (r *ptrReadCloser) Close() error               { return nil }

func stdinOf(kind int, r io.Reader) io.Reader {
	switch kind {
	case 1:
		return funcReader(r.Read)
	case 2:
		return sliceReader{parts: []io.Reader{r}}
	case 3:
		return &ptrReadCloser{r}
	}
	return r
}

type Case struct {
	Src   string `json:"src"`
	Input h.Str  `json:"input"`
	Cfg   Cfg    `json:"cfg"`
}

var inputs = []string{
	"", "a b c\n", "1 2 3\n4 5 6\n7 8 9\n", "name,age\nBob,42\n\"Ji\nll\",37\n", "a\tb\n\n\nc d\n", "x", "\n", "\r\n", "a b\r\n\r\nc\r\n", "\xef\xbb\xbfname,x\n1,2\n", "\x80\xff\n\x00 \x00\n",
	"é ü\n日本 語\n", "  lead  trail  \n", strings.Repeat("w ", 300) + "\n", "\"unterminated,1\n2,3\n", "#c\na,b\n", "0x10 1e3 nan inf -inf +5 .5 5. 1e\n",
}

func genCfg(t *rapid.T) Cfg {
	c := Cfg{Chars: rapid.Bool().Draw(t, "chars"), Mode: rapid.SampledFrom([]string{"", "", "", "csv", "tsv", "csv-header"}).Draw(t, "mode"), Newline: rapid.IntRange(0, 2).Draw(t, "newline"),
		NoReads: rapid.Bool().Draw(t, "noreads"), Chunk: rapid.Uint64().Draw(t, "chunk"), Twice: rapid.IntRange(0, 4).Draw(t, "twice") == 0,
		OutK: rapid.SampledFrom([]int{0, 0, 0, 0, 0, 1, 2, 3, 4, 5}).Draw(t, "outkind"), ErrSame: rapid.IntRange(0, 2).Draw(t, "errsame") == 0,
		StdinK: rapid.SampledFrom([]int{0, 0, 0, 0, 1, 2, 3}).Draw(t, "stdinkind"), BadShell: rapid.IntRange(0, 4).Draw(t, "badshell") == 0}
	if rapid.IntRange(0, 3).Draw(t, "hasvars") == 0 {
		name := rapid.SampledFrom([]string{"FS", "RS", "OFS", "CONVFMT", "OFMT", "NF", "ARGC", "INPUTMODE", "OUTPUTMODE", "SUBSEP", "x", "NR", "RSTART"}).Draw(t, "vname")
		val := rapid.SampledFrom([]string{"", " ", "((", "[", "\x80", "a+", "1e30", "-1", "csv", "csv header", "xyz", "%d", "%s", "%.99999f", "\n", "é", "1000001"}).Draw(t, "vval")
		c.Vars = []h.Str{h.Str(name), h.Str(val)}
	}
	na := rapid.IntRange(0, 3).Draw(t, "nargs")
	for i := 0; i < na; i++ {
		c.Args = append(c.Args, h.Str(rapid.SampledFrom([]string{"-", "", "FS=((", "FS=,", "RS=", "RS=[", "NF=-1", "NF=1e30", "x=1", "/nonexistent/file", "ARGC=0", "INPUTMODE=csv header", "INPUTMODE=zzz", "CONVFMT=%d", "9x=1", "a=b=c", "FS=\\", "RS=\\200",
			"INPUTMODE=csv separator=\x80", "INPUTMODE=csv separator=\xff", "INPUTMODE=csv separator=\"", "INPUTMODE=csv comment=,", "INPUTMODE=tsv comment=\x80", "INPUTMODE=csv separator=\r", "OUTPUTMODE=csv separator=\x80", "OUTPUTMODE=tsv separator=\"", "OUTPUTMODE=csv separator=\n", "OUTPUTMODE=zzz"}).Draw(t, "arg")))
	}
	return c
}

func genHostile(t *rapid.T) Case {
	var sb strings.Builder
	sb.WriteString(prelude)
	nblocks := rapid.IntRange(1, 3).Draw(t, "nblocks")
	growth := 0
	for b := 0; b < nblocks; b++ {
		where := rapid.SampledFrom([]string{"BEGIN", "BEGIN", "", "NR == 1", "$1 ~ /./", "END", "func"}).Draw(t, "where")
		n := rapid.IntRange(1, 6).Draw(t, "nstmts")
		var body []string
		for i := 0; i < n; i++ {
			tpl := rapid.SampledFrom(templates).Draw(t, "tpl")
			// statements that multiply the size of a string run at most twice per program, and never once per record
			if strings.Contains(tpl, "gsub(") || tpl == "t = t t" || strings.HasPrefix(tpl, "$0 = $0 ") {
				once := where == "BEGIN" || where == "END" || where == "func"
				if growth >= 2 || !once {
					tpl = "x = x + 1"
				} else {
					growth++
				}
			}
			st := fill(t, tpl)
			body = append(body, "  "+st)
		}
		if where == "func" {
			fmt.Fprintf(&sb, "function user%d(p, q,   x, t, n, k, cnt, arr, a, line, i) {\n%s\n}\nBEGIN { user%d(1, 2) }\n", b, strings.Join(body, "\n"), b)
		} else {
			fmt.Fprintf(&sb, "%s {\n%s\n}\n", where, strings.Join(body, "\n"))
		}
	}
	c := Case{Src: sb.String(), Input: h.Str(rapid.SampledFrom(inputs).Draw(t, "input")), Cfg: genCfg(t)}
	if rapid.IntRange(0, 5).Draw(t, "swallowed") == 0 {
		// A var=value operand whose assignment fails, reached by a plain getline in
		// BEGIN: getline returns -1 and the run goes on, so whatever the failed
		// assignment left behind is then used by the rest of the program.
		bad := rapid.SampledFrom(hostileAssigns).Draw(t, "badassign")
		c.Cfg.Args = append([]h.Str{h.Str(bad)}, c.Cfg.Args...)
		c.Cfg.Vars = nil
		c.Src = prelude + "BEGIN { " + rapid.SampledFrom([]string{"getline", "getline line", "getline; getline", "while ((getline line) > 0) cnt++"}).Draw(t, "swallow") + " }\n" + strings.TrimPrefix(c.Src, prelude) +
			rapid.SampledFrom([]string{"", "{ print $1, NF; $2 = \"x\"; print }\n", "END { n = split(\"a\\377,b\\200 c\", arr); print n; $0 = \"p\\377q,r s\"; print $1, NF }\n", "{ n += split($0, arr) } END { print n; print 1, \"a\\377b\", \"c,d\" }\n"}).Draw(t, "after")
	}
	return c
}

// operand assignments that fail (or are at least unusual); see the "swallowed" mode of genHostile
var hostileAssigns = []string{
	"FS=((", "FS=[", "FS=a**", "RS=((", "RS=[a", "RS=x{2,1}", "NF=-1", "NF=1e30", "NF=1000001", "CONVFMT=%d", "OFMT=%s",
	"INPUTMODE=csv separator=\x80", "INPUTMODE=csv separator=\xff", "INPUTMODE=csv separator=\"", "INPUTMODE=csv comment=,", "INPUTMODE=tsv comment=\x80", "INPUTMODE=csv separator=\r", "INPUTMODE=csv separator=\n",
	"INPUTMODE=csv separator=ab", "INPUTMODE=csv header=x", "INPUTMODE=zzz", "INPUTMODE=csv comment=\"", "INPUTMODE=tsv separator=\xc3",
	"OUTPUTMODE=csv separator=\x80", "OUTPUTMODE=csv separator=\xff", "OUTPUTMODE=tsv separator=\"", "OUTPUTMODE=csv separator=\n", "OUTPUTMODE=zzz", "OUTPUTMODE=csv separator=\r",
}

// ---------------------------------------------------------------- running under guard

type result struct {
	status   int
	err      error
	panicked string
	timedOut bool
	hung     bool
	sp       int64
	depth    int64
	parseErr error
	out      string
}

// one real, readable file per worker process: an input stream that opens successfully (and can be left open at the end of a run)
var dataFile = func() string {
	dir := h.TempDir("c02data")
	p := filepath.Join(dir, "data.txt")
	os.WriteFile(p, []byte("d1 1\nd2 2\nd3,3\n\"q\",4\n"), 0o644)
	return p
}()

func mkConfig(c Cfg, input []byte, out io.Writer) *interp.Config {
	vars := append(strs(c.Vars), "DATAFILE", dataFile)
	out = outOf(c.OutK, out)
	var errw io.Writer = io.Discard
	if c.ErrSame {
		errw = out
	}
	cfg := &interp.Config{Stdin: stdinOf(c.StdinK, sandbox.NewChunkReader(input, sandbox.Chunking(len(input), c.Chunk))), Output: out, Error: errw, Argv0: "goawk", Chars: c.Chars, Vars: vars, Args: strs(c.Args),
		NoExec: true, NoFileWrites: true, NoFileReads: c.NoReads, Environ: []string{"HOME", "/"}, NewlineOutput: interp.NewlineMode(c.Newline)}
	if c.BadShell {
		// nothing can actually be started: the paths taken when starting a process fails are exercised instead
		cfg.NoExec = false
		cfg.ShellCommand = []string{"/nonexistent/shell-for-c02", "-c"}
	}
	switch c.Mode {
	case "csv":
		cfg.InputMode, cfg.OutputMode = interp.CSVMode, interp.CSVMode
	case "tsv":
		cfg.InputMode = interp.TSVMode
	case "csv-header":
		cfg.InputMode = interp.CSVMode
		cfg.CSVInput.Header = true
	}
	return cfg
}

func strs(l []h.Str) []string {
	var out []string
	for _, s := range l {
		out = append(out, string(s))
	}
	return out
}

type limitWriter struct {
	buf bytes.Buffer
	n   int
}

func (w *limitWriter) Write(p []byte) (int, error) {
	if w.buf.Len() < 1<<16 {
		w.buf.Write(p)
	}
	w.n += len(p)
	return len(p), nil
}

func internals(it *interp.Interpreter) (sp, depth int64) {
	v := reflect.ValueOf(it).Elem().FieldByName("interp")
	if !v.IsValid() || v.IsNil() {
		return 0, 0
	}
	e := v.Elem()
	if f := e.FieldByName("sp"); f.IsValid() {
		sp = f.Int()
	}
	if f := e.FieldByName("callDepth"); f.IsValid() {
		depth = f.Int()
	}
	return
}

func execute(src string, input []byte, c Cfg, timeout time.Duration) (res result) {
	prog, err := parser.ParseProgram([]byte(src), nil)
	if err != nil {
		res.parseErr = err
		return
	}
	done := make(chan result, 1)
	go func() {
		var r result
		defer func() {
			if p := recover(); p != nil {
				r.panicked = fmt.Sprint(p)
			}
			done <- r
		}()
		it, err := interp.New(prog)
		if err != nil {
			r.err = err
			return
		}
		runs := 1
		if c.Twice {
			runs = 2
		}
		for i := 0; i < runs; i++ {
			ctx, cancel := context.WithTimeout(context.Background(), timeout)
			w := &limitWriter{}
			r.status, r.err = it.ExecuteContext(ctx, mkConfig(c, input, w))
			r.timedOut = ctx.Err() != nil
			cancel()
			r.out = w.buf.String()
			r.sp, r.depth = internals(it)
			if r.err == nil && (r.sp != 0 || r.depth != 0) {
				return
			}
		}
	}()
	select {
	case r := <-done:
		return r
	case <-time.After(timeout + 20*time.Second):
		return result{hung: true}
	}
}

func verdict(x *h.Ctx, src string, r result) string {
	switch {
	case r.parseErr != nil:
		x.Discard("program rejected by the parser")
		return ""
	case r.panicked != "":
		return "execution panicked: " + h.Trunc(r.panicked, 600)
	case r.hung:
		x.Discard("did not return 20 s after its deadline (not judged here)")
		return ""
	case r.timedOut:
		x.Class("deadline")
		return ""
	case r.err == nil && r.sp != 0:
		return fmt.Sprintf("the run ended normally (status %d) but the evaluation stack pointer is %d, not at its base", r.status, r.sp)
	case r.err == nil && r.depth != 0:
		return fmt.Sprintf("the run ended normally (status %d) but the call depth is %d, not 0", r.status, r.depth)
	}
	return ""
}

func runHostile(x *h.Ctx, c Case) string {
	r := execute(c.Src, []byte(c.Input), c.Cfg, 2*time.Second)
	if msg := verdict(x, c.Src, r); msg != "" {
		return fmt.Sprintf("%s\nconfig: %+v\ninput: %s\nprogram:%s", msg, c.Cfg, h.Q(h.Trunc(string(c.Input), 200)), strings.TrimPrefix(c.Src, prelude))
	}
	if r.parseErr == nil && !r.hung {
		if r.err != nil {
			x.Class("ended-with-error")
		} else {
			x.Class("ended-with-status")
		}
		x.Nontrivial("")
	}
	return ""
}

// ---------------------------------------------------------------- the named conditions are errors

type Named struct {
	Kind string `json:"kind"` // recursion | field | regex
	Src  string `json:"src"`
	Cfg  Cfg    `json:"cfg"`
}

var bigIdx = []string{"1000001", "2147483647", "2147483648", "4294967296", "2^53", "2^63", "9223372036854775808", "2^64", "1e30", "1e308", "-log(0)", "\"1e30\"", "NF + 2^40"}
var fieldTpl = []string{`$({B}) = "v"`, `$({B})++`, `$({B}) += 1`, `$({B}) = $1`, `getline $({B})`, `sub(/^/, "y", $({B}))`, `gsub(/$/, "y", $({B}))`, `NF = {B}`, `NF += {B}`, `$({B}) = "v"; print`, `x = ($({B}) = 1)`, `$({B}) ^= 2`, `++$({B})`, `getline $({B}) < "-"`}
var badRe = []string{`"(("`, `"[a"`, `"a(b"`, `"[z-a]"`, `"x{2,1}"`, `"ab\\"`, `"(()"`, `"a[[:foo:]]"`, `"(?P<n"`, `"x**"`, `"a{1001}"`}
var reTpl = []string{`x = ("abc" ~ {R})`, `x = ($0 ~ {R})`, `x = match("abc", {R})`, `n = split("a b", arr, {R})`, `sub({R}, "x", t)`, `gsub({R}, "x", t)`, `gsub({R}, "x")`, `FS = {R}; $0 = "a b"; x = $1`, `FS = {R}`, `RS = {R}; getline`, `re = {R}; if (t ~ re) x = 1`, `x = (t !~ {R})`, `x = "abc" ~ ("q" {R})`, `$0 ~ {R} { x = 1 }`}
var recTpl = []string{
	`function f(n) { return f(n + 1) } BEGIN { f(1) }`,
	`function f(n) { f(n + 1); return 1 } { f(1) }`,
	`function a(n) { return b(n) } function b(n) { return a(n) + 1 } END { a(1) }`,
	`function f(arr, n) { arr[n] = 1; f(arr, n + 1) } BEGIN { f(x, 1) }`,
	`function f(n,   loc) { loc[n] = n; return f(n + 1) } BEGIN { print f(0) }`,
	`function f(n) { return f(n + 1) } f(1) { print }`,
	`function f(n) { return f(n + 1) } BEGIN { a[1]; for (k in a) f(1) }`,
	`function f(n) { return n f(n) } BEGIN { x = "a" f(1) }`,
	`function f(n) { return (getline line) + f(n) } BEGIN { f(1) }`,
	`function f() { f() } BEGIN { f() }`,
	`function f(a, b, c, d, e, g, h, i, j) { return f(a, b, c, d, e, g, h, i, j) } BEGIN { f(1, 2, 3) }`,
	`function f(n) { return n > 1000 ? n : f(n + 1) } BEGIN { print f(0) }`,
	`function f(n) { $0 = "x " $0; return f(n + 1) } BEGIN { f(1) }`,
	`function f(n) { printf "%d\n", n > "/dev/null"; return f(n + 1) } BEGIN { f(1) }`,
}

func genNamed(t *rapid.T) Named {
	kind := rapid.SampledFrom([]string{"recursion", "field", "field", "regex", "regex"}).Draw(t, "kind")
	cfg := genCfg(t)
	cfg.Vars, cfg.Args = nil, nil // nothing that could end the run before the statement is reached
	if cfg.Mode == "csv-header" {
		cfg.Mode = "csv"
	}
	where := rapid.SampledFrom([]string{"BEGIN { %s }", "{ %s }", "END { %s }", "function w(   x, t, n, arr) { %s } BEGIN { w() }", "BEGIN { if (1) { for (i = 0; i < 2; i++) { %s } } }", "NR == 1 { %s }"}).Draw(t, "where")
	switch kind {
	case "recursion":
		return Named{kind, rapid.SampledFrom(recTpl).Draw(t, "rec"), cfg}
	case "field":
		st := strings.ReplaceAll(rapid.SampledFrom(fieldTpl).Draw(t, "tpl"), "{B}", rapid.SampledFrom(bigIdx).Draw(t, "big"))
		if strings.Contains(st, "getline") && !strings.HasPrefix(where, "BEGIN") && !strings.HasPrefix(where, "function") {
			where = "BEGIN { %s }" // elsewhere the input may be exhausted, and getline then assigns nothing
		}
		return Named{kind, fmt.Sprintf(where, st), cfg}
	default:
		tpl := rapid.SampledFrom(reTpl).Draw(t, "tpl")
		st := strings.ReplaceAll(tpl, "{R}", rapid.SampledFrom(badRe).Draw(t, "re"))
		if strings.HasPrefix(tpl, "$0 ~") {
			return Named{kind, "BEGIN { t = \"abc\" } " + st, cfg}
		}
		return Named{kind, fmt.Sprintf("BEGIN { t = \"abc\" } "+where, st), cfg}
	}
}

func runNamed(x *h.Ctx, c Named) string {
	input := []byte("a b c\nd e f\n")
	r := execute(c.Src, input, c.Cfg, 10*time.Second)
	desc := fmt.Sprintf("\nprogram: %s\nconfig: %+v\nstatus=%d err=%v", c.Src, c.Cfg, r.status, r.err)
	if msg := verdict(x, c.Src, r); msg != "" {
		return msg + desc
	}
	if r.parseErr != nil || r.hung {
		return ""
	}
	if r.timedOut {
		if c.Kind == "recursion" {
			return "runaway recursion was not reported as an error: the run only stopped at its 10 s deadline" + desc
		}
		x.Discard("deadline")
		return ""
	}
	if r.err == nil {
		what := map[string]string{"recursion": "runaway recursion", "field": "an oversized field number / NF", "regex": "an invalid dynamic regular expression"}[c.Kind]
		return what + " was not reported as an error: the run ended with an exit status" + desc
	}
	var ie *interp.Error
	if !errors.As(r.err, &ie) {
		return fmt.Sprintf("the condition ended the run with a %T, not an *interp.Error", r.err) + desc
	}
	x.Class(c.Kind)
	x.Nontrivial("")
	return ""
}

// ---------------------------------------------------------------- byte-level inputs x configuration matrix

type ByteCase struct {
	Prog  int   `json:"prog"`
	Input h.Str `json:"input"`
	Pad   int   `json:"pad"` // the input is preceded by this many filler bytes (to move it to a buffer edge)
	RS    h.Str `json:"rs"`
	FS    h.Str `json:"fs"`
	Cfg   Cfg   `json:"cfg"`
}

var probes = []string{
	`{ n += NF } END { print n, NR }`,
	`{ print $1, $NF; $2 = "x"; print; print RT }`,
	`{ for (i = NF; i > 0; i--) s = s $i } END { print length(s) }`,
	`BEGIN { while ((getline line) > 0) n += length(line); print n }`,
	`{ print NR, NF, length($0), RT }`,
	`NR % 2 { getline; print $1 } END { print NR }`,
	`{ $3 = ""; print; NF = 2; print; $0 = $0; print NF }`,
	`{ n += split($0, a, ""); print @"name", @"x" } END { print n }`,
	`BEGIN { while ((getline line < "-") > 0) n++; print n }`,
	`{ x = $1 + 0; y = ($2 < $3); print x, y, substr($0, 2, 3), index($0, $2), toupper($1) }`,
}

var alphabet = []string{"a", "b", " ", " ", "\t", "\n", "\n", "\r", "\r\n", ",", ",", "\"", "\"", "#", "\x00", "\x80", "\xff", "\xef\xbb\xbf", "é", "\xc3", "x", "1", "\n\n", "\n\r\n", "|", ";"}
var rsSet = []string{"\n", "\n", "", "", "\r\n", "a", "\x80", "x+", ",", "\n\n+", " ", "\n|b", "é", "\xc3", "(a|\n)+"}
var fsSet = []string{" ", " ", ",", "\t", "a+", "", "\x80", "|", "é", "[ ,]+", "\n", "\xc3"}

func genBytes(t *rapid.T) ByteCase {
	n := rapid.IntRange(0, 60).Draw(t, "n")
	var sb strings.Builder
	for i := 0; i < n; i++ {
		sb.WriteString(rapid.SampledFrom(alphabet).Draw(t, "piece"))
	}
	c := ByteCase{Prog: rapid.IntRange(0, len(probes)-1).Draw(t, "prog"), Input: h.Str(sb.String()), RS: h.Str(rapid.SampledFrom(rsSet).Draw(t, "rs")), FS: h.Str(rapid.SampledFrom(fsSet).Draw(t, "fs")), Cfg: genCfg(t)}
	c.Cfg.Vars, c.Cfg.Args = nil, nil
	if rapid.IntRange(0, 3).Draw(t, "edge") == 0 {
		// place the input so that it straddles the 64 KiB scanner buffer edge
		c.Pad = 65536 - rapid.IntRange(0, len(c.Input)+2).Draw(t, "back")
		if c.Pad < 0 {
			c.Pad = 0
		}
	}
	return c
}

func runBytes(x *h.Ctx, c ByteCase) string {
	input := []byte(c.Input)
	if c.Pad > 0 {
		filler := bytes.Repeat([]byte("p"), c.Pad)
		if c.Pad > 1 {
			filler[c.Pad/2] = '\n' // one record boundary inside the filler
		}
		if c.Cfg.Mode != "" && c.Pad > 3 && len(input) > 0 && input[0] == 0xef {
			// let a BOM stay at the very start
			input = append(append([]byte{}, input...), filler...)
		} else {
			input = append(filler, input...)
		}
	}
	cfg := c.Cfg
	cfg.Vars = []h.Str{"RS", c.RS, "FS", c.FS}
	r := execute(probes[c.Prog], input, cfg, 5*time.Second)
	if msg := verdict(x, probes[c.Prog], r); msg != "" {
		return fmt.Sprintf("%s\nprogram: %s\nRS=%s FS=%s config: %+v\ninput (after %d filler bytes): %s", msg, probes[c.Prog], h.Q(string(c.RS)), h.Q(string(c.FS)), c.Cfg, c.Pad, h.Q(h.Trunc(string(c.Input), 300)))
	}
	x.Class("mode-" + c.Cfg.Mode)
	hostile := c.Pad > 0
	for _, b := range []byte(c.Input) {
		if b >= 0x80 || b == 0 {
			hostile = true
		}
	}
	if hostile && r.parseErr == nil {
		x.Nontrivial("")
	}
	return ""
}

// ---------------------------------------------------------------- static well-formedness of the emitted code

// LintCase is one program whose compiled form is checked, for all inputs at
// once, by the static pass in lib/bclint.
type LintCase struct {
	Profile string `json:"profile"`
	Src     h.Str  `json:"src"`
}

func genLint(t *rapid.T) LintCase {
	profile := rapid.SampledFrom([]string{"hostile", "hostile", "exec", "exec", "syntax", "syntax", "io", "types"}).Draw(t, "profile")
	switch profile {
	case "hostile":
		return LintCase{profile, h.Str(genHostile(t).Src)}
	case "exec":
		return LintCase{profile, h.Str(awk.RenderProgram(awkgen.NewExec(t).Program(), awk.Minimal))}
	case "syntax":
		return LintCase{profile, h.Str(awk.RenderProgram(awkgen.NewSyn(t).Program(), awk.Minimal))}
	case "io":
		return LintCase{profile, h.Str(awk.RenderProgram(awkgen.NewIOGen(t).Program(), awk.Minimal))}
	default:
		p := awkgen.GenTProg(t)
		return LintCase{profile, h.Str(awkgen.DefaultNaming(p).Render(p))}
	}
}

func runLint(x *h.Ctx, c LintCase) string {
	prog, err := parser.ParseProgram([]byte(c.Src), nil)
	if err != nil {
		if strings.HasPrefix(c.Profile, "repo:") {
			x.Discard("repository file that is not an AWK program")
		} else {
			x.Discard("program rejected by the parser (" + c.Profile + ")")
		}
		return ""
	}
	probs, n, err := bclint.Lint(prog)
	if err != nil {
		x.Discard("static pass not applicable: " + err.Error())
		return ""
	}
	if strings.HasPrefix(c.Profile, "repo:") {
		x.Class("profile-repo")
	} else {
		x.Class("profile-" + c.Profile)
	}
	if n >= 10 {
		x.Nontrivial("")
	}
	if len(probs) > 0 {
		return fmt.Sprintf("the emitted code of an accepted program is not well formed:\n  %s\nprogram:\n%s", strings.Join(probs, "\n  "), h.Trunc(strings.TrimPrefix(string(c.Src), prelude), 3000))
	}
	return ""
}

// every AWK program that ships in the repository's testdata
func enumRepoPrograms(thorough bool, yield func(LintCase) bool) {
	root := h.RepoDir()
	var files []string
	for _, pat := range []string{"testdata/*", "testdata/*/*", "testdata/*/*/*"} {
		m, _ := filepath.Glob(filepath.Join(root, pat))
		files = append(files, m...)
	}
	for _, f := range files {
		b, err := os.ReadFile(f)
		if err != nil || len(b) == 0 || len(b) > 200000 {
			continue
		}
		if !yield(LintCase{"repo:" + strings.TrimPrefix(f, root+"/"), h.Str(b)}) {
			return
		}
	}
}

func init() {
	h.Prop("emitted_code_wellformed", 12000, 300000, genLint, runLint)
	h.Enum("emitted_code_wellformed_repo_programs", enumRepoPrograms, runLint)
	h.PropIsolated("hostile_programs", 24000, 400000, genHostile, runHostile)
	h.PropIsolated("named_conditions_are_errors", 4000, 40000, genNamed, runNamed)
	h.PropIsolated("byte_inputs_config_matrix", 16000, 300000, genBytes, runBytes)
}
