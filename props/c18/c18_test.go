// C18 — coverage instrumentation is transparent and its counts are exact.
package c18

import (
	"bytes"
	"context"
	"fmt"
	"os"
	"os/exec"
	"path/filepath"
	"regexp"
	"sort"
	"strconv"
	"strings"
	"testing"
	"time"

	"github.com/benhoyt/goawk/interp"
	"github.com/benhoyt/goawk/parser"
	"pgregory.net/rapid"

	"verif/lib/awk"
	"verif/lib/awkgen"
	"verif/lib/h"
	"verif/lib/runner"
)

func TestMain(m *testing.M)   { h.Main(m, "C18") }
func TestAll(t *testing.T)    { h.RunAll(t) }
func TestReplay(t *testing.T) { h.Replay(t) }

type Case struct {
	Tree   *awk.Program      `json:"tree"`
	Split  []int             `json:"split"` // file index of every top-level item (BEGINs, rules, ENDs, funcs in that order)
	Stdin  h.Str             `json:"stdin"`
	Args   []string          `json:"args,omitempty"`
	Files  map[string]string `json:"files"`
	Mode   string            `json:"mode"`   // set | count
	Append bool              `json:"append"` // -coverappend onto an existing profile from an earlier identical run
	Stale  bool              `json:"stale"`  // (without -coverappend) a longer profile of some earlier, different run already exists at the path: it must be replaced, not overwritten in place
	Flags  int               `json:"flags,omitempty"` // spelling and order of the two coverage options on the command line
	Cut    int               `json:"cut,omitempty"` // > 0: one program file is additionally cut in two after a line that opens a body ("... {"), so a top-level item (and the blocks nested in it) continues in the next -f file
}

func genCase(t *rapid.T) Case {
	g := awkgen.NewExec(t)
	g.IO = rapid.IntRange(0, 2).Draw(t, "io") > 0
	tree := g.Program()
	nitems := len(tree.Begin) + len(tree.Actions) + len(tree.End) + len(tree.Funcs)
	nfiles := rapid.IntRange(1, 3).Draw(t, "nfiles")
	c := Case{Tree: tree, Stdin: h.Str(awkgen.Input(t)), Files: map[string]string{"r0": awkgen.Input(t), "r1": awkgen.Input(t)},
		Mode: rapid.SampledFrom([]string{"set", "count"}).Draw(t, "mode"), Append: rapid.IntRange(0, 3).Draw(t, "append") == 0, Stale: rapid.IntRange(0, 3).Draw(t, "stale") == 0}
	for i := 0; i < nitems; i++ {
		c.Split = append(c.Split, rapid.IntRange(0, nfiles-1).Draw(t, "file"))
	}
	if rapid.IntRange(0, 2).Draw(t, "args") == 0 {
		c.Args = []string{"r0"}
	}
	if rapid.IntRange(0, 11).Draw(t, "onlyend") == 0 {
		// no rules, and END blocks that do nothing: the program still reads all its input (and fails on an operand it
		// cannot open), with coverage on as without
		tree.Actions = nil
		tree.End = nil
		for i := rapid.IntRange(1, 2).Draw(t, "nend"); i > 0; i-- {
			tree.End = append(tree.End, []*awk.Node{})
		}
		c.Split = nil
		for i := 0; i < len(tree.Begin)+len(tree.End)+len(tree.Funcs); i++ {
			c.Split = append(c.Split, rapid.IntRange(0, nfiles-1).Draw(t, "file2"))
		}
		c.Args = []string{rapid.SampledFrom([]string{"r0", "no-such-file", "r1"}).Draw(t, "endopd")}
	}
	if rapid.IntRange(0, 2).Draw(t, "cut?") == 0 {
		c.Cut = rapid.IntRange(1, 1000).Draw(t, "cut")
	}
	c.Flags = rapid.IntRange(0, 3).Draw(t, "flags")
	if rapid.IntRange(0, 1).Draw(t, "dead?") == 0 {
		// statements after an unconditional break / continue / next / nextfile / exit / return never run, but they are
		// statements of the program: each is counted in exactly one block like any other
		deadCode(t, tree)
	}
	return c
}

func deadCode(t *rapid.T, p *awk.Program) {
	var list func(l []*awk.Node) []*awk.Node
	list = func(l []*awk.Node) []*awk.Node {
		var out []*awk.Node
		for _, s := range l {
			s.Body = list(s.Body)
			s.Else = list(s.Else)
			out = append(out, s)
			switch s.K {
			case awk.Break, awk.Continue, awk.Next, awk.Nextfile, awk.Exit, awk.Return:
				for n := rapid.IntRange(0, 2).Draw(t, "ndead"); n > 0; n-- {
					if rapid.Bool().Draw(t, "deadprint") {
						out = append(out, awk.PrintN([]*awk.Node{awk.StrN("never")}, "", nil))
					} else {
						out = append(out, awk.ExprS(awk.IncrN("++", false, awk.VarN("dead_"))))
					}
				}
			}
		}
		if l == nil && out == nil {
			return nil
		}
		return out
	}
	for i := range p.Begin {
		p.Begin[i] = list(p.Begin[i])
	}
	for _, a := range p.Actions {
		if !a.NoBody {
			a.Body = list(a.Body)
		}
	}
	for i := range p.End {
		p.End[i] = list(p.End[i])
	}
	for _, f := range p.Funcs {
		f.Body = list(f.Body)
	}
}

// coverFlags spells the two coverage options: either order, separate or joined with "="
func coverFlags(form int, mode string) []string {
	switch form {
	case 1:
		return []string{"-covermode", mode, "-coverprofile", "cover.out"}
	case 2:
		return []string{"-covermode=" + mode, "-coverprofile=cover.out"}
	case 3:
		return []string{"-coverprofile=cover.out", "-covermode=" + mode}
	}
	return []string{"-coverprofile", "cover.out", "-covermode", mode}
}

// cutFile splits one of the program texts after a line that opens the body of a rule, function or compound
// statement.  No basic block has statements on both sides of such a cut (a block ends with the header of the
// compound statement; "do {" and a bare "{" are not cut after, because goawk ends those blocks at the closing
// line), so every reported block must still lie in one file.  Statement positions are moved accordingly.
func cutFile(texts []string, infos map[int]stmtInfo, cut int) ([]string, bool) {
	if cut <= 0 || len(texts) == 0 {
		return texts, false
	}
	fi := cut % len(texts)
	lines := strings.SplitAfter(texts[fi], "\n")
	var cands []int
	var open []bool // stack of open bodies: true = a do-while or bare block (its basic block reaches to the closing line)
	for i, l := range lines {
		t := strings.TrimSpace(l)
		if strings.HasPrefix(t, "}") && len(open) > 0 {
			open = open[:len(open)-1]
		}
		if strings.HasSuffix(t, "{") {
			long := t == "{" || strings.HasPrefix(t, "do")
			open = append(open, long)
			inLong := false
			for _, o := range open {
				inLong = inLong || o
			}
			if !inLong && i+1 < len(lines) && strings.TrimSpace(strings.Join(lines[i+1:], "")) != "" {
				cands = append(cands, i+1) // cut after line i+1 (1-based)
			}
		}
	}
	if len(cands) == 0 {
		return texts, false
	}
	at := cands[(cut/len(texts))%len(cands)]
	out := append([]string{}, texts[:fi]...)
	out = append(out, strings.Join(lines[:at], ""), strings.Join(lines[at:], ""))
	out = append(out, texts[fi+1:]...)
	for id, in := range infos {
		switch {
		case in.file == fi && in.line > at:
			in.file, in.line = fi+1, in.line-at
		case in.file > fi:
			in.file++
		}
		infos[id] = in
	}
	return out, true
}

// splitProgram distributes the top-level items over files, keeping their relative order per kind.
func splitProgram(p *awk.Program, split []int) []*awk.Program {
	n := 0
	for _, s := range split {
		if s+1 > n {
			n = s + 1
		}
	}
	if n == 0 {
		n = 1
	}
	parts := make([]*awk.Program, n)
	for i := range parts {
		parts[i] = &awk.Program{}
	}
	k := 0
	at := func() *awk.Program {
		f := 0
		if k < len(split) {
			f = split[k]
		}
		k++
		return parts[f]
	}
	for _, b := range p.Begin {
		q := at()
		q.Begin = append(q.Begin, b)
	}
	for _, a := range p.Actions {
		q := at()
		q.Actions = append(q.Actions, a)
	}
	for _, e := range p.End {
		q := at()
		q.End = append(q.End, e)
	}
	for _, f := range p.Funcs {
		q := at()
		q.Funcs = append(q.Funcs, f)
	}
	return parts
}

type stmtInfo struct {
	id   int
	file int
	line int
	col  int
}

// number assigns ids to every statement of every statement list.
func number(p *awk.Program) int {
	id := 0
	var list func(l []*awk.Node)
	list = func(l []*awk.Node) {
		for _, s := range l {
			id++
			s.ID = id
			list(s.Body)
			list(s.Else)
		}
	}
	for _, b := range p.Begin {
		list(b)
	}
	for _, a := range p.Actions {
		list(a.Body)
	}
	for _, e := range p.End {
		list(e)
	}
	for _, f := range p.Funcs {
		list(f.Body)
	}
	return id
}

func collect(p *awk.Program, file int, out map[int]stmtInfo) {
	var list func(l []*awk.Node)
	list = func(l []*awk.Node) {
		for _, s := range l {
			out[s.ID] = stmtInfo{id: s.ID, file: file, line: s.Line, col: s.Col}
			list(s.Body)
			list(s.Else)
		}
	}
	for _, b := range p.Begin {
		list(b)
	}
	for _, a := range p.Actions {
		list(a.Body)
	}
	for _, e := range p.End {
		list(e)
	}
	for _, f := range p.Funcs {
		list(f.Body)
	}
}

// instrument returns a copy with "__VC[id]++" in front of every statement of every statement list.
func instrument(p *awk.Program) *awk.Program {
	var list func(l []*awk.Node) []*awk.Node
	list = func(l []*awk.Node) []*awk.Node {
		if l == nil {
			return nil
		}
		out := make([]*awk.Node, 0, 2*len(l))
		for _, s := range l {
			c := *s
			c.Body = list(s.Body)
			c.Else = list(s.Else)
			out = append(out, awk.ExprS(awk.IncrN("++", false, awk.IndexN("__VC", awk.NumN(float64(s.ID))))), &c)
		}
		return out
	}
	q := &awk.Program{}
	for _, b := range p.Begin {
		q.Begin = append(q.Begin, list(b))
	}
	for _, a := range p.Actions {
		na := &awk.Action{Pattern: a.Pattern, NoBody: a.NoBody}
		if !a.NoBody {
			na.Body = list(a.Body)
			if na.Body == nil {
				na.Body = []*awk.Node{}
			}
		}
		q.Actions = append(q.Actions, na)
	}
	for _, e := range p.End {
		q.End = append(q.End, list(e))
	}
	for _, f := range p.Funcs {
		q.Funcs = append(q.Funcs, &awk.Func{Name: f.Name, Params: f.Params, Body: list(f.Body)})
	}
	return q
}

type cliResult struct {
	stdout string
	stderr string
	status int
	files  map[string]string
}

func prepareDir(files map[string]string, progs []string) (string, []string) {
	dir := h.TempDir("c18")
	for name, content := range files {
		os.WriteFile(filepath.Join(dir, name), []byte(content), 0o644)
	}
	var fargs []string
	for i, src := range progs {
		name := fmt.Sprintf("prog%d.awk", i)
		os.WriteFile(filepath.Join(dir, name), []byte(src), 0o644)
		fargs = append(fargs, "-f", name)
	}
	return dir, fargs
}

func runCLI(dir string, args []string, stdin string, initial map[string]string) cliResult {
	ctx, cancel := context.WithTimeout(context.Background(), 30*time.Second)
	defer cancel()
	cmd := exec.CommandContext(ctx, h.GoawkBin, args...)
	cmd.Dir = dir
	cmd.Stdin = strings.NewReader(stdin)
	cmd.Env = []string{"HOME=/h", "N=7"}
	var out, errb bytes.Buffer
	cmd.Stdout = &out
	cmd.Stderr = &errb
	err := cmd.Run()
	r := cliResult{stdout: out.String(), stderr: errb.String(), files: map[string]string{}}
	if ee, ok := err.(*exec.ExitError); ok {
		r.status = ee.ExitCode()
	} else if err != nil {
		r.status = -1
		r.stderr += err.Error()
	}
	entries, _ := os.ReadDir(dir)
	for _, e := range entries {
		if strings.HasPrefix(e.Name(), "prog") || e.Name() == "cover.out" {
			continue
		}
		data, _ := os.ReadFile(filepath.Join(dir, e.Name()))
		if init, ok := initial[e.Name()]; ok && init == string(data) {
			continue
		}
		r.files[e.Name()] = string(data)
	}
	return r
}

var profLineRE = regexp.MustCompile(`^(.*):(\d+)\.(\d+),(\d+)\.(\d+) (\d+) (\d+)$`)

type block struct {
	file                 string
	l1, c1, l2, c2, n, v int
}

func run(x *h.Ctx, c Case) string {
	tree := awk.CloneProgram(c.Tree)
	total := number(tree)
	parts := splitProgram(tree, c.Split)
	var texts []string
	infos := map[int]stmtInfo{}
	for i, part := range parts {
		texts = append(texts, awk.NewRenderer(awk.Minimal).Program(part))
		collect(part, i, infos)
	}
	texts, wasCut := cutFile(texts, infos, c.Cut)
	joined := strings.Join(texts, "")
	gp, err := parser.ParseProgram([]byte(joined), nil)
	if err != nil {
		x.Discard("generated program rejected: " + h.Trunc(err.Error(), 60))
		return ""
	}
	// guard: only run programs whose reference evaluation stays within the step and size budget
	// (the exec profile can still build strings that double in every loop iteration)
	if jt, err := awk.FromGoawk(gp); err == nil {
		_, res := runner.Reference(jt, gp, string(c.Stdin), c.Args, nil, runner.Sandbox{Files: c.Files}, 100000)
		if res.Exhausted {
			x.Discard("reference step/size budget exhausted")
			return ""
		}
	}
	describe := func() string {
		var sb strings.Builder
		for i, t := range texts {
			fmt.Fprintf(&sb, "--- prog%d.awk:\n%s", i, t)
		}
		fmt.Fprintf(&sb, "--- stdin: %q operands: %q files: %q\n", c.Stdin, c.Args, c.Files)
		return sb.String()
	}

	// plain run
	dirA, fargs := prepareDir(c.Files, texts)
	defer os.RemoveAll(dirA)
	plain := runCLI(dirA, append(append([]string{}, fargs...), c.Args...), string(c.Stdin), c.Files)
	if plain.status == -1 {
		x.Discard("CLI run timed out")
		return ""
	}
	if plain.status == 2 || plain.stderr != "" {
		// the program ends with a run-time error (or writes to stderr): only transparency is decided -- the same
		// output, exit status and message with coverage on, whether or not a profile gets written
		dirE, _ := prepareDir(c.Files, texts)
		defer os.RemoveAll(dirE)
		eargs := append(coverFlags(c.Flags, c.Mode), fargs...)
		cov := runCLI(dirE, append(eargs, c.Args...), string(c.Stdin), c.Files)
		if cov.status == -1 {
			x.Discard("CLI run timed out")
			return ""
		}
		if cov.stdout != plain.stdout || cov.status != plain.status || cov.stderr != plain.stderr || fmt.Sprint(sortedFiles(cov.files)) != fmt.Sprint(sortedFiles(plain.files)) {
			return fmt.Sprintf("running with -covermode %s changes the behaviour of a program that ends with an error\nwithout coverage: status=%d stdout=%q stderr=%q files=%q\nwith coverage:    status=%d stdout=%q stderr=%q files=%q\n%s", c.Mode,
				plain.status, h.Trunc(plain.stdout, 600), plain.stderr, plain.files, cov.status, h.Trunc(cov.stdout, 600), h.Trunc(cov.stderr, 300), cov.files, describe())
		}
		x.Class("error-run-transparency-only")
		return ""
	}
	// coverage run
	dirB, _ := prepareDir(c.Files, texts)
	defer os.RemoveAll(dirB)
	cargs := append(coverFlags(c.Flags, c.Mode), fargs...)
	cargs = append(cargs, c.Args...)
	var first cliResult
	if c.Stale && !c.Append {
		var old strings.Builder
		old.WriteString("mode: count\n")
		for i := 1; i <= 400; i++ {
			fmt.Fprintf(&old, "/nonexistent/earlier-program.awk:%d.1,%d.20 1 12345678\n", i, i)
		}
		os.WriteFile(filepath.Join(dirB, "cover.out"), []byte(old.String()), 0o644)
	}
	if c.Append {
		// an earlier identical run leaves a profile behind; the second run appends to it
		first = runCLI(dirB, cargs, string(c.Stdin), c.Files)
		// restore the sandbox files for the second run
		for name := range first.files {
			os.Remove(filepath.Join(dirB, name))
		}
		for name, content := range c.Files {
			os.WriteFile(filepath.Join(dirB, name), []byte(content), 0o644)
		}
		cargs = append([]string{"-coverappend"}, cargs...)
	}
	cov := runCLI(dirB, cargs, string(c.Stdin), c.Files)
	// (1) transparency
	if cov.stdout != plain.stdout || cov.status != plain.status || cov.stderr != plain.stderr || fmt.Sprint(sortedFiles(cov.files)) != fmt.Sprint(sortedFiles(plain.files)) {
		return fmt.Sprintf("running with -covermode %s changes the program's behaviour\nwithout coverage: status=%d stdout=%q stderr=%q files=%q\nwith coverage:    status=%d stdout=%q stderr=%q files=%q\n%s", c.Mode,
			plain.status, h.Trunc(plain.stdout, 600), plain.stderr, plain.files, cov.status, h.Trunc(cov.stdout, 600), h.Trunc(cov.stderr, 300), cov.files, describe())
	}
	if plain.status == -1 || cov.status == -1 {
		x.Discard("CLI run timed out")
		return ""
	}
	profData, err := os.ReadFile(filepath.Join(dirB, "cover.out"))
	if err != nil {
		return fmt.Sprintf("no coverage profile was written: %v\n%s", err, describe())
	}
	lines := strings.Split(strings.TrimSuffix(string(profData), "\n"), "\n")
	if len(lines) == 0 || lines[0] != "mode: "+c.Mode {
		return fmt.Sprintf("profile does not start with the mode line: %q\n%s", lines[0], describe())
	}
	var blocks []block
	for _, l := range lines[1:] {
		if strings.HasPrefix(l, "mode:") {
			return fmt.Sprintf("the mode header appears more than once in the profile\n%s\n%s", string(profData), describe())
		}
		m := profLineRE.FindStringSubmatch(l)
		if m == nil {
			return fmt.Sprintf("malformed profile line %q\n%s", l, describe())
		}
		b := block{file: m[1]}
		b.l1, _ = strconv.Atoi(m[2])
		b.c1, _ = strconv.Atoi(m[3])
		b.l2, _ = strconv.Atoi(m[4])
		b.c2, _ = strconv.Atoi(m[5])
		b.n, _ = strconv.Atoi(m[6])
		b.v, _ = strconv.Atoi(m[7])
		blocks = append(blocks, b)
	}
	if c.Append {
		// two identical runs: the profile must hold the blocks twice (old lines first)
		if len(blocks)%2 != 0 {
			return fmt.Sprintf("-coverappend: expected the block list twice, got %d lines\n%s", len(blocks), describe())
		}
		half := len(blocks) / 2
		for i := 0; i < half; i++ {
			if blocks[i] != blocks[half+i] {
				return fmt.Sprintf("-coverappend: the appended lines differ from those of the identical earlier run\n%v\n%v\n%s", blocks[i], blocks[half+i], describe())
			}
		}
		blocks = blocks[half:]
	}
	// begin-counts from our own instrumentation, run in-process
	// the program as the files present it: items in file order
	ordered := &awk.Program{}
	for _, part := range parts {
		ordered.Begin = append(ordered.Begin, part.Begin...)
		ordered.Actions = append(ordered.Actions, part.Actions...)
		ordered.End = append(ordered.End, part.End...)
		ordered.Funcs = append(ordered.Funcs, part.Funcs...)
	}
	inst := instrument(ordered)
	instSrc := awk.RenderProgram(inst, awk.Minimal)
	ip, err := parser.ParseProgram([]byte(instSrc), nil)
	if err != nil {
		return fmt.Sprintf("harness: instrumented program does not parse: %v\n%s", err, instSrc)
	}
	dirC := h.TempDir("c18i")
	defer os.RemoveAll(dirC)
	for name, content := range c.Files {
		os.WriteFile(filepath.Join(dirC, name), []byte(content), 0o644)
	}
	var iout bytes.Buffer
	it, _ := interp.New(ip)
	_, ierr := it.Execute(&interp.Config{Stdin: strings.NewReader(string(c.Stdin)), Output: &iout, Error: &iout, Argv0: "goawk", Args: c.Args, Environ: []string{"HOME", "/h", "N", "7"}, NoExec: true,
		OpenFile: func(name string, flag int, perm os.FileMode) (*os.File, error) {
			return os.OpenFile(filepath.Join(dirC, filepath.Base(name)), flag, perm)
		}})
	if ierr != nil || iout.String() != plain.stdout {
		x.Discard("instrumented run not comparable")
		return ""
	}
	counts := map[int]int{}
	for k, v := range it.Array("__VC") {
		id, _ := strconv.Atoi(k)
		if f, ok := v.(float64); ok {
			counts[id] = int(f)
		}
	}
	// statements by (file, line, col)
	type pos struct{ file, line, col int }
	byPos := map[pos]int{}
	for id, in := range infos {
		byPos[pos{in.file, in.line, in.col}] = id
	}
	fileIndex := map[string]int{}
	fileLines := map[int][]string{}
	for i, t := range texts {
		abs, _ := filepath.Abs(filepath.Join(dirB, fmt.Sprintf("prog%d.awk", i)))
		fileIndex[abs] = i
		fileLines[i] = strings.Split(t, "\n")
	}
	sumN := 0
	early := false
	for _, b := range blocks {
		fi, ok := fileIndex[b.file]
		if !ok {
			return fmt.Sprintf("profile names %q, which is not one of the program files\n%s", b.file, describe())
		}
		// (3) ranges inside the file, start before end
		fl := fileLines[fi]
		inside := func(l, col int) bool { return l >= 1 && l <= len(fl) && col >= 1 && col <= len(fl[l-1])+1 }
		if !inside(b.l1, b.c1) || !inside(b.l2, b.c2) {
			return fmt.Sprintf("block %s:%d.%d,%d.%d lies outside its source file (%d lines)\n%s", filepath.Base(b.file), b.l1, b.c1, b.l2, b.c2, len(fl), describe())
		}
		if !(b.l1 < b.l2 || b.l1 == b.l2 && b.c1 < b.c2) {
			return fmt.Sprintf("block %s:%d.%d,%d.%d does not start before its end\n%s", filepath.Base(b.file), b.l1, b.c1, b.l2, b.c2, describe())
		}
		// (2) counts
		id, ok := byPos[pos{fi, b.l1, b.c1}]
		if !ok {
			return fmt.Sprintf("block %s:%d.%d starts where no statement starts\n%s", filepath.Base(b.file), b.l1, b.c1, describe())
		}
		want := counts[id]
		if c.Mode == "set" && want > 1 {
			want = 1
		}
		if b.v != want {
			return fmt.Sprintf("block %s:%d.%d (%d statements): profile says %d, but its first statement began executing %d times (mode %s)\n%s", filepath.Base(b.file), b.l1, b.c1, b.n, b.v, counts[id], c.Mode, describe())
		}
		sumN += b.n
	}
	// (4) partition: every statement in exactly one block
	if sumN != total {
		return fmt.Sprintf("the blocks count %d statements, the program has %d\n%s\nprofile:\n%s", sumN, total, describe(), string(profData))
	}
	owned := map[int]int{}
	for id, in := range infos {
		best := -1
		for bi, b := range blocks {
			if fileIndex[b.file] != in.file {
				continue
			}
			if b.l1 < in.line || b.l1 == in.line && b.c1 <= in.col {
				if best < 0 || blocks[best].l1 < b.l1 || blocks[best].l1 == b.l1 && blocks[best].c1 < b.c1 {
					best = bi
				}
			}
		}
		if best < 0 {
			return fmt.Sprintf("statement %d at prog%d.awk:%d.%d is in no block\n%s", id, in.file, in.line, in.col, describe())
		}
		owned[best]++
	}
	for bi, b := range blocks {
		if owned[bi] != b.n {
			return fmt.Sprintf("block %s:%d.%d claims %d statements but %d statements start inside it before the next block\n%s\nprofile:\n%s", filepath.Base(b.file), b.l1, b.c1, b.n, owned[bi], describe(), string(profData))
		}
	}
	for id, in := range infos {
		_ = in
		if counts[id] == 0 {
			early = true
		}
	}
	x.Class("mode-" + c.Mode)
	if c.Append {
		x.Class("append")
	}
	x.Class(fmt.Sprintf("files-%d", len(texts)))
	if wasCut {
		x.Class("item-continues-in-next-file")
	}
	if len(blocks) >= 3 && early {
		x.Nontrivial("")
	}
	return ""
}

func sortedFiles(m map[string]string) []string {
	var out []string
	for k, v := range m {
		out = append(out, k+"="+v)
	}
	sort.Strings(out)
	return out
}

func init() {
	h.PropIsolated("coverage_transparent_exact", 2400, 40000, genCase, run)
}

// ---------------------------------------------------------------------------
// a statement list that continues in the next -f file (KF-C18-2)

type SpanCase struct {
	A string `json:"a"` // first program file
	B string `json:"b"` // second program file: continues the statement list A leaves open
}

func enumSpan(thorough bool, yield func(SpanCase) bool) {
	for _, c := range []SpanCase{
		{"BEGIN {\n  print 1\n", "  print 2\n}\n"},
		{"BEGIN {\n  x = 1\n  y = 2\n", "  z = 3\n  print x, y, z\n}\n"},
		{"function f(a) {\n  a = a + 1\n", "  return a\n}\nBEGIN { print f(1) }\n"},
		{"{ n++\n", "  m += 2 }\nEND { print n, m }\n"},
		{"BEGIN {\n  if (1) {\n    print 1\n", "    print 2\n  }\n}\n"},
	} {
		if !yield(c) {
			return
		}
	}
}

func runSpan(x *h.Ctx, c SpanCase) string {
	dir := h.TempDir("c18s")
	defer os.RemoveAll(dir)
	os.WriteFile(filepath.Join(dir, "a.awk"), []byte(c.A), 0o644)
	os.WriteFile(filepath.Join(dir, "b.awk"), []byte(c.B), 0o644)
	r := runCLI(dir, []string{"-coverprofile", "cover.out", "-covermode", "count", "-f", "a.awk", "-f", "b.awk"}, "x\n", nil)
	if r.status != 0 {
		x.Discard("run failed")
		return ""
	}
	data, err := os.ReadFile(filepath.Join(dir, "cover.out"))
	if err != nil {
		return "no coverage profile was written"
	}
	lines := map[string]int{"a.awk": strings.Count(c.A, "\n"), "b.awk": strings.Count(c.B, "\n")}
	for _, l := range strings.Split(strings.TrimSpace(string(data)), "\n")[1:] {
		m := profLineRE.FindStringSubmatch(l)
		if m == nil {
			return "malformed profile line " + l
		}
		l1, _ := strconv.Atoi(m[2])
		c1, _ := strconv.Atoi(m[3])
		l2, _ := strconv.Atoi(m[4])
		c2, _ := strconv.Atoi(m[5])
		n := lines[filepath.Base(m[1])]
		if l1 < 1 || l2 < 1 || l1 > n || l2 > n || !(l1 < l2 || l1 == l2 && c1 < c2) {
			if h.KFOpen("KF-C18-2") {
				// the block's statements lie in two -f files: the end line is numbered within the second file
				x.Excluded("KF-C18-2")
				return ""
			}
			return fmt.Sprintf("a block whose statements lie in two -f files is reported as %s: not inside the named file with its start before its end\n--- a.awk:\n%s--- b.awk:\n%s", l, c.A, c.B)
		}
	}
	x.Nontrivial("")
	return ""
}

func init() {
	h.EnumSample("statement_list_continues_in_next_file", enumSpan, runSpan)
}

// ---------------------------------------------------------------------------
// counts stay exact (and stay decimal integers) when blocks execute very often

type BigCase struct {
	N    int    `json:"n"`
	Form string `json:"form"` // loop | nested | while | records
	Mode string `json:"mode"`
}

func enumBig(thorough bool, yield func(BigCase) bool) {
	ns := []int{999999, 1000000, 1000001, 1234567, 2097153}
	if thorough {
		ns = append(ns, 9999999, 10000000, 16777217, 33554433)
	}
	for _, n := range ns {
		for _, form := range []string{"loop", "nested", "while", "records"} {
			if form == "records" && n > 2200000 {
				continue
			}
			for _, mode := range []string{"count", "set"} {
				if !yield(BigCase{N: n, Form: form, Mode: mode}) {
					return
				}
			}
		}
	}
}

func runBig(x *h.Ctx, c BigCase) string {
	dir := h.TempDir("c18b")
	defer os.RemoveAll(dir)
	var src, stdin string
	// want: count of the block at each source line (1-based) that starts a block
	want := map[int]int{}
	switch c.Form {
	case "loop":
		src = fmt.Sprintf("BEGIN {\n  for (i = 0; i < %d; i++)\n    x++\n  print x\n}\n", c.N)
		want[2], want[3], want[4] = 1, c.N, 1
	case "nested":
		a, b := 1000, c.N/1000
		src = fmt.Sprintf("BEGIN {\n  for (i = 0; i < %d; i++)\n    for (j = 0; j < %d; j++)\n      x++\n  print x\n}\n", a, b)
		want[2], want[3], want[4], want[5] = 1, a, a*b, 1
	case "while":
		src = fmt.Sprintf("BEGIN {\n  while (i < %d) {\n    i++\n    if (i %% 2)\n      odd++\n  }\n  print i, odd\n}\n", c.N)
		want[2], want[3], want[5], want[7] = 1, c.N, (c.N+1)/2, 1
	default:
		src = "{\n  n++\n}\nEND {\n  print n\n}\n"
		stdin = strings.Repeat("\n", c.N)
		want[2], want[5] = c.N, 1
	}
	os.WriteFile(filepath.Join(dir, "p.awk"), []byte(src), 0o644)
	plain := runCLI(dir, []string{"-f", "p.awk"}, stdin, nil)
	r := runCLI(dir, []string{"-coverprofile", "cover.out", "-covermode", c.Mode, "-f", "p.awk"}, stdin, nil)
	if plain.status == -1 || r.status == -1 {
		// killed by the harness's 30 s limit on a saturated machine: time is not a verdict
		x.Discard("run did not finish within the harness's time limit")
		return ""
	}
	if r.status != plain.status || r.stdout != plain.stdout || r.stderr != plain.stderr {
		return fmt.Sprintf("coverage changes the run: without status=%d stdout=%q stderr=%q, with status=%d stdout=%q stderr=%q\n%s", plain.status, plain.stdout, plain.stderr, r.status, r.stdout, r.stderr, src)
	}
	data, err := os.ReadFile(filepath.Join(dir, "cover.out"))
	if err != nil {
		return "no coverage profile was written"
	}
	seen := map[int]bool{}
	for _, l := range strings.Split(strings.TrimSpace(string(data)), "\n")[1:] {
		m := profLineRE.FindStringSubmatch(l)
		if m == nil {
			return fmt.Sprintf("profile line %q is not '<file>:<l>.<c>,<l>.<c> <statements> <count>' with a decimal integer count\n%s", l, src)
		}
		l1, _ := strconv.Atoi(m[2])
		n, _ := strconv.Atoi(m[7])
		w, ok := want[l1]
		if !ok {
			return fmt.Sprintf("unexpected block starting at line %d: %s\n%s", l1, l, src)
		}
		if c.Mode == "set" && w > 0 {
			w = 1
		}
		if n != w {
			return fmt.Sprintf("block starting at line %d executed %d times, the profile (%s mode) says %d: %s\n%s", l1, want[l1], c.Mode, n, l, src)
		}
		seen[l1] = true
	}
	for l1 := range want {
		if !seen[l1] {
			return fmt.Sprintf("no block reported for the statement at line %d\nprofile:\n%s\n%s", l1, data, src)
		}
	}
	x.Nontrivial("")
	return ""
}

func init() {
	h.Enum("large_counts", enumBig, runBig)
}
