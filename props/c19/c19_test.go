// C19 — parsing is deterministic; a parsed Program is immutable and shareable.
package c19

import (
	"bytes"
	"context"
	"fmt"
	"sort"
	"strings"
	"sync"
	"testing"

	"github.com/benhoyt/goawk/interp"
	"github.com/benhoyt/goawk/parser"
	"pgregory.net/rapid"

	"verif/lib/awk"
	"verif/lib/awkgen"
	"verif/lib/fingerprint"
	"verif/lib/h"
)

func TestMain(m *testing.M)   { h.Main(m, "C19") }
func TestAll(t *testing.T)    { h.RunAll(t) }
func TestReplay(t *testing.T) { h.Replay(t) }

// ---------------------------------------------------------------------------
// (1) determinism of parsing

type DetCase struct {
	Src   h.Str  `json:"src"`
	Kind  string `json:"kind"`
	NErrs int    `json:"nerrs,omitempty"`
}

// independent error snippets; %d is replaced by a unique number
var errSnippets = []string{
	"function ta%d(a) { a[1] = 1; a = 2 }",
	"BEGIN { xa%d[1] = 1; xa%d = 2 }",
	"function tb%d(a) { a[1] = 1 }\nBEGIN { tb%d(1) }",
	"function tc%d(a) { return a + 1 }\nBEGIN { arr%d[1] = 1; tc%d(arr%d) }",
	"BEGIN { y%d = (1, 2) }",
	"BEGIN {\n      z%d = 3;   w%d = (3, 4)\n }",
	"  END { (5, 6) }",
	"BEGIN { undef%d() }",
	"function td%d(a) { }\nBEGIN { td%d(1, 2) }",
	"function te%d() { }\nBEGIN { te%d = 1 }",
	"function tf%d(x) { x() }",
	"function tg%d(a, b) { b[1] = 1; th%d(a) }\nfunction th%d(c) { c[2]; tg%d(1, c) }",
	"function ti%d(p) { tj%d(p) }\nfunction tj%d(q) { q[1] = 1 }\nBEGIN { s%d = 1; ti%d(s%d) }",
	"{ split($0, sp%d); sp%d = 1 }",
	"BEGIN { for (k in fi%d) fi%d++ }",
}

var fillers = []string{
	"BEGIN { ok%d = 1 }",
	"function fok%d(a, b) { b[a] = 1; return a }",
	"{ n%d++ }",
	"END { print n%d }",
	"/re%d/ { next }",
	"function gok%d(q) { return fok(q, arrq%d) }\nfunction fok(a, b) { b[a]; return 1 }",
}

func genMultiError(t *rapid.T) DetCase {
	nerr := rapid.IntRange(2, 5).Draw(t, "nerr")
	nfill := rapid.IntRange(0, 4).Draw(t, "nfill")
	var items []string
	fokDefined := false
	for i := 0; i < nerr; i++ {
		s := rapid.SampledFrom(errSnippets).Draw(t, "err")
		items = append(items, strings.ReplaceAll(s, "%d", fmt.Sprint(100+i)))
	}
	for i := 0; i < nfill; i++ {
		s := rapid.SampledFrom(fillers).Draw(t, "fill")
		if strings.Contains(s, "function fok(") {
			if fokDefined {
				continue
			}
			fokDefined = true
		}
		items = append(items, strings.ReplaceAll(s, "%d", fmt.Sprint(200+i)))
	}
	items = rapid.Permutation(items).Draw(t, "order")
	var sb strings.Builder
	for _, it := range items {
		for j := rapid.IntRange(0, 2).Draw(t, "blank"); j > 0; j-- {
			sb.WriteString("\n")
		}
		sb.WriteString(strings.Repeat(" ", rapid.IntRange(0, 6).Draw(t, "indent")))
		sb.WriteString(it)
		sb.WriteString("\n")
	}
	return DetCase{Src: h.Str(sb.String()), Kind: "multi-error", NErrs: nerr}
}

func genManyFuncs(t *rapid.T) DetCase {
	// many functions with a dense call graph; arrays passed along so that the resolver needs several passes
	n := rapid.IntRange(10, 40).Draw(t, "n")
	var sb strings.Builder
	for i := 0; i < n; i++ {
		fmt.Fprintf(&sb, "function m%d(a, b) {", i)
		for c := rapid.IntRange(0, 3).Draw(t, "ncalls"); c > 0; c-- {
			j := rapid.IntRange(0, n-1).Draw(t, "callee")
			if rapid.Bool().Draw(t, "swap") {
				fmt.Fprintf(&sb, " if (0) m%d(a, b);", j)
			} else {
				fmt.Fprintf(&sb, " if (0) m%d(a \"\", b);", j)
			}
		}
		if rapid.IntRange(0, 5).Draw(t, "direct") == 0 {
			sb.WriteString(" b[a] = 1;")
		}
		sb.WriteString(" return a }\n")
	}
	fmt.Fprintf(&sb, "BEGIN { arr[1] = 1; m%d(1, arr); print length(arr) }\n", rapid.IntRange(0, n-1).Draw(t, "root"))
	if rapid.IntRange(0, 2).Draw(t, "witherr") == 0 {
		fmt.Fprintf(&sb, "BEGIN { m%d(1, 2) }\nBEGIN { q = (1, 2) }\n", rapid.IntRange(0, n-1).Draw(t, "errf"))
	}
	return DetCase{Src: h.Str(sb.String()), Kind: "many-functions"}
}

func genSyntax(t *rapid.T) DetCase {
	g := awkgen.NewSyn(t)
	g.MaxDepth = 3
	src := awk.RenderProgram(g.Program(), awk.Minimal)
	if rapid.IntRange(0, 2).Draw(t, "break") == 0 && len(src) > 0 {
		// introduce syntax errors at a few places
		for k := rapid.IntRange(1, 3).Draw(t, "nbreak"); k > 0; k-- {
			p := rapid.IntRange(0, len(src)-1).Draw(t, "pos")
			src = src[:p] + rapid.SampledFrom([]string{")", "(", "}", ",", "@", "1e", "\"", "(1,2)"}).Draw(t, "junk") + src[p:]
		}
		return DetCase{Src: h.Str(src), Kind: "syntax-broken"}
	}
	return DetCase{Src: h.Str(src), Kind: "syntax-valid"}
}

func genTypes(t *rapid.T) DetCase {
	p := awkgen.GenTProg(t)
	return DetCase{Src: h.Str(awkgen.DefaultNaming(p).Render(p)), Kind: "types-model"}
}

// programs that call native (Go) functions next to user-defined ones: both kinds are numbered from 0
func genNativeCalls(t *rapid.T) DetCase {
	var sb strings.Builder
	nu := rapid.IntRange(0, 4).Draw(t, "nuser")
	for i := 0; i < nu; i++ {
		fmt.Fprintf(&sb, "function u%d(a) { return a + %d }\n", i, i)
	}
	calls := []string{"nat_add(1, 2)", "nat_len(\"abc\")", "zz_last(\"a\", \"b\")", "nat_add(nat_len(\"x\"), 1)"}
	for i := 0; i < nu; i++ {
		calls = append(calls, fmt.Sprintf("u%d(%d)", i, i))
	}
	n := rapid.IntRange(1, 5).Draw(t, "ncalls")
	sb.WriteString("BEGIN {")
	for i := 0; i < n; i++ {
		fmt.Fprintf(&sb, " print %s;", rapid.SampledFrom(calls).Draw(t, "call"))
	}
	sb.WriteString(" }\n")
	return DetCase{Src: h.Str(sb.String()), Kind: "native-calls"}
}

func genDet(t *rapid.T) DetCase {
	switch k := rapid.IntRange(0, 10).Draw(t, "kind"); {
	case k == 10:
		return genNativeCalls(t)
	case k < 4:
		return genMultiError(t)
	case k < 6:
		return genManyFuncs(t)
	case k < 8:
		return genSyntax(t)
	default:
		return genTypes(t)
	}
}

var nativeFuncs = map[string]any{
	"nat_add": func(a, b float64) float64 { return a + b },
	"nat_len": func(s string) int { return len(s) },
	"zz_last": func(args ...string) string { return strings.Join(args, "|") },
	// functions that work in place on the byte slices they are given: an argument is a value, so what they do to
	// it is theirs alone (it must not reach the Program's constants, a variable or the record)
	"nat_rot": func(b []byte) []byte {
		for i, c := range b {
			switch {
			case c >= 'a' && c <= 'z':
				b[i] = 'a' + (c-'a'+13)%26
			case c >= 'A' && c <= 'Z':
				b[i] = 'A' + (c-'A'+13)%26
			}
		}
		return b
	},
	"nat_fill": func(bs ...[]byte) int {
		n := 0
		for _, b := range bs {
			for i := range b {
				b[i] = '#'
				n++
			}
		}
		return n
	},
}

func parseOnce(src string, withNative bool) string {
	var cfg *parser.ParserConfig
	if withNative {
		cfg = &parser.ParserConfig{Funcs: nativeFuncs}
	}
	prog, err := parser.ParseProgram([]byte(src), cfg)
	if err != nil {
		if pe, ok := err.(*parser.ParseError); ok {
			return fmt.Sprintf("ERROR %d:%d %s", pe.Position.Line, pe.Position.Column, pe.Message)
		}
		return "ERROR(other) " + err.Error()
	}
	var dis bytes.Buffer
	if err := prog.Disassemble(&dis); err != nil {
		return "DISASM-ERROR " + err.Error()
	}
	return "OK\n--- String:\n" + prog.String() + "\n--- Disassembly:\n" + dis.String()
}

const parsesPerCase = 30

func runDet(x *h.Ctx, c DetCase) string {
	src := string(c.Src)
	withNative := strings.Contains(src, "nat_") || strings.Contains(src, "zz_last") || len(src)%3 == 0
	first := parseOnce(src, withNative)
	for i := 1; i < parsesPerCase; i++ {
		again := parseOnce(src, withNative)
		if again != first {
			return fmt.Sprintf("parsing the same source twice gave different results (parse #1 vs parse #%d)\n--- first:\n%s\n--- later:\n%s\n--- source:\n%s", i+1, h.Trunc(first, 1500), h.Trunc(again, 1500), h.Trunc(src, 3000))
		}
	}
	x.Class("kind-" + c.Kind)
	if strings.HasPrefix(first, "ERROR") {
		x.Class("rejected")
	} else {
		x.Class("accepted")
	}
	if c.Kind == "multi-error" && c.NErrs >= 2 || c.Kind == "many-functions" || c.Kind == "native-calls" {
		x.Nontrivial("")
	}
	return ""
}

// ---------------------------------------------------------------------------
// (2)+(3) immutability and shareability

type ExecCase struct {
	Src        h.Str   `json:"src"`
	Inputs     []h.Str `json:"inputs"`
	Goroutines int     `json:"goroutines"`
	Rounds     int     `json:"rounds"`
	Native     bool    `json:"native"`
	Shell      bool    `json:"shell"` // the program starts processes
}

var templates = []string{
	"{ for (i = 1; i <= NF; i++) c%d[$i]++ }\nEND { n = 0; for (k in c%d) n += c%d[k]; print \"words\", n, length(c%d) }",
	"$0 ~ /a+b/ { t = $0; gsub(/a/, \"X\", t); print \"re\", t }\n!/x/ { print toupper($1) }",
	"function fib%d(n) { return n < 2 ? n : fib%d(n-1) + fib%d(n-2) }\n{ print \"fib\", fib%d(length($0) % 12) }",
	"{ printf \"%5.2f|%s|%d|%c\\n\", $1 * 1.5, substr($0, 2, 3), length($0), 65 + NR }",
	"{ n = split($0, a%d, /[ ,]/); s = \"\"; for (i = n; i > 0; i--) s = s a%d[i] \"-\"; print s }",
	"NR == 3 { exit 3 }",
	"NR == 2 && $1 == \"boom\" { x = 1 / (NF - NF) }",
	"function deep%d(n, loc) { loc[n] = n; if (n > 0) deep%d(n - 1); return length(loc) }\nEND { print \"deep\", deep%d(20) }",
	"{ if (match($0, /[0-9]+/)) print \"m\", RSTART, RLENGTH, substr($0, RSTART, RLENGTH); else print \"nomatch\" }",
	"BEGIN { CONVFMT = \"%.3g\"; OFS = \":\" } { $2 = $1 / 3; print; x = 0.1 + NR; y[x] = 1 }\nEND { for (k in y) cnt++; print cnt }",
	"{ print sprintf(\"%s-%s\", tolower($0), index($0, \"b\")) ; sum += $1 } END { print sum, sum / (NR ? NR : 1) }",
	"BEGIN { while ((getline line) > 0) { nl++; if (line ~ /^#/) continue; last = line } print \"read\", nl, last }",
	"{ print nat_add($1, 2), nat_len($0), zz_last($1, \"q\") }",
	"BEGIN { lit%d = \"Literal-%d\" } { print nat_rot(\"Hello-%d\"), \"Hello-%d\", nat_rot(lit%d), lit%d, nat_rot($1), $1; print nat_fill(\"const%d\", lit%d, $0), \"const%d\", lit%d, $0 }",
	// processes: every execution builds its own command lines from its own input
	"NF { cmd = \"echo sh-\" NR \"-\" length($0) \"-\" NF; cmd | getline r; close(cmd); print \"got\", r }",
	"NR <= 3 { system(\"echo sys-\" NR \"-\" length($0)) }",
	"NR == 1 { print \"piped \" length($0) | \"cat\"; close(\"cat\") }",
	// separators that take the unusual paths of the setters: a lone byte that is not valid UTF-8, a multi-byte
	// character, an invalid-then-valid sequence of assignments
	"BEGIN { RS = \"\\377\"; FS = \"\\200\" } { nrec++; nfld += NF } END { print \"bytes\", nrec + 0, nfld + 0 }",
	"BEGIN { RS = \"é\"; SUBSEP = \"\\376\" } { seen[NR, NF] = 1 } END { for (k in seen) c8++; print \"runes\", c8 + 0 }",
	// conversion formats that depend on the input: concurrent executions use different CONVFMT / OFMT values
	"NR == 1 { CONVFMT = \"%.\" (1 + length($0) % 5) \"g\"; OFMT = \"%.\" (2 + NF) \"f\" }\n{ cv = (NR + 0.123456789) \"\"; idx[NR / 7] = 1; print cv, 1 / 7, NR / 3 }\nEND { for (k in idx) nk++; print nk + 0, 22 / 7 \"\" }",
	// range patterns, left open or closed at the end of the input: where the range stands is state of the run
	"$1 == \"aab\", $1 == \"zzz\" { print \"open-range\", NR, $0 }",
	"/^a/, /x/ { rng++ } END { print \"range\", rng + 0 }",
	"NR == 2, NR == 3 { print \"r23\", $0 }\n$1 == \"hello\", 0 { print \"tail\", NR; if (NR > 3) exit }",
	// a command read with getline that also writes to its standard error, while the program goes on printing: the
	// configuration gives Output and Error the same writer, so the child's stderr and the program's own output meet
	// there (the order of the lines is not defined: execOnce compares them sorted)
	// a child that shares the program's writer is still writing while the program reports errors of its own to the
	// same writer (Error is Output here): messages and child lines meet there, in an order the schedule decides
	"NR <= 2 { print \"to-cat-\" NR | \"cat\"; fflush(\"cat\"); for (i = 0; i < 30; i++) fflush(\"nosuch\"); close(\"cat\") }",
	"NR <= 2 { cmd = \"echo sh-err-\" NR \" >&2; echo sh-out-\" NR; cmd | getline r; print \"got\", r; print \"more\", NR; close(cmd) }",
}

var inputLines = []string{"a b c", "aab x", "12 abc 7", "boom", "", "3.5,4 5", "x y z x", "# comment", "hello world", "aaab", "007", "1e3 b"}

func genExec(t *rapid.T) ExecCase {
	c := ExecCase{}
	var parts []string
	n := rapid.IntRange(1, 3).Draw(t, "ntempl")
	usedGetline := false
	for i := 0; i < n; i++ {
		k := rapid.IntRange(0, len(templates)-1).Draw(t, "templ")
		tm := templates[k]
		if strings.Contains(tm, "getline line") {
			if usedGetline || i > 0 {
				continue
			}
			usedGetline = true
		}
		if strings.Contains(tm, "nat_") {
			c.Native = true
		}
		if strings.Contains(tm, "echo s") || strings.Contains(tm, "\"cat\"") {
			c.Shell = true
		}
		parts = append(parts, strings.ReplaceAll(tm, "%d", fmt.Sprint(i)))
	}
	if len(parts) == 0 {
		parts = []string{"{ print NR, $0 }"}
	}
	if rapid.IntRange(0, 3).Draw(t, "types") == 0 {
		p := awkgen.GenTProg(t)
		if !awkgen.Infer(p).Conflict {
			parts = append(parts, awkgen.DefaultNaming(p).Render(p))
		}
	}
	c.Src = h.Str(strings.Join(parts, "\n") + "\n")
	for i := rapid.IntRange(1, 4).Draw(t, "ninputs"); i > 0; i-- {
		var sb strings.Builder
		for l := rapid.IntRange(0, 6).Draw(t, "nlines"); l > 0; l-- {
			sb.WriteString(rapid.SampledFrom(inputLines).Draw(t, "line"))
			sb.WriteString("\n")
		}
		c.Inputs = append(c.Inputs, h.Str(sb.String()))
	}
	c.Goroutines = rapid.IntRange(2, 16).Draw(t, "goroutines")
	c.Rounds = rapid.IntRange(1, 3).Draw(t, "rounds")
	return c
}

type result struct {
	out    string
	status int
	err    string
}

type writerFunc func(p []byte) (int, error)

func (f writerFunc) Write(p []byte) (int, error) { return f(p) }

func execOnce(prog *parser.Program, input string, native bool, cancelled bool) result {
	return execOn(nil, prog, input, native, cancelled)
}

// execOn: as execOnce, but on the given Interpreter (reset first) when there is one
func execOn(it *interp.Interpreter, prog *parser.Program, input string, native bool, cancelled bool) result {
	var out, errBuf bytes.Buffer
	cfg := &interp.Config{Stdin: strings.NewReader(input), Output: &out, Error: &out, Argv0: "goawk", Environ: []string{"A", "1", "PATH", "/usr/bin:/bin"},
		NoExec: !strings.Contains(prog.String(), "echo s") && !strings.Contains(prog.String(), "\"cat\""), NoFileWrites: true, NoFileReads: true}
	if !cfg.NoExec {
		// programs that start processes: which writers the configuration names depends on the input, so that all three
		// arrangements occur for every such program -- one buffer for both streams; one writer of a func type (which
		// Go cannot compare) for both; two different buffers
		switch len(input) % 3 {
		case 1:
			w := writerFunc(out.Write)
			cfg.Output, cfg.Error = w, w
		case 2:
			cfg.Error = &errBuf
		}
	}
	if native {
		cfg.Funcs = nativeFuncs
	}
	var status int
	var err error
	if cancelled {
		p, e := interp.New(prog)
		if e != nil {
			return result{err: e.Error()}
		}
		ctx, cancel := context.WithCancel(context.Background())
		cancel()
		status, err = p.ExecuteContext(ctx, cfg)
	} else if it != nil {
		it.ResetVars()
		it.ResetRand()
		status, err = it.Execute(cfg)
	} else {
		status, err = interp.ExecProgram(prog, cfg)
	}
	r := result{out: out.String() + errBuf.String(), status: status}
	if strings.Contains(r.out, "sh-err-") || strings.Contains(r.out, "to-cat-") {
		// the child's stderr lines land between the program's own lines at a point the schedule decides
		ls := strings.Split(r.out, "\n")
		sort.Strings(ls)
		r.out = strings.Join(ls, "\n")
	}
	if err != nil {
		r.err = err.Error()
	}
	return r
}

func runExec(x *h.Ctx, c ExecCase) string {
	var cfg *parser.ParserConfig
	if c.Native {
		cfg = &parser.ParserConfig{Funcs: nativeFuncs}
	}
	prog, err := parser.ParseProgram([]byte(c.Src), cfg)
	if err != nil {
		x.Discard("generated program rejected: " + h.Trunc(err.Error(), 60))
		return ""
	}
	fp0 := fingerprint.Of(prog)
	// sequential reference results (one after another on the same Program)
	want := make([]result, len(c.Inputs))
	for i, in := range c.Inputs {
		want[i] = execOnce(prog, string(in), c.Native, false)
	}
	// a cancelled execution must not leave a mark either
	execOnce(prog, string(c.Inputs[0]), c.Native, true)
	if fp := fingerprint.Of(prog); fp != fp0 {
		return fmt.Sprintf("executing the Program modified it (deep fingerprint changed after sequential executions)\nsource:\n%s", c.Src)
	}
	// sequential repeat: same results
	for i, in := range c.Inputs {
		if got := execOnce(prog, string(in), c.Native, false); got != want[i] {
			if strings.Contains(got.out, "WaitDelay expired") || strings.Contains(want[i].out, "WaitDelay expired") {
				// KF-C13-4 (goawk drops a child's remaining output 250 ms after the child exits; random on a
				// saturated machine): such an execution is not compared
				x.Class("waitdelay-expired-not-compared")
				continue
			}
			return fmt.Sprintf("a second sequential execution of the same (program, input) gave a different result\nfirst:  %+v\nsecond: %+v\nsource:\n%s\ninput: %q", want[i], got, c.Src, in)
		}
	}
	// concurrent executions sharing the Program, each with its own interpreter
	for round := 0; round < c.Rounds; round++ {
		got := make([]result, c.Goroutines)
		var wg sync.WaitGroup
		start := make(chan struct{})
		for g := 0; g < c.Goroutines; g++ {
			wg.Add(1)
			go func(g int) {
				defer wg.Done()
				<-start
				got[g] = execOnce(prog, string(c.Inputs[g%len(c.Inputs)]), c.Native, false)
			}(g)
		}
		close(start)
		wg.Wait()
		for g := range got {
			if strings.Contains(got[g].out, "WaitDelay expired") || strings.Contains(want[g%len(c.Inputs)].out, "WaitDelay expired") {
				// goawk gives the goroutine copying a child's output 250 ms after the child exits; on a saturated
				// machine that can expire. Time is not a correctness signal: such an execution is not compared.
				x.Class("waitdelay-expired-not-compared")
				continue
			}
			if got[g] != want[g%len(c.Inputs)] {
				return fmt.Sprintf("concurrent execution %d of %d gave a result different from the sequential one\nsequential: %+v\nconcurrent: %+v\nsource:\n%s\ninput: %q", g, c.Goroutines, want[g%len(c.Inputs)], got[g], c.Src, c.Inputs[g%len(c.Inputs)])
			}
		}
	}
	// the same with interpreters that are kept: every goroutine has its own, created once and used for every round
	// (reset in between), so each execution after the first runs on an interpreter that has run before while the
	// others are running
	{
		its := make([]*interp.Interpreter, c.Goroutines)
		for g := range its {
			it, err := interp.New(prog)
			if err != nil {
				return "harness: interp.New: " + err.Error()
			}
			its[g] = it
		}
		for round := 0; round < c.Rounds+1; round++ {
			got := make([]result, c.Goroutines)
			var wg sync.WaitGroup
			start := make(chan struct{})
			for g := 0; g < c.Goroutines; g++ {
				wg.Add(1)
				go func(g int) {
					defer wg.Done()
					<-start
					got[g] = execOn(its[g], prog, string(c.Inputs[(g+round)%len(c.Inputs)]), c.Native, false)
				}(g)
			}
			close(start)
			wg.Wait()
			for g := range got {
				w := want[(g+round)%len(c.Inputs)]
				if strings.Contains(got[g].out, "WaitDelay expired") || strings.Contains(w.out, "WaitDelay expired") {
					x.Class("waitdelay-expired-not-compared")
					continue
				}
				if got[g] != w {
					return fmt.Sprintf("round %d: concurrent execution %d of %d, on its own interpreter that is reused from round to round, gave a result different from the sequential one\nsequential: %+v\nconcurrent: %+v\nsource:\n%s\ninput: %q", round, g, c.Goroutines, w, got[g], c.Src, c.Inputs[(g+round)%len(c.Inputs)])
				}
			}
		}
	}
	if fp := fingerprint.Of(prog); fp != fp0 {
		return fmt.Sprintf("executing the Program modified it (deep fingerprint changed after concurrent executions)\nsource:\n%s", c.Src)
	}
	for _, w := range want {
		if w.err != "" {
			x.Class("ends-with-error")
		} else if w.status != 0 {
			x.Class("ends-with-exit")
		}
	}
	if c.Goroutines >= 4 && (strings.Contains(string(c.Src), "function") || strings.Contains(string(c.Src), "/")) {
		x.Nontrivial("")
	}
	return ""
}

func init() {
	h.Prop("parse_determinism", 6000, 100000, genDet, runDet)
	h.Prop("immutable_shareable", 1000, 14000, genExec, runExec)
}

// ---------------------------------------------------------------------------
// the error of a run that cannot be set up is the same every time: several
// entries of Config.Funcs are unusable, and Go walks maps in random order

type SetupCase struct {
	Bad []string `json:"bad"` // names of unusable entries (values by name below)
}

var badFuncValues = map[string]any{
	"a_int": 1, "b_str": "x", "c_float": 2.5, "d_nil": nil, "e_chan": func(c chan int) {}, "f_three": func() (int, int, int) { return 0, 0, 0 },
	"g_map": func(m map[string]int) {}, "h_ptr": func(p *int) {}, "print": func() {}, "length": func() {},
}

func genSetup(t *rapid.T) SetupCase {
	var names []string
	for n := range badFuncValues {
		names = append(names, n)
	}
	sort.Strings(names)
	k := rapid.IntRange(2, 6).Draw(t, "nbad")
	var bad []string
	for len(bad) < k {
		n := rapid.SampledFrom(names).Draw(t, "bad")
		dup := false
		for _, b := range bad {
			dup = dup || b == n
		}
		if !dup {
			bad = append(bad, n)
		}
	}
	sort.Strings(bad)
	return SetupCase{Bad: bad}
}

func runSetup(x *h.Ctx, c SetupCase) string {
	prog, err := parser.ParseProgram([]byte(`BEGIN { print 1 }`), nil)
	if err != nil {
		return "harness: " + err.Error()
	}
	seen := map[string]int{}
	for i := 0; i < 40; i++ {
		funcs := map[string]any{"ok_add": func(a, b int) int { return a + b }}
		for _, n := range c.Bad {
			funcs[n] = badFuncValues[n]
		}
		var out bytes.Buffer
		_, err := interp.ExecProgram(prog, &interp.Config{Output: &out, Stdin: strings.NewReader(""), Environ: []string{}, Funcs: funcs})
		msg := "<nil>"
		if err != nil {
			msg = err.Error()
		}
		seen[msg+"|"+out.String()]++
	}
	if len(seen) > 1 {
		var l []string
		for m, n := range seen {
			l = append(l, fmt.Sprintf("%dx %s", n, m))
		}
		sort.Strings(l)
		return fmt.Sprintf("40 executions of one Program with the same configuration ended %d different ways (unusable Funcs entries: %v):\n  %s", len(seen), c.Bad, strings.Join(l, "\n  "))
	}
	x.Nontrivial(strings.Join(c.Bad, ","))
	return ""
}

func init() {
	h.Prop("setup_error_is_deterministic", 200, 2000, genSetup, runSetup)
}
