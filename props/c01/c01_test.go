// C01 — compiled execution preserves the meaning of the parsed program.
package c01

import (
	"fmt"
	"os"
	"sort"
	"strings"
	"testing"

	"github.com/benhoyt/goawk/parser"
	"pgregory.net/rapid"

	"verif/lib/awk"
	"verif/lib/awkgen"
	"verif/lib/h"
	"verif/lib/runner"
)

func TestMain(m *testing.M)   { h.Main(m, "C01") }
func TestAll(t *testing.T)    { h.RunAll(t) }
func TestReplay(t *testing.T) { h.Replay(t) }

type Case struct {
	Src      h.Str             `json:"src"`
	Variants []h.Str           `json:"variants,omitempty"` // semantically equivalent spellings
	Stdin    h.Str             `json:"stdin"`
	Args     []string          `json:"args,omitempty"`
	Files    map[string]string `json:"files"`
	Feat     []string          `json:"feat,omitempty"`
	Rewrites []string          `json:"rewrites,omitempty"`
}

func genFiles(t *rapid.T) map[string]string {
	files := map[string]string{"r0": awkgen.Input(t), "r1": awkgen.Input(t)}
	if rapid.Bool().Draw(t, "w0exists") {
		files["w0"] = "old w0\n"
	}
	return files
}

func genCase(t *rapid.T) Case {
	g := awkgen.NewExec(t)
	tree := g.Program()
	mode := awk.Minimal
	if rapid.IntRange(0, 9).Draw(t, "noisy") < 3 {
		mode = awk.Noisy
	}
	r := awk.NewRenderer(mode)
	r.Rand = func(n int) int { return rapid.IntRange(0, n-1).Draw(t, "noise") }
	c := Case{Src: h.Str(r.Program(awk.CloneProgram(tree))), Stdin: h.Str(awkgen.Input(t)), Files: genFiles(t)}
	switch rapid.IntRange(0, 5).Draw(t, "args") {
	case 0:
		c.Args = []string{"r0"}
	case 1:
		c.Args = []string{"r1", "-"}
	case 2:
		c.Args = []string{"g0=5", "r0", "s0=x y", "r1"}
	}
	for f := range g.Feat {
		c.Feat = append(c.Feat, f)
	}
	sort.Strings(c.Feat)
	// 1-3 metamorphic variants
	for v := rapid.IntRange(1, 3).Draw(t, "nvariants"); v > 0; v-- {
		rw := &awkgen.Rewriter{Choose: func(n int) int { return rapid.IntRange(0, n-1).Draw(t, "rw") }, Applied: map[string]int{}}
		vt := rw.Program(tree)
		if len(rw.Applied) == 0 {
			continue
		}
		c.Variants = append(c.Variants, h.Str(awk.RenderProgram(vt, awk.Minimal)))
		for k := range rw.Applied {
			c.Rewrites = append(c.Rewrites, k)
		}
	}
	sort.Strings(c.Rewrites)
	return c
}

func runOn(gp *parser.Program, c Case) runner.Outcome {
	dir := h.TempDir("c01")
	defer os.RemoveAll(dir)
	return runner.Goawk(gp, string(c.Stdin), c.Args, nil, runner.Sandbox{Files: c.Files}, dir)
}

func run(x *h.Ctx, c Case) string {
	src := string(c.Src)
	gp, err := parser.ParseProgram([]byte(src), nil)
	if err != nil {
		x.Discard("generated program rejected by the parser: " + h.Trunc(err.Error(), 80))
		h.Note("vm_vs_reference", "rejected: %v | %s", err, h.Trunc(src, 400))
		return ""
	}
	tree, err := awk.FromGoawk(gp)
	if err != nil {
		x.Discard("unknown AST node type")
		return ""
	}
	// (a) differential against the reference evaluator
	want, res := runner.Reference(tree, gp, string(c.Stdin), c.Args, nil, runner.Sandbox{Files: c.Files}, 200000)
	if res.Exhausted {
		x.Discard("reference step/size budget exhausted")
		return ""
	}
	got := runOn(gp, c)
	if strings.HasPrefix(got.Err, "TIMEOUT") {
		if res.Exhausted {
			x.Discard("step budget exhausted in both")
			return ""
		}
		return fmt.Sprintf("goawk did not terminate within 20 s although the reference evaluator finished in %d steps\n--- program:\n%s\n--- stdin: %q args: %q", res.Steps, src, c.Stdin, c.Args)
	}
	comparable := true
	switch {
	case res.Exhausted:
		x.Class("ref-step-budget")
		comparable = false
	case res.OrderDependent:
		x.Class("ref-order-dependent")
		comparable = false
	case res.NonFinite:
		x.Class("ref-non-finite")
		comparable = false
	}
	if comparable && !got.Equal(want) {
		return fmt.Sprintf("goawk (compiler + VM) and the reference tree evaluation disagree\n--- program:\n%s\n--- stdin: %q args: %q files: %q\n--- goawk:\n%s--- reference:\n%s", src, c.Stdin, c.Args, c.Files, got, want)
	}
	// (b) metamorphic: equivalent spellings behave identically on goawk
	for i, v := range c.Variants {
		vp, err := parser.ParseProgram([]byte(v), nil)
		if err != nil {
			return fmt.Sprintf("an equivalent spelling of an accepted program is rejected: %v\n--- original:\n%s\n--- variant %d (rewrites %v):\n%s", err, src, i, c.Rewrites, v)
		}
		vo := runOn(vp, Case{Stdin: c.Stdin, Args: c.Args, Files: c.Files})
		if !vo.Equal(got) {
			return fmt.Sprintf("two equivalent spellings of a program behave differently (rewrites applied: %v)\n--- original:\n%s\n--- variant %d:\n%s\n--- stdin: %q args: %q\n--- original outcome:\n%s--- variant outcome:\n%s", c.Rewrites, src, i, v, c.Stdin, c.Args, got, vo)
		}
	}
	for _, f := range c.Feat {
		x.Class("feat-" + f)
	}
	for _, r := range c.Rewrites {
		x.Class("rewrite-" + r)
	}
	for k := range res.Trace {
		x.Class("ran-" + k)
	}
	if got.Err != "" {
		x.Class("ends-with-error")
	}
	if comparable && len(c.Feat) > 0 && (got.Stdout != "" || len(got.Files) > 0 || got.Status != 0) {
		x.Nontrivial("")
	}
	return ""
}

func init() {
	h.Prop("vm_vs_reference", 30000, 500000, genCase, run)
}
