// C05 — number/string conversion and comparison typing follow the AWK value model.
package c05

import (
	"bytes"
	"fmt"
	"math"
	"os"
	"path/filepath"
	"regexp"
	"strconv"
	"strings"
	"testing"

	"github.com/benhoyt/goawk/interp"
	"github.com/benhoyt/goawk/parser"
	"pgregory.net/rapid"

	"verif/lib/awk"
	"verif/lib/cprintf"
	"verif/lib/h"
)

var libc *cprintf.Client

func TestMain(m *testing.M) {
	var err error
	libc, err = cprintf.Start()
	if err != nil {
		panic(err)
	}
	h.Main(m, "C05")
}
func TestAll(t *testing.T)    { h.RunAll(t) }
func TestReplay(t *testing.T) { h.Replay(t) }

// ---------------------------------------------------------------------------
// classification of strings, independent of goawk and of strconv

type class int

const (
	mustNumeric class = iota // ws* [+-]? (d+ (. d*)? | . d+) ([eE] [+-]? d+)? ws*   with ws = space, tab, newline
	mustString
	dontCare // hex forms, inf/nan spellings, other white space (\v \f \r, non-ASCII blanks): only consistency is demanded
)

var decimalRE = regexp.MustCompile(`^[ \t\n]*[+-]?([0-9]+(\.[0-9]*)?|\.[0-9]+)([eE][+-]?[0-9]+)?[ \t\n]*$`)
var prefixRE = regexp.MustCompile(`^[ \t\n]*[+-]?([0-9]+(\.[0-9]*)?|\.[0-9]+)([eE][+-]?[0-9]+)?`)
var dontCareRE = regexp.MustCompile(`(?i)0x|inf|nan|[\v\f\r]|[^\x00-\x7f]`)

func classify(s string) class {
	if decimalRE.MatchString(s) {
		return mustNumeric
	}
	if dontCareRE.MatchString(s) {
		return dontCare
	}
	return mustString
}

// value of the longest numeric prefix (decimal grammar), else 0
func prefixValue(s string) float64 {
	m := prefixRE.FindString(s)
	if m == "" {
		return 0
	}
	f, err := strconv.ParseFloat(strings.Trim(m, " \t\n"), 64)
	if err != nil {
		// out of range: strconv still returns +-Inf / 0
		return f
	}
	return f
}

// ---------------------------------------------------------------------------
// probe program

var ks = []float64{-1, 0, 1, 2, 9, 10, 11, 100, 0.5}
var kstr = []string{"-1", "0", "1", "2", "9", "10", "11", "100", "0.5"}
var ops = []string{"<", "<=", "==", "!=", ">", ">="}

// probeCode returns AWK statements that print one observation line for the expression x:
//
//	<54 bits value context> <54 bits branch context> <arith %.17g> <truth> <self-equal>
func probeCode(x string) string {
	var sb strings.Builder
	sb.WriteString("v_ = \"\"; j_ = \"\"\n")
	for i := range ks {
		k := fmt.Sprintf("K%d", i)
		for _, op := range ops {
			fmt.Fprintf(&sb, "v_ = v_ (%s %s %s)\n", x, op, k)
			fmt.Fprintf(&sb, "if (%s %s %s) j_ = j_ \"1\"; else j_ = j_ \"0\"\n", x, op, k)
		}
	}
	fmt.Fprintf(&sb, "printf \"%%s %%s %%.17g %%d %%d\\n\", v_, j_, %s + 0, !(%s), (%s == %s + 0)\n", x, x, x, x)
	return sb.String()
}

func kInit() string {
	var sb strings.Builder
	for i, k := range kstr {
		fmt.Fprintf(&sb, "K%d = %s; ", i, k)
	}
	return sb.String()
}

type obs struct {
	val   string // 54 chars
	jump  string
	arith float64
	truth int // result of !x
	self  int
}

func parseObs(line string) (obs, bool) {
	f := strings.Fields(line)
	if len(f) != 5 || len(f[0]) != len(ks)*len(ops) || len(f[1]) != len(f[0]) {
		return obs{}, false
	}
	o := obs{val: f[0], jump: f[1]}
	var err error
	switch strings.ToLower(strings.TrimLeft(f[2], "+-")) {
	case "inf":
		o.arith = math.Inf(1)
		if strings.HasPrefix(f[2], "-") {
			o.arith = math.Inf(-1)
		}
	case "nan":
		o.arith = math.NaN()
	default:
		o.arith, err = strconv.ParseFloat(f[2], 64)
		if err != nil {
			return obs{}, false
		}
	}
	o.truth, _ = strconv.Atoi(f[3])
	o.self, _ = strconv.Atoi(f[4])
	return o, true
}

func cmpNum(a, b float64, op string) bool {
	switch op {
	case "<":
		return a < b
	case "<=":
		return a <= b
	case "==":
		return a == b
	case "!=":
		return a != b
	case ">":
		return a > b
	}
	return a >= b
}

func cmpStr(a, b string, op string) bool {
	switch op {
	case "<":
		return a < b
	case "<=":
		return a <= b
	case "==":
		return a == b
	case "!=":
		return a != b
	case ">":
		return a > b
	}
	return a >= b
}

func bitsNumeric(v float64) string {
	var sb strings.Builder
	for _, k := range ks {
		for _, op := range ops {
			if cmpNum(v, k, op) {
				sb.WriteByte('1')
			} else {
				sb.WriteByte('0')
			}
		}
	}
	return sb.String()
}

func bitsString(s string) string {
	var sb strings.Builder
	for _, k := range kstr {
		for _, op := range ops {
			if cmpStr(s, k, op) {
				sb.WriteByte('1')
			} else {
				sb.WriteByte('0')
			}
		}
	}
	return sb.String()
}

// sameOnEquality: the two bit strings (six operators per constant: < <= == != > >=) agree on the == and != positions
func sameOnEquality(a, b string) bool {
	if len(a) != len(b) {
		return false
	}
	for i := 0; i < len(a); i++ {
		if (i%6 == 2 || i%6 == 3) && a[i] != b[i] {
			return false
		}
	}
	return true
}

func sameFloat(a, b float64) bool {
	return a == b || math.IsNaN(a) && math.IsNaN(b)
}

// judge one observation of string s delivered with input provenance (inputDerived) or as a constant/computed string.
func judge(s string, o obs, inputDerived bool) string {
	if o.val != o.jump && math.IsNaN(o.arith) && h.KFOpen("KF-C05-2") && sameOnEquality(o.val, o.jump) {
		o.jump = o.val // known finding: ordered comparisons with NaN in branch context
	}
	if o.val != o.jump {
		return fmt.Sprintf("comparison results differ between value context and branch context\n value:  %s\n branch: %s", o.val, o.jump)
	}
	cl := classify(s)
	wantV := prefixValue(s)
	numericBits := func(v float64) bool { return o.val == bitsNumeric(v) }
	stringBits := o.val == bitsString(s)
	if !inputDerived {
		// constants and computed strings always compare as strings
		if !stringBits {
			return fmt.Sprintf("a string constant / computed string did not compare as a string\n got %s\nwant %s", o.val, bitsString(s))
		}
		if cl != dontCare && !sameFloat(o.arith, wantV) {
			return fmt.Sprintf("arithmetic value is %v, the longest numeric prefix gives %v", o.arith, wantV)
		}
		wantTruth := 0
		if s == "" {
			wantTruth = 1
		}
		if o.truth != wantTruth {
			return fmt.Sprintf("truth test: !x = %d for a %s string", o.truth, map[bool]string{true: "empty", false: "non-empty"}[s == ""])
		}
		return ""
	}
	switch cl {
	case mustNumeric:
		if !sameFloat(o.arith, wantV) {
			return fmt.Sprintf("arithmetic value is %v, but the string stands for %v", o.arith, wantV)
		}
		if !numericBits(wantV) {
			how := "neither numerically nor as a string"
			if stringBits {
				how = "as a string"
			}
			return fmt.Sprintf("input text that looks entirely like a number (value %v) was compared %s\n got %s\nwant %s", wantV, how, o.val, bitsNumeric(wantV))
		}
		wantTruth := 0
		if wantV == 0 {
			wantTruth = 1
		}
		if o.truth != wantTruth {
			return fmt.Sprintf("truth test disagrees with the number the string stands for (%v): !x = %d", wantV, o.truth)
		}
		if o.self != 1 && !math.IsNaN(wantV) {
			return "x == x + 0 is false although x looks entirely like a number"
		}
	case mustString:
		if !sameFloat(o.arith, wantV) {
			return fmt.Sprintf("arithmetic value is %v, the longest numeric prefix gives %v", o.arith, wantV)
		}
		if !stringBits {
			return fmt.Sprintf("input text that does not look like a number was not compared as a string\n got %s\nwant %s", o.val, bitsString(s))
		}
		wantTruth := 0
		if s == "" {
			wantTruth = 1
		}
		if o.truth != wantTruth {
			return fmt.Sprintf("truth test of a non-numeric string: !x = %d", o.truth)
		}
	case dontCare:
		// only consistency: whatever number is used in comparisons is the one used in arithmetic and truth tests
		switch {
		case numericBits(o.arith):
			wantTruth := 0
			if o.arith == 0 {
				wantTruth = 1
			}
			if o.truth != wantTruth {
				return fmt.Sprintf("compared numerically as %v but the truth test says !x = %d", o.arith, o.truth)
			}
		case stringBits:
			wantTruth := 0
			if s == "" {
				wantTruth = 1
			}
			if o.truth != wantTruth {
				return fmt.Sprintf("compared as a string but the truth test says !x = %d", o.truth)
			}
		default:
			// does it match a numeric comparison with some other value?
			for _, cand := range []float64{0, prefixValue(strings.TrimSpace(s))} {
				if numericBits(cand) {
					return fmt.Sprintf("comparisons use the number %v but arithmetic gives %v for the same text", cand, o.arith)
				}
			}
			return fmt.Sprintf("comparisons are neither numeric with the arithmetic value %v nor string comparisons\n got %s", o.arith, o.val)
		}
	}
	return ""
}

// ---------------------------------------------------------------------------
// running batches through the different provenances

const fsByte = "\x01"
const rsByte = "\x02"

var provenances = []string{"field", "field-after-assign", "field-after-resplit", "record", "getline-var", "getline-file", "split", "argv", "environ", "vars", "operand", "constant", "computed"}

func runBatch(prov string, strs []string) ([]obs, string, error) {
	cfg := &interp.Config{Argv0: "goawk", Environ: []string{}, NoExec: true, NoFileWrites: true}
	var src strings.Builder
	src.WriteString("BEGIN { FS = \"\\001\"; RS = \"\\002\"; " + kInit() + " }\n")
	input := strings.Join(strs, rsByte) + rsByte
	switch prov {
	case "field":
		src.WriteString("{\n" + probeCode("$1") + "}\n")
		cfg.Stdin = strings.NewReader(input)
	case "field-after-assign":
		// the same field was assigned while the previous record was current
		src.WriteString("{\n" + probeCode("$1") + "$1 = \"zzz\"; sub(/z/, \"y\", $1)\n}\n")
		cfg.Stdin = strings.NewReader(input)
	case "field-after-resplit":
		// the field was assigned, then the record was set again (re-split) within the same record
		src.WriteString("{ s_ = $0; $1 = \"zzz\"; $0 = s_\n" + probeCode("$1") + "}\n")
		cfg.Stdin = strings.NewReader(input)
	case "record":
		src.WriteString("{\n" + probeCode("$0") + "}\n")
		cfg.Stdin = strings.NewReader(input)
	case "getline-var":
		src.WriteString("BEGIN { while ((getline line_) > 0) {\n" + probeCode("line_") + "} }\n")
		cfg.Stdin = strings.NewReader(input)
	case "getline-file":
		dir := h.TempDir("c05")
		defer os.RemoveAll(dir)
		path := filepath.Join(dir, "in")
		os.WriteFile(path, []byte(input), 0o644)
		src.WriteString("BEGIN { while ((getline line_ < " + awk.QuoteStr(path) + ") > 0) {\n" + probeCode("line_") + "} }\n")
		cfg.Stdin = strings.NewReader("")
	case "split":
		src.WriteString("{ split($0, parts_, \"\\001\")\n" + probeCode("parts_[1]") + "}\n")
		cfg.Stdin = strings.NewReader(input)
	case "argv":
		src.WriteString("BEGIN { for (i_ = 1; i_ < ARGC; i_++) {\n" + probeCode("ARGV[i_]") + "} }\n")
		cfg.Args = strs
		cfg.Stdin = strings.NewReader("")
	case "environ":
		src.WriteString(fmt.Sprintf("BEGIN { for (i_ = 0; i_ < %d; i_++) {\n", len(strs)) + probeCode("ENVIRON[\"E\" i_]") + "} }\n")
		for i, s := range strs {
			cfg.Environ = append(cfg.Environ, fmt.Sprintf("E%d", i), s)
		}
		cfg.Stdin = strings.NewReader("")
	case "vars":
		src.WriteString("BEGIN {\n")
		for i, s := range strs {
			cfg.Vars = append(cfg.Vars, fmt.Sprintf("var%d_", i), s)
			src.WriteString(probeCode(fmt.Sprintf("var%d_", i)))
		}
		src.WriteString("}\n")
		cfg.Stdin = strings.NewReader("")
	case "operand":
		src.WriteString("{\n")
		for i, s := range strs {
			cfg.Args = append(cfg.Args, fmt.Sprintf("opd%d_=%s", i, s))
			src.WriteString(probeCode(fmt.Sprintf("opd%d_", i)))
		}
		src.WriteString("}\n")
		cfg.Args = append(cfg.Args, "-")
		cfg.Stdin = strings.NewReader("one record" + rsByte)
	case "constant":
		src.WriteString("BEGIN {\n")
		for _, s := range strs {
			src.WriteString(probeCode(awk.QuoteStr(s)))
		}
		src.WriteString("}\n")
		cfg.Stdin = strings.NewReader("")
	case "computed":
		src.WriteString("{\n" + probeCode("($1 \"\")") + "}\n")
		cfg.Stdin = strings.NewReader(input)
	}
	prog, err := parser.ParseProgram([]byte(src.String()), nil)
	if err != nil {
		return nil, src.String(), fmt.Errorf("harness: %w", err)
	}
	var out bytes.Buffer
	cfg.Output = &out
	cfg.Error = &out
	if _, err := interp.ExecProgram(prog, cfg); err != nil {
		return nil, src.String(), err
	}
	lines := strings.Split(strings.TrimSuffix(out.String(), "\n"), "\n")
	var res []obs
	for _, l := range lines {
		o, ok := parseObs(l)
		if !ok {
			return nil, src.String(), fmt.Errorf("harness: cannot parse observation %q", l)
		}
		res = append(res, o)
	}
	return res, src.String(), nil
}

// strings that a given provenance can carry unchanged
func deliverable(prov, s string) bool {
	if strings.ContainsAny(s, fsByte+rsByte) {
		return false
	}
	switch prov {
	case "field", "field-after-assign", "field-after-resplit", "split", "computed":
		return s != "" // an empty record has no first field
	case "argv", "environ":
		return !strings.Contains(s, "\x00")
	case "vars":
		return !strings.ContainsAny(s, "\\\x00") // backslash escapes are processed in assignments
	case "operand":
		return !strings.ContainsAny(s, "\\\x00\n") // ... and an operand is one line of text
	case "getline-var", "getline-file", "record":
		return true
	}
	return true
}

type Batch struct {
	Strs []h.Str `json:"strs"`
	Prov string  `json:"prov"`
}

func runStrings(x *h.Ctx, b Batch) string {
	var strs []string
	for _, s := range b.Strs {
		if deliverable(b.Prov, string(s)) {
			strs = append(strs, string(s))
		}
	}
	if len(strs) == 0 {
		x.Discard("nothing deliverable")
		return ""
	}
	if b.Prov == "record" || b.Prov == "getline-var" || b.Prov == "getline-file" {
		// a trailing empty string would be indistinguishable from the end of input
		for len(strs) > 0 && strs[len(strs)-1] == "" {
			strs = strs[:len(strs)-1]
		}
		if len(strs) == 0 {
			x.Discard("nothing deliverable")
			return ""
		}
	}
	res, src, err := runBatch(b.Prov, strs)
	if err != nil {
		return fmt.Sprintf("run failed (%s): %v\n%s", b.Prov, err, h.Trunc(src, 1500))
	}
	if len(res) != len(strs) {
		return fmt.Sprintf("%d strings delivered as %s, %d observations came back", len(strs), b.Prov, len(res))
	}
	inputDerived := b.Prov != "constant" && b.Prov != "computed"
	nt := 0
	for i, s := range strs {
		if h.KFOpen("KF-C05-1") && inputDerived && classify(s) == mustNumeric && math.IsInf(prefixValue(s), 0) {
			x.Excluded("KF-C05-1")
			continue
		}
		if msg := judge(s, res[i], inputDerived); msg != "" {
			return fmt.Sprintf("string %q delivered as %s: %s\n(comparison constants K: %v; bits are < <= == != > >= per K)", s, b.Prov, msg, kstr)
		}
		cl := classify(s)
		if cl == dontCare || cl == mustNumeric && strings.TrimSpace(s) != strconv.FormatFloat(prefixValue(s), 'f', -1, 64) || cl == mustString && prefixRE.MatchString(s) {
			nt++
			x.NontrivialItem(b.Prov + "|" + s)
		}
	}
	x.AddEvaluations(len(strs) - 1)
	x.Class("prov-" + b.Prov)
	if nt > 0 {
		x.Nontrivial("")
	}
	return ""
}

// ---------------------------------------------------------------------------
// exhaustive: all strings up to length 4 (thorough: 5) over the numeric alphabet

var alphabet = []string{"0", "1", "9", ".", "+", "-", "e", "E", "x", "X", "n", "a", "i", "f", " ", "\t"}

func enumShort(thorough bool, yield func(Batch) bool) {
	maxLen := 4
	if thorough {
		maxLen = 5
	}
	var batch []h.Str
	flush := func() bool {
		if len(batch) == 0 {
			return true
		}
		b := batch
		batch = nil
		for _, prov := range []string{"field", "getline-var", "field-after-assign"} {
			if !yield(Batch{Strs: b, Prov: prov}) {
				return false
			}
		}
		return true
	}
	var rec func(prefix string, n int) bool
	rec = func(prefix string, n int) bool {
		batch = append(batch, h.Str(prefix))
		if len(batch) >= 512 {
			if !flush() {
				return false
			}
		}
		if n == maxLen {
			return true
		}
		for _, a := range alphabet {
			if !rec(prefix+a, n+1) {
				return false
			}
		}
		return true
	}
	if rec("", 0) {
		flush()
	}
}

// random longer strings, all provenances
var pieces = []string{"0", "1", "12", "9", ".", "+", "-", "e", "E", "e5", "E-3", "x", "0x", "0X1A", "1F", "p3", "inf", "nan", "Infinity", "NAN", " ", "\t", "\n", "\v", "\f", "\r", "\u00a0", "\u2003", "\u0085", "\u3000", "\x00", "_", "1e400", "1e-400", "9007199254740993", "9223372036854775808", "18446744073709551616", "0.1", "00", "007", ".5", "5.", "abc", "é", "1e", "1e+", "--1", "+-1", "\xff"}

func genBatch(t *rapid.T) Batch {
	n := rapid.IntRange(1, 24).Draw(t, "nstr")
	b := Batch{Prov: rapid.SampledFrom(provenances).Draw(t, "prov")}
	for i := 0; i < n; i++ {
		var sb strings.Builder
		for j := rapid.IntRange(0, 5).Draw(t, "np"); j > 0; j-- {
			sb.WriteString(rapid.SampledFrom(pieces).Draw(t, "p"))
		}
		if rapid.IntRange(0, 30).Draw(t, "long") == 0 {
			sb.WriteString(strings.Repeat("7", 400))
		}
		b.Strs = append(b.Strs, h.Str(sb.String()))
	}
	return b
}

// ---------------------------------------------------------------------------
// unset variables compare as both 0 and ""

func runUnset(x *h.Ctx, dummy int) string {
	src := `function f(p) { return (p == 0) (p == "") (p < 1) (p < "a") length(p) (!p) }
BEGIN { print (u == 0) (u == "") (u < 1) (u < "a") length(u) (!u), f(), (a["k"] == 0) (a["k"] == "") }`
	prog, err := parser.ParseProgram([]byte(src), nil)
	if err != nil {
		return "harness: " + err.Error()
	}
	var out bytes.Buffer
	if _, err := interp.ExecProgram(prog, &interp.Config{Stdin: strings.NewReader(""), Output: &out, Environ: []string{}}); err != nil {
		return err.Error()
	}
	if out.String() != "111101 111101 11\n" {
		return fmt.Sprintf("unset variable / missing parameter / new array element must compare as both 0 and \"\": got %q", out.String())
	}
	x.Nontrivial(fmt.Sprint(dummy))
	return ""
}

// ---------------------------------------------------------------------------
// comparison laws over pairs of values of all kinds

type Val struct {
	Kind string  `json:"kind"` // num | str | field | unset
	Num  float64 `json:"num,omitempty"`
	Str  h.Str   `json:"str,omitempty"`
	Spec string  `json:"spec,omitempty"` // inf -inf nan for num
	// what happens to the value before it is compared: "" nothing; copy / elem / param: assigned to a variable, an
	// array element, passed through a function (the value keeps its kind); sub^ / gsub$: the target of a
	// substitution that matches the empty string and replaces it by nothing (the text is unchanged, the value is a
	// string from then on); cat: concatenated with "" (a string); plus0: + 0 (a number)
	Via string `json:"via,omitempty"`
}

var vias = []string{"", "", "", "", "copy", "elem", "param", "sub^", "gsub$", "cat", "plus0"}

// setup returns the statements that prepare the operand and the expression that stands for it afterwards
func (v Val) setup(field int) (stmts, expr string) {
	src := v.source(field)
	name := fmt.Sprintf("via%d_", field)
	switch v.Via {
	case "copy":
		return fmt.Sprintf(" %s = %s\n", name, src), name
	case "elem":
		return fmt.Sprintf(" viaarr_[%d] = %s\n", field, src), fmt.Sprintf("viaarr_[%d]", field)
	case "param":
		return "", "ident_(" + src + ")"
	case "sub^":
		return fmt.Sprintf(" %s = %s; sub(/^/, \"\", %s)\n", name, src, name), name
	case "gsub$":
		return fmt.Sprintf(" %s = %s; gsub(/$/, \"\", %s)\n", name, src, name), name
	case "cat":
		return "", "(" + src + " \"\")"
	case "plus0":
		return "", "(" + src + " + 0)"
	}
	return "", src
}

type PairCase struct {
	A Val `json:"a"`
	B Val `json:"b"`
}

var pairNums = []float64{0, 1, -1, 2, 10, 9, 0.5, 100, 1e300, -1e300, 9007199254740993, 9223372036854775807, 1e-300, 3.0}
var pairStrs = []string{"", "0", "1", "10", "9", "abc", "ABC", " 1", "1 ", "1e1", "+1", "0x10", "10x", "-1", ".5", "a", "é", "1.0", "010",
	// different texts that stand for the same number (beyond 2^53, beyond the float range): they are equal, and
	// neither is less than the other, whatever their spelling
	"9007199254740992", "9007199254740993", "18014398509481984", "18014398509481985", "9007199254740993.0", "1" + strings.Repeat("0", 309), "2" + strings.Repeat("0", 309), "0.1", "0.10", "100", "1e2"}

func genVal(t *rapid.T) Val {
	switch rapid.IntRange(0, 9).Draw(t, "vk") {
	case 0, 1, 2:
		return Val{Kind: "num", Num: rapid.SampledFrom(pairNums).Draw(t, "n")}
	case 3:
		return Val{Kind: "num", Spec: rapid.SampledFrom([]string{"inf", "-inf", "nan"}).Draw(t, "spec")}
	case 4, 5:
		return Val{Kind: "str", Str: h.Str(rapid.SampledFrom(pairStrs).Draw(t, "s"))}
	case 6, 7, 8:
		return Val{Kind: "field", Str: h.Str(rapid.SampledFrom(pairStrs[1:]).Draw(t, "f"))}
	default:
		return Val{Kind: "unset"}
	}
}

// twins: two different texts standing for the same number (or for numbers that differ only beyond the 17th digit)
var twins = [][2]string{{"9007199254740992", "9007199254740993"}, {"18014398509481984", "18014398509481985"}, {"9223372036854775807", "9223372036854775808"},
	{"1" + strings.Repeat("0", 309), "2" + strings.Repeat("0", 309)}, {"0.1", "0.10"}, {"100", "1e2"}, {"007", "7"}, {"1.0", "1"}, {"+5", "5"}, {"10", "9"}, {"100000000000000000001", "100000000000000000002"},
	{"0.30000000000000004", "0.30000000000000005"}, {"123456789012345678", "123456789012345679"}, {".5", "0.5"}, {"1e400", "2e400"}, {"-0", "0"}}

func genPair(t *rapid.T) PairCase {
	if rapid.IntRange(0, 7).Draw(t, "twin") == 0 {
		tw := rapid.SampledFrom(twins).Draw(t, "tw")
		kind := func(l string) string { return rapid.SampledFrom([]string{"field", "field", "field", "str"}).Draw(t, l) }
		c := PairCase{A: Val{Kind: kind("ka"), Str: h.Str(tw[0])}, B: Val{Kind: kind("kb"), Str: h.Str(tw[1])}}
		if rapid.Bool().Draw(t, "swap") {
			c.A, c.B = c.B, c.A
		}
		return c
	}
	c := PairCase{A: genVal(t), B: genVal(t)}
	c.A.Via = rapid.SampledFrom(vias).Draw(t, "viaA")
	c.B.Via = rapid.SampledFrom(vias).Draw(t, "viaB")
	return c
}

func (v Val) source(field int) string {
	switch v.Kind {
	case "num":
		switch v.Spec {
		case "inf":
			return "(-log(0))"
		case "-inf":
			return "log(0)"
		case "nan":
			return "log(-1)"
		}
		if v.Num < 0 {
			return "(-" + strconv.FormatFloat(-v.Num, 'g', 17, 64) + ")"
		}
		return strconv.FormatFloat(v.Num, 'g', 17, 64)
	case "str":
		return awk.QuoteStr(string(v.Str))
	case "field":
		return fmt.Sprintf("$%d", field)
	}
	return fmt.Sprintf("unset%d_", field)
}

// numeric value and whether the value takes part in comparisons as a number
func (v Val) model() (isNum bool, n float64, s string) {
	isNum, n, s = v.base()
	if v.Kind == "num" {
		s = numToStr(n)
	}
	switch v.Via {
	case "sub^", "gsub$", "cat":
		return false, 0, s
	case "plus0":
		switch v.Kind {
		case "str", "field":
			n = prefixValue(s)
		}
		return true, n, numToStr(n)
	}
	return isNum, n, s
}

func (v Val) base() (isNum bool, n float64, s string) {
	switch v.Kind {
	case "num":
		switch v.Spec {
		case "inf":
			return true, math.Inf(1), ""
		case "-inf":
			return true, math.Inf(-1), ""
		case "nan":
			return true, math.NaN(), ""
		}
		return true, v.Num, ""
	case "str":
		return false, 0, string(v.Str)
	case "field":
		if classify(string(v.Str)) == mustNumeric {
			return true, prefixValue(string(v.Str)), string(v.Str)
		}
		return false, 0, string(v.Str)
	}
	return true, 0, "" // unset: both 0 and ""
}

func numToStr(n float64) string {
	switch {
	case math.IsNaN(n):
		return "nan"
	case math.IsInf(n, 1):
		return "inf"
	case math.IsInf(n, -1):
		return "-inf"
	case n == math.Trunc(n) && n >= -9223372036854775808.0 && n < 9223372036854775808.0:
		return strconv.FormatInt(int64(n), 10)
	}
	s, _ := libc.Format("%.6g", nil, cprintf.Double, n)
	return s
}

func runPair(x *h.Ctx, c PairCase) string {
	for _, v := range []Val{c.A, c.B} {
		if (v.Kind == "field" || v.Kind == "str" && v.Via == "plus0") && classify(string(v.Str)) == dontCare {
			x.Discard("don't-care field text")
			return ""
		}
	}
	sa_, a := c.A.setup(1)
	sb_, b := c.B.setup(2)
	var sb strings.Builder
	sb.WriteString("function ident_(p) { return p }\nBEGIN { FS = \"\\001\" } {\n v_ = \"\"; j_ = \"\"; t_ = \"\"; w_ = \"\"\n" + sa_ + sb_)
	for _, pr := range [][2]string{{a, b}, {b, a}} {
		for _, op := range ops {
			fmt.Fprintf(&sb, " v_ = v_ (%s %s %s)\n", pr[0], op, pr[1])
			fmt.Fprintf(&sb, " if (%s %s %s) j_ = j_ \"1\"; else j_ = j_ \"0\"\n", pr[0], op, pr[1])
			fmt.Fprintf(&sb, " t_ = t_ (%s %s %s ? \"1\" : \"0\")\n", pr[0], op, pr[1])
			fmt.Fprintf(&sb, " n_ = 0; while (%s %s %s) { n_ = 1; break }; w_ = w_ n_\n", pr[0], op, pr[1])
		}
	}
	sb.WriteString(" print v_, j_, t_, w_\n}\n")
	prog, err := parser.ParseProgram([]byte(sb.String()), nil)
	if err != nil {
		return "harness: " + err.Error() + "\n" + sb.String()
	}
	var out bytes.Buffer
	input := string(c.A.Str) + fsByte + string(c.B.Str) + "\n"
	if _, err := interp.ExecProgram(prog, &interp.Config{Stdin: strings.NewReader(input), Output: &out, Error: &out, Environ: []string{}}); err != nil {
		return fmt.Sprintf("run-time error: %v\n%s", err, sb.String())
	}
	f := strings.Fields(out.String())
	if len(f) != 4 || len(f[0]) != 12 {
		return fmt.Sprintf("harness: unexpected output %q", out.String())
	}
	desc := fmt.Sprintf("a = %s (%+v), b = %s (%+v); bits: a<b a<=b a==b a!=b a>b a>=b  b<a b<=b b==a b!=a b>a b>=a", a, c.A, b, c.B)
	{
		an, av, _ := c.A.model()
		bn, bv, _ := c.B.model()
		if an && bn && (math.IsNaN(av) || math.IsNaN(bv)) && h.KFOpen("KF-C05-2") && sameOnEquality(f[0], f[1]) && sameOnEquality(f[0], f[2]) && sameOnEquality(f[0], f[3]) {
			x.Excluded("KF-C05-2")
			f[1], f[2], f[3] = f[0], f[0], f[0]
		}
	}
	if f[0] != f[1] || f[0] != f[2] || f[0] != f[3] {
		return fmt.Sprintf("the result of a comparison depends on the syntactic context\n value expression: %s\n if statement:     %s\n ?: condition:     %s\n while condition:  %s\n%s", f[0], f[1], f[2], f[3], desc)
	}
	bits := f[0]
	bit := func(i int) bool { return bits[i] == '1' }
	an, av, as := c.A.model()
	bn, bv, bs := c.B.model()
	// expected by the value model
	var want strings.Builder
	numeric := an && bn
	sa, sb2 := as, bs

	for _, pr := range [][2]int{{0, 1}, {1, 0}} {
		for _, op := range ops {
			var r bool
			if numeric {
				l, rr := av, bv
				if pr[0] == 1 {
					l, rr = bv, av
				}
				r = cmpNum(l, rr, op)
			} else {
				l, rr := sa, sb2
				if pr[0] == 1 {
					l, rr = sb2, sa
				}
				r = cmpStr(l, rr, op)
			}
			if r {
				want.WriteByte('1')
			} else {
				want.WriteByte('0')
			}
		}
	}
	nan := numeric && (math.IsNaN(av) || math.IsNaN(bv))
	if !nan {
		lt, le, eq, ne, gt, ge := bit(0), bit(1), bit(2), bit(3), bit(4), bit(5)
		n := 0
		for _, t := range []bool{lt, eq, gt} {
			if t {
				n++
			}
		}
		if n != 1 {
			return fmt.Sprintf("not exactly one of a<b, a==b, a>b holds: %s\n%s", bits, desc)
		}
		if lt != bit(6+4) || gt != bit(6+0) {
			return fmt.Sprintf("a<b and b>a (or a>b and b<a) disagree: %s\n%s", bits, desc)
		}
		if le != !gt || ge != !lt || ne != !eq {
			return fmt.Sprintf("a<=b != !(a>b), a>=b != !(a<b) or a!=b != !(a==b): %s\n%s", bits, desc)
		}
	}
	if bits != want.String() {
		mode := "as strings"
		if numeric {
			mode = "numerically"
		}
		return fmt.Sprintf("comparison results differ from the value model (these two values compare %s)\n got %s\nwant %s\n%s", mode, bits, want.String(), desc)
	}
	if numeric != (cmpStr(sa, sb2, "<") == cmpNum(av, bv, "<")) || nan {
		x.Nontrivial("")
	}
	return ""
}

// ---------------------------------------------------------------------------
// number -> string

type NumStrCase struct {
	Num     float64 `json:"num"`
	CONVFMT string  `json:"convfmt"`
	OFMT    string  `json:"ofmt"`
	OutMode string  `json:"outmode,omitempty"` // "", csv, tsv: print converts numbers with OFMT in every output mode
	Spec    string  `json:"spec,omitempty"`
}

var numClasses = []float64{0, 1, -1, 42, 2147483647, -2147483648, 4294967296, 9007199254740991, 9007199254740992, 9007199254740993, -9007199254740993,
	9223372036854774784, -9223372036854775808, 9223372036854775808, 1.8446744073709552e19, 1e18, 1e19, 1e30, 5e-324, 2.2250738585072014e-308,
	0.30000000000000004, 1.0 / 3, 1e-7, 1e300, 0.1, 123456.7, 1234567.8, 0.000001234, 100000.5, 999999.5, 3.0000001, 17.5}

func genNumStr(t *rapid.T) NumStrCase {
	c := NumStrCase{}
	fm := func(label string) string {
		switch rapid.IntRange(0, 2).Draw(t, label+"k") {
		case 0:
			return "%." + strconv.Itoa(rapid.IntRange(1, 17).Draw(t, label+"g")) + "g"
		case 1:
			return "%." + strconv.Itoa(rapid.IntRange(0, 8).Draw(t, label+"f")) + "f"
		default:
			return "%." + strconv.Itoa(rapid.IntRange(0, 10).Draw(t, label+"e")) + "e"
		}
	}
	c.CONVFMT, c.OFMT = fm("c"), fm("o")
	c.OutMode = rapid.SampledFrom([]string{"", "", "csv", "tsv"}).Draw(t, "outmode")
	switch rapid.IntRange(0, 5).Draw(t, "nk") {
	case 0, 1:
		c.Num = rapid.SampledFrom(numClasses).Draw(t, "class")
	case 2:
		c.Num = rapid.Float64().Draw(t, "any")
	case 3:
		c.Num = rapid.Float64Range(-1e7, 1e7).Draw(t, "mid")
	case 4:
		c.Num = float64(rapid.Int64().Draw(t, "int"))
	default:
		c.Spec = rapid.SampledFrom([]string{"inf", "-inf", "nan", "-0"}).Draw(t, "spec")
	}
	if math.IsNaN(c.Num) || math.IsInf(c.Num, 0) {
		c.Num = 1.5
	}
	return c
}

var nonFiniteRE = regexp.MustCompile(`(?i)^[+-]?(inf(inity)?|nan)$`)

func runNumStr(x *h.Ctx, c NumStrCase) string {
	n := c.Num
	v := Val{Kind: "num", Num: n, Spec: c.Spec}
	src := v.source(0)
	switch c.Spec {
	case "inf":
		n = math.Inf(1)
	case "-inf":
		n = math.Inf(-1)
	case "nan":
		n = math.NaN()
	case "-0":
		n = math.Copysign(0, -1)
		src = "(-0)"
	}
	prog := fmt.Sprintf("BEGIN { CONVFMT = %s; OFMT = %s; x = %s; s = x \"\"; a[x] = 1; for (k in a) sub_ = k; b[%s] = 1; for (k in b) lit_ = k; c[%s, 7] = 1; for (k in c) mul_ = k; sub(SUBSEP \"7$\", \"\", mul_); printf \"%%s|%%s|%%s|%%s|%%d|\", s, sub_, lit_, mul_, ((%s) in a) + ((%s) in b); print x }", awk.QuoteStr(c.CONVFMT), awk.QuoteStr(c.OFMT), src, src, src, src, src)
	p, err := parser.ParseProgram([]byte(prog), nil)
	if err != nil {
		return "harness: " + err.Error() + "\n" + prog
	}
	var out bytes.Buffer
	ncfg := &interp.Config{Stdin: strings.NewReader(""), Output: &out, Error: &out, Environ: []string{}}
	switch c.OutMode {
	case "csv":
		ncfg.OutputMode = interp.CSVMode
	case "tsv":
		ncfg.OutputMode = interp.TSVMode
	}
	if _, err := interp.ExecProgram(p, ncfg); err != nil {
		return fmt.Sprintf("run-time error: %v\n%s", err, prog)
	}
	parts := strings.Split(strings.TrimSuffix(out.String(), "\n"), "|")
	if len(parts) != 6 {
		return fmt.Sprintf("harness: unexpected output %q", out.String())
	}
	// the same number written as a literal subscript, as the first part of a two-part subscript and as the left side
	// of "in" must give the key the variable gives
	litKey, mulKey, inCount := parts[2], parts[3], parts[4]
	parts = []string{parts[0], parts[1], parts[5]}
	if len(parts[2]) >= 2 && c.OutMode != "" && strings.HasPrefix(parts[2], "\"") && strings.HasSuffix(parts[2], "\"") {
		parts[2] = strings.ReplaceAll(parts[2][1:len(parts[2])-1], "\"\"", "\"") // a quoted CSV field
	}
	if !(math.IsNaN(n) || math.IsInf(n, 0)) && (litKey != parts[1] || mulKey != parts[1] || inCount != "2") {
		return fmt.Sprintf("a number used as a subscript gives different keys depending on how it is written (CONVFMT %q)\nprogram: %s\nthrough a variable: %q  literal: %q  first of two parts: %q  found by 'in' (of 2): %s", c.CONVFMT, prog, parts[1], litKey, mulKey, inCount)
	}
	if math.IsNaN(n) || math.IsInf(n, 0) {
		for _, p := range parts {
			if !nonFiniteRE.MatchString(p) {
				return fmt.Sprintf("non-finite number converts to %q\n%s", p, prog)
			}
		}
		return ""
	}
	var wantC, wantO string
	if n == math.Trunc(n) && n >= -9223372036854775808.0 && n < 9223372036854775808.0 {
		wantC = strconv.FormatInt(int64(n), 10)
		wantO = wantC
	} else {
		wantC, _ = libc.Format(c.CONVFMT, nil, cprintf.Double, n)
		wantO, _ = libc.Format(c.OFMT, nil, cprintf.Double, n)
	}
	if parts[0] != wantC || parts[1] != wantC || parts[2] != wantO {
		return fmt.Sprintf("number-to-string conversion differs from the value model (output mode %q)\nprogram: %s\nconcatenation: %q  subscript: %q  (want %q via CONVFMT / exact integer)\nprint:         %q  (want %q via OFMT / exact integer)", c.OutMode, prog, parts[0], parts[1], wantC, parts[2], wantO)
	}
	if n != math.Trunc(n) || math.Abs(n) >= 9007199254740992 {
		x.Nontrivial("")
	}
	return ""
}

func init() {
	h.Enum("short_strings_exhaustive", enumShort, runStrings)
	h.Prop("strings_all_provenances", 6000, 100000, genBatch, runStrings)
	h.Prop("comparison_laws_pairs", 20000, 300000, genPair, runPair)
	h.Prop("number_to_string", 20000, 300000, genNumStr, runNumStr)
	h.Prop("unset_is_zero_and_empty", 2, 2, func(t *rapid.T) int { return rapid.IntRange(0, 1).Draw(t, "d") }, runUnset)
}

// ---------------------------------------------------------------------------
// the kind of a value does not depend on which variable holds it: a string-valued special variable given a number
// or a numeric-looking input text compares like an ordinary variable given the same

type SpecialCase struct {
	Special string `json:"special"` // SUBSEP OFS ORS FS RS
	Route   string `json:"route"`   // vars (-v) | operand (NAME=value) | field (NAME = $1) | number (NAME = 10 in the program) | string (NAME = "10")
	Text    string `json:"text"`
}

func enumSpecial(thorough bool, yield func(SpecialCase) bool) {
	for _, sp := range []string{"SUBSEP", "OFS", "ORS", "FS", "RS"} {
		for _, route := range []string{"vars", "operand", "field", "number", "string"} {
			for _, text := range []string{"10", "9.5", "1e1", "+10", "010", "abc", "10x", "0x1A"} {
				if route == "number" && classify(text) != mustNumeric {
					continue
				}
				if (sp == "FS" || sp == "RS") && strings.HasPrefix(text, "+") {
					continue // not a regular expression
				}
				if !yield(SpecialCase{sp, route, text}) {
					return
				}
			}
		}
	}
}

func specialObserve(c SpecialCase, name string) (string, error) {
	probe := fmt.Sprintf(`printf "%%d%%d%%d%%d %%s %%.6g\n", (%[1]s < 9), (%[1]s == 10), (%[1]s < "9"), (%[1]s >= 10.0), %[1]s, %[1]s + 0`, name)
	cfg := &interp.Config{Stdin: strings.NewReader(""), Environ: []string{}}
	var src string
	switch c.Route {
	case "vars":
		cfg.Vars = []string{name, c.Text}
		src = "BEGIN { " + probe + " }"
	case "operand":
		cfg.Args = []string{name + "=" + c.Text, "-"}
		cfg.Stdin = strings.NewReader("x\n")
		src = "NR == 1 { " + probe + " }"
	case "field":
		cfg.Stdin = strings.NewReader(c.Text + "\n")
		src = "NR == 1 { " + name + " = $1; " + probe + " }"
	case "number":
		src = "BEGIN { " + name + " = " + c.Text + "; " + probe + " }"
	default:
		src = "BEGIN { " + name + " = " + awk.QuoteStr(c.Text) + "; " + probe + " }"
	}
	prog, err := parser.ParseProgram([]byte(src), nil)
	if err != nil {
		return "", fmt.Errorf("harness: %v\n%s", err, src)
	}
	var out bytes.Buffer
	cfg.Output, cfg.Error = &out, &out
	if _, err := interp.ExecProgram(prog, cfg); err != nil {
		return "", fmt.Errorf("run-time error: %v\n%s", err, src)
	}
	return out.String(), nil
}

func runSpecial(x *h.Ctx, c SpecialCase) string {
	if c.Route != "number" && c.Route != "string" && classify(c.Text) == dontCare {
		x.Discard("don't-care text")
		return ""
	}
	want, err := specialObserve(c, "plain_")
	if err != nil {
		return err.Error()
	}
	got, err := specialObserve(c, c.Special)
	if err != nil {
		return err.Error()
	}
	x.Class("route-" + c.Route)
	if got == want {
		x.Nontrivial("")
		return ""
	}
	numericKind := c.Route == "number" || c.Route != "string" && classify(c.Text) == mustNumeric
	if numericKind && h.KFOpen("KF-C05-4") {
		x.Excluded("KF-C05-4")
		return ""
	}
	return fmt.Sprintf("%s given %q (%s) behaves differently from an ordinary variable given the same\ncolumns: (v < 9)(v == 10)(v < \"9\")(v >= 10.0) v v+0\nordinary variable: %q\n%s: %q", c.Special, c.Text, c.Route, want, c.Special, got)
}

func init() {
	h.Enum("special_variables_keep_value_kind", enumSpecial, runSpecial)
}
