// C14 — a reused Interpreter behaves like a fresh one.
package c14

import (
	"bytes"
	"context"
	"fmt"
	"os"
	"path/filepath"
	"strings"
	"testing"

	"github.com/benhoyt/goawk/interp"
	"github.com/benhoyt/goawk/parser"
	"pgregory.net/rapid"

	"verif/lib/h"
)

func TestMain(m *testing.M)   { h.Main(m, "C14") }
func TestAll(t *testing.T)    { h.RunAll(t) }
func TestReplay(t *testing.T) { h.Replay(t) }

// One program whose behaviour is steered by variables given through Config.Vars:
//   acts  = string of action letters executed in BEGIN (b...) and per record (r...)
//   endm  = how the run ends
//   full  = 1: the observer also prints user variables, arrays and rand()
const program = `
function observe(tag,   k, n, la) {
  # a local array is empty on entry, whatever an abandoned call of an earlier run left in its own
  n = 0; for (k in la) n++
  printf "%s local-array n=%d len=%d has-p=%d\n", tag, n, length(la), ("p" in la)
  la[tag] = 1; la["p"] = 2; la[NR] = 3
  # header names first: the getline from "r0" below reads that file's first line as a header row in header mode
  if (hdr) {
    # in BEGIN no header row has been read yet: @"name" is an error there on a fresh interpreter, which would end
    # every header-mode run before it reads anything; FIELDS must simply be empty
    if (tag ~ /^B/) printf "%s fields n=%d\n", tag, length(FIELDS)
    else printf "%s header <%s> <%s> n=%d\n", tag, @"b", @"zz", length(FIELDS)
  }
  printf "%s NR=%s FNR=%s NF=%s $0=<%s> $1=<%s> FILENAME=<%s> RSTART=%s RLENGTH=%s\n", tag, NR, FNR, NF, $0, $1, FILENAME, RSTART, RLENGTH
  printf "%s seps FS=<%s> OFS=<%s> ORS=<%s> SUBSEP=<%s> CONVFMT=<%s> OFMT=<%s> INPUTMODE=<%s> OUTPUTMODE=<%s> ARGC=%s\n", tag, FS, OFS, (ORS == "\n" ? "nl" : ORS), (SUBSEP == "\034" ? "dflt" : SUBSEP), CONVFMT, OFMT, INPUTMODE, OUTPUTMODE, ARGC
  printf "%s io w0:%d r0:%d %s %s c:%s,%s\n", tag, (getline probe_line < "r0"), 0, probe_line, sprintf("%c", 233), close("w0"), close("nosuch")
  print "marker" > "w1"
  if (full) {
    n = 0; for (k in arr) n++
    printf "%s vars g=<%s> s=<%s> n=%d arr1=<%s> r=%d fmt=%s RT=<%s> ARGV1=<%s> ARGV3=<%s> E=<%s>\n", tag, g, s, n, arr[1], int(rand() * 1000), 1 / 3, RT, ARGV[1], ARGV[3], ENVIRON["E"]
  }
}
function deep(d) { if (d > 0) return deep(d - 1); return boom(acts) }
function boom(a,   k, lb) {
  printf "boom local-array len=%d\n", length(lb)
  lb["p"] = 1; lb["q"] = 2; lb[a] = 3; lb[NR, 1] = 4
  if (endm == "error-in-function") return 1 / (d_zero + 0)
  if (endm == "error-in-forin") { tmp[1] = 1; for (k in tmp) k = 1 / (d_zero + 0) }
  if (endm == "cancel-in-function") { cancel(); for (k = 0; k < 100000; k++) spin++ }
  if (endm == "regex-error") return a ~ "(["
  if (endm == "nf-error") NF = -1
  return 0
}
function act(c,   i) {
  if (c == "a") { g = g "x"; s = s + 1; arr[s] = g; arr["k"] = NR }
  else if (c == "f") FS = ","
  else if (c == "F") FS = "[ab]+"
  else if (c == "o") OFS = "-"
  else if (c == "R") RS = ";"
  else if (c == "P") RS = ""
  else if (c == "c") CONVFMT = "%.2f"
  else if (c == "m") OFMT = "%.1f"
  else if (c == "u") SUBSEP = ":"
  else if (c == "O") ORS = "|\n"
  else if (c == "w") print "data", NR > "w0"
  else if (c == "W") print "more" >> "w0"
  else if (c == "g") getline junk < "r0"
  else if (c == "G") getline < "r1"
  else if (c == "D") { dl_ = ""; print "dash", (getline dl_ < "-"), dl_ }
  else if (c == "l") getline
  else if (c == "M") match("xxabcd", /b+c/)
  else if (c == "v") { ARGV[3] = "r1"; ARGC = 4 }
  else if (c == "d") delete ARGV[1]
  else if (c == "n") NR = 100
  else if (c == "z") $3 = "zed"
  else if (c == "N") NF = 5
  else if (c == "S") srand(42)
  else if (c == "r") rand()
  else if (c == "i") INPUTMODE = "csv header"
  else if (c == "I") INPUTMODE = "tsv"
  else if (c == "t") OUTPUTMODE = "csv"
  else if (c == "p") print "p", $1, $2, 1 / 3
  else if (c == "x") deep(5)
}
BEGIN {
  # the very first thing a run does is a number-to-string conversion of the value the previous run converted last
  # (observe ends with 1/3): anything remembered from that conversion would show here
  printf "first fmt=%s idx=%s\n", 1 / 3, (1 / 3) in arr
  observe("B0")
  for (i_ = 1; i_ <= length(acts); i_++) { c_ = substr(acts, i_, 1); if (c_ == "/") break; act(c_) }
  if (endm == "exit-in-begin" || endm ~ /^exit3-then/) exit 3
  if (endm ~ /begin$/) deep(3)
  observe("B1")
}
pat_err && (1 / (d_zero + 0)) { print "never" }
/^start/, /^stop/ { print "in-range-1", NR, $0 }
$1 == "x,y", $1 == "q" { print "in-range-2", NR }
{
  seen_slash = 0
  for (i_ = 1; i_ <= length(acts); i_++) { c_ = substr(acts, i_, 1); if (c_ == "/") { seen_slash = 1; continue }; if (seen_slash) act(c_) }
  print "rec", NR, NF, $1
  if ((endm == "exit-in-rule" || endm ~ /^exit7-then/) && NR == 2) exit 7
  if (endm !~ /begin$/ && endm != "" && NR == 2) deep(2)
}
END {
  observe("E")
  if (endm == "exit-in-end") exit 9
  # an exit status is already set (exit 7 in a rule, exit 3 in BEGIN) and the run then fails or is cancelled in END
  if (endm ~ /then-end-error$/) end_x_ = 1 / (d_zero + 0)
  if (endm ~ /then-end-cancel$/) { cancel(); for (end_k_ = 0; end_k_ < 100000; end_k_++) spin++ }
}
`

type Run struct {
	Acts     string   `json:"acts"`
	Endm     string   `json:"endm"`
	Stdin    h.Str    `json:"stdin"`
	Args     []string `json:"args,omitempty"`
	InMode   string   `json:"inmode"`  // "", csv, tsv, csvh (header), csv; (separator ;), csv# (comment #)
	OutMode  string   `json:"outmode"` // "", csv, tsv
	Chars    bool     `json:"chars"`
	NoReads  bool     `json:"noreads"`
	NoWrites bool     `json:"nowrites"`
	Ctx      string   `json:"ctx"` // "", background, cancel-after, value
	PatErr   bool     `json:"pat_err"`
	Specials []string `json:"specials,omitempty"` // extra Vars (FS, OFS ...)
	EnvNil   bool     `json:"env_nil,omitempty"`  // Config.Environ left nil: ENVIRON comes from the process environment (E=from-os, set by this package)
}

func init() { os.Setenv("E", "from-os") }

type Case struct {
	History   []Run `json:"history"`
	Probe     Run   `json:"probe"`
	ResetVars bool  `json:"reset_vars"`
}

var endings = []string{"", "", "", "exit-in-begin", "exit-in-rule", "exit-in-end", "error-in-function", "error-in-forin", "cancel-in-function", "regex-error", "nf-error", "error-in-function-begin", "cancel-in-function-begin",
	"exit7-then-end-error", "exit7-then-end-cancel", "exit3-then-end-error"}

func genRun(t *rapid.T, probe bool) Run {
	letters := "affFoRPcmuOwWgGlMvdnzNSriItppx//DD"
	var sb strings.Builder
	for i := rapid.IntRange(0, 8).Draw(t, "nacts"); i > 0; i-- {
		sb.WriteByte(letters[rapid.IntRange(0, len(letters)-1).Draw(t, "act")])
	}
	r := Run{Acts: sb.String(), Endm: rapid.SampledFrom(endings).Draw(t, "endm")}
	lines := []string{"a b c", "x,y", "b,2,3", "1 2", "", "zz,b", "a;b", "q", "start here", "stop here", "start", "x,y"}
	var in strings.Builder
	for i := rapid.IntRange(0, 5).Draw(t, "nlines"); i > 0; i-- {
		in.WriteString(rapid.SampledFrom(lines).Draw(t, "line") + "\n")
	}
	r.Stdin = h.Str(in.String())
	switch rapid.IntRange(0, 4).Draw(t, "args") {
	case 0:
		r.Args = []string{"r0"}
	case 1:
		r.Args = []string{"r1", "-", "r0"}
	}
	r.InMode = rapid.SampledFrom([]string{"", "", "", "csv", "tsv", "csvh", "csv;", "csv#"}).Draw(t, "inmode")
	r.OutMode = rapid.SampledFrom([]string{"", "", "", "csv", "tsv"}).Draw(t, "outmode")
	r.Chars = rapid.Bool().Draw(t, "chars")
	r.NoReads = rapid.IntRange(0, 7).Draw(t, "noreads") == 0
	r.NoWrites = rapid.IntRange(0, 7).Draw(t, "nowrites") == 0
	r.Ctx = rapid.SampledFrom([]string{"", "", "background", "cancel-after", "value"}).Draw(t, "ctx")
	r.PatErr = rapid.IntRange(0, 9).Draw(t, "paterr") == 0
	if probe {
		// the probe run ends normally or by exit, so that its whole transcript is observed
		r.Endm = rapid.SampledFrom([]string{"", "", "exit-in-rule", "exit-in-end"}).Draw(t, "pendm")
		r.PatErr = false
	}
	r.EnvNil = rapid.IntRange(0, 3).Draw(t, "envnil") == 0
	if rapid.IntRange(0, 2).Draw(t, "specials") == 0 {
		r.Specials = []string{rapid.SampledFrom([]string{"FS", "OFS", "CONVFMT", "SUBSEP"}).Draw(t, "sp"), rapid.SampledFrom([]string{",", ":", "%.3g", "-"}).Draw(t, "spv")}
		if r.Specials[0] == "CONVFMT" {
			r.Specials[1] = "%.3g"
		}
	}
	return r
}

func genCase(t *rapid.T) Case {
	c := Case{ResetVars: rapid.Bool().Draw(t, "resetvars")}
	for i := rapid.IntRange(1, 6).Draw(t, "nruns"); i > 0; i-- {
		c.History = append(c.History, genRun(t, false))
	}
	c.Probe = genRun(t, true)
	if !c.ResetVars {
		// ARGV is one of the arrays that legitimately carry over: the probe must not depend on stale entries
		c.Probe.Acts = strings.NewReplacer("v", "", "d", "").Replace(c.Probe.Acts)
	}
	return c
}

var initialFiles = map[string]string{"r0": "r0 line1\nr0 line2\nr0 line3\n", "r1": "a,b\n1,2\n3,4\n", "w0": "old\n"}

func restore(dir string) {
	entries, _ := os.ReadDir(dir)
	for _, e := range entries {
		os.Remove(filepath.Join(dir, e.Name()))
	}
	for name, content := range initialFiles {
		os.WriteFile(filepath.Join(dir, name), []byte(content), 0o644)
	}
}

type outcome struct {
	out    string
	status int
	err    string
	files  string
}

func funcs(cancel *context.CancelFunc) map[string]any {
	return map[string]any{"cancel": func() {
		if *cancel != nil {
			(*cancel)()
		}
	}}
}

func config(r Run, dir string, full bool, explicitSpecials bool, out *bytes.Buffer, fn map[string]any) *interp.Config {
	b := func(v bool) string {
		if v {
			return "1"
		}
		return "0"
	}
	// every steering variable is set in every run (a variable left over from an earlier run must not steer this one)
	vars := []string{"acts", r.Acts, "endm", r.Endm, "full", b(full), "pat_err", b(r.PatErr), "hdr", b(strings.HasPrefix(r.InMode, "csv")), "d_zero", "0"}
	if explicitSpecials {
		// the probe run pins every special variable, so that (without ResetVars) what legitimately
		// carries over cannot influence what is observed
		vars = append(vars, "FS", " ", "OFS", " ", "ORS", "\n", "RS", "\n", "SUBSEP", "\034", "CONVFMT", "%.6g", "OFMT", "%.6g")
	}
	vars = append(vars, r.Specials...)
	cfg := &interp.Config{Stdin: strings.NewReader(string(r.Stdin)), Output: out, Error: out, Argv0: "goawk", Args: r.Args, Vars: vars,
		Environ: []string{"E", "1"}, Chars: r.Chars, NoExec: true, NoFileReads: r.NoReads, NoFileWrites: r.NoWrites, Funcs: fn,
		OpenFile: func(name string, flag int, perm os.FileMode) (*os.File, error) {
			return os.OpenFile(filepath.Join(dir, filepath.Base(name)), flag, perm)
		}}
	if r.EnvNil {
		cfg.Environ = nil
	}
	switch r.InMode {
	case "csv":
		cfg.InputMode = interp.CSVMode
	case "tsv":
		cfg.InputMode = interp.TSVMode
	case "csvh":
		cfg.InputMode = interp.CSVMode
		cfg.CSVInput.Header = true
	case "csv;":
		cfg.InputMode = interp.CSVMode
		cfg.CSVInput.Separator = ';'
	case "csv#":
		cfg.InputMode = interp.CSVMode
		cfg.CSVInput.Comment = '#'
	}
	switch r.OutMode {
	case "csv":
		cfg.OutputMode = interp.CSVMode
	case "tsv":
		cfg.OutputMode = interp.TSVMode
	}
	return cfg
}

func execute(it *interp.Interpreter, r Run, dir string, full, explicit bool, cancelPtr *context.CancelFunc, fn map[string]any) outcome {
	var out bytes.Buffer
	cfg := config(r, dir, full, explicit, &out, fn)
	var status int
	var err error
	switch r.Ctx {
	case "":
		if strings.HasPrefix(r.Endm, "cancel") {
			ctx, cancel := context.WithCancel(context.Background())
			*cancelPtr = cancel
			status, err = it.ExecuteContext(ctx, cfg)
			cancel()
		} else {
			status, err = it.Execute(cfg)
		}
	case "background":
		*cancelPtr = nil
		status, err = it.ExecuteContext(context.Background(), cfg)
	case "value":
		*cancelPtr = nil
		type key struct{}
		status, err = it.ExecuteContext(context.WithValue(context.Background(), key{}, 1), cfg)
	default: // cancel-after: a cancellable context, cancelled (by the script or) after the run
		ctx, cancel := context.WithCancel(context.Background())
		*cancelPtr = cancel
		status, err = it.ExecuteContext(ctx, cfg)
		cancel()
	}
	*cancelPtr = nil
	o := outcome{out: out.String(), status: status}
	if err != nil {
		o.err = err.Error()
	}
	var fb strings.Builder
	for _, name := range []string{"w0", "w1"} {
		data, e := os.ReadFile(filepath.Join(dir, name))
		fmt.Fprintf(&fb, "%s:%q,%v;", name, data, e == nil)
	}
	o.files = fb.String()
	return o
}

func run(x *h.Ctx, c Case) string {
	var cancel context.CancelFunc
	fn := funcs(&cancel)
	prog, err := parser.ParseProgram([]byte(program), &parser.ParserConfig{Funcs: fn})
	if err != nil {
		return "harness: program does not parse: " + err.Error()
	}
	dirA := h.TempDir("c14a")
	defer os.RemoveAll(dirA)
	dirB := h.TempDir("c14b")
	defer os.RemoveAll(dirB)

	reused, _ := interp.New(prog)
	var hist []string
	abnormal, header := false, false
	for _, r := range c.History {
		restore(dirA)
		o := execute(reused, r, dirA, true, false, &cancel, fn)
		hist = append(hist, fmt.Sprintf("acts=%q endm=%q inmode=%q outmode=%q chars=%v ctx=%q args=%q noreads=%v nowrites=%v specials=%q -> status=%d err=%q", r.Acts, r.Endm, r.InMode, r.OutMode, r.Chars, r.Ctx, r.Args, r.NoReads, r.NoWrites, r.Specials, o.status, h.Trunc(o.err, 60)))
		if o.err != "" {
			abnormal = true
		}
		if r.InMode == "csvh" {
			header = true
		}
	}
	if c.ResetVars {
		reused.ResetVars()
		reused.ResetRand()
	}
	restore(dirA)
	// after ResetVars the special variables are at their defaults by themselves: pinning them through Vars would
	// re-assign each one (and thereby reset whatever an implementation derives from it) and hide stale state
	got := execute(reused, c.Probe, dirA, c.ResetVars, !c.ResetVars, &cancel, fn)

	// the same probe on a fresh interpreter (freshly parsed program)
	var cancel2 context.CancelFunc
	fn2 := funcs(&cancel2)
	prog2, _ := parser.ParseProgram([]byte(program), &parser.ParserConfig{Funcs: fn2})
	fresh, _ := interp.New(prog2)
	restore(dirB)
	want := execute(fresh, c.Probe, dirB, c.ResetVars, !c.ResetVars, &cancel2, fn2)

	if got != want {
		return fmt.Sprintf("a reused interpreter (ResetVars=%v) behaves differently from a fresh one on the probe run\n--- history:\n  %s\n--- probe: acts=%q endm=%q inmode=%q outmode=%q chars=%v ctx=%q args=%q stdin=%q specials=%q\n--- reused: status=%d err=%q files=%s\n%s--- fresh:  status=%d err=%q files=%s\n%s",
			c.ResetVars, strings.Join(hist, "\n  "), c.Probe.Acts, c.Probe.Endm, c.Probe.InMode, c.Probe.OutMode, c.Probe.Chars, c.Probe.Ctx, c.Probe.Args, c.Probe.Stdin, c.Probe.Specials,
			got.status, got.err, got.files, got.out, want.status, want.err, want.files, want.out)
	}
	if c.ResetVars {
		x.Class("with-resetvars")
	} else {
		x.Class("without-resetvars")
	}
	if abnormal {
		x.Class("history-with-error-or-cancel")
	}
	if header {
		x.Class("history-with-csv-header")
	}
	if abnormal || header {
		x.Nontrivial("")
	}
	return ""
}

func init() {
	h.Prop("reused_vs_fresh", 12000, 200000, genCase, run)
}
