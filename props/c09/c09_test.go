// C09 — printf and sprintf format like C printf; print uses OFMT.
package c09

import (
	"encoding/csv"
	"bytes"
	"fmt"
	"math"
	"strconv"
	"strings"
	"testing"
	"unicode/utf8"

	"github.com/benhoyt/goawk/interp"
	"github.com/benhoyt/goawk/parser"
	"pgregory.net/rapid"

	"verif/lib/awk"
	"verif/lib/cprintf"
	"verif/lib/h"
)

var libc *cprintf.Client

func TestMain(m *testing.M) {
	var err error
	libc, err = cprintf.Start()
	if err != nil {
		fmt.Println("cannot start the libc printf helper:", err)
		// inconclusive, not a violation: no stats file is written
		panic(err)
	}
	h.Main(m, "C09")
}
func TestAll(t *testing.T)    { h.RunAll(t) }
func TestReplay(t *testing.T) { h.Replay(t) }

// ---------------------------------------------------------------------------

type Arg struct {
	Kind string  `json:"kind"` // num | str | field (numeric-string provenance) | inf | -inf | nan
	Num  float64 `json:"num,omitempty"`
	Str  h.Str   `json:"str,omitempty"`
}

type Spec struct {
	Flags string `json:"flags"`
	Width string `json:"width"` // "", digits, "*"
	Prec  string `json:"prec"`  // "", ".", ".digits", ".*"
	Conv  string `json:"conv"`
	StarW int32  `json:"starw,omitempty"`
	StarP int32  `json:"starp,omitempty"`
	Arg   Arg    `json:"arg"`
}

type Case struct {
	Lits  []h.Str `json:"lits"` // len(Specs)+1 literal pieces
	Specs []Spec  `json:"specs"`
	Chars bool    `json:"chars"`
	Via   string  `json:"via"` // printf | sprintf
	Warm  int     `json:"warm,omitempty"` // number of distinct other formats used earlier in the same run
}

var convs = []string{"d", "i", "o", "x", "X", "u", "c", "s", "e", "E", "f", "g", "G"}

var intVals = []float64{0, 1, -1, 7, 42, -42, 255, 256, 65535, 2147483647, -2147483648, 2147483648, 4294967296, 9007199254740992, -9007199254740992, 9223372036854774784, -9223372036854775808, 1000000, 123456789}
var fracVals = []float64{0.5, -0.5, 1.9, -1.9, 2.5, 3.14159265358979, 0.1, 1e-7, 1.5e-10, 123456.789, 1e15, 1e16, 1e17, 1e21, 1e100, 1e300, 5e-324, 2.2250738585072014e-308, 0.000123456, 99999.95, 999999.5, 1234567.891, -0.0001, 100, 1e5, 1e6, 123456, 1234567, 0.30000000000000004}
var strVals = []string{"", "abc", "hello world", "42", "-3.7", "12abc", " 5", "é", "日本語", "aé", "\xff\xfe", "a\tb", "%d", "1e3", "+7", ".5", "x",
	// integer-looking text beyond 2^53: the AWK way is text -> double -> truncation, not text -> integer
	"9007199254740993", "-9007199254740993", "123456789012345678", "4611686018427387905", " 9007199254740993", "9007199254740993.7", "+18014398509481985", "1152921504606846977x"}

func genArg(t *rapid.T, conv string) Arg {
	intConv := strings.Contains("dioxXu", conv)
	switch k := rapid.IntRange(0, 19).Draw(t, "argk"); {
	case conv == "c":
		if k < 12 {
			return Arg{Kind: "num", Num: float64(rapid.IntRange(0, 255).Draw(t, "code"))}
		}
		if k < 14 {
			return Arg{Kind: "num", Num: float64(rapid.SampledFrom([]int{0x100, 0x3b1, 0x20ac, 0x1F600, 0x10FFFF, 128, 233}).Draw(t, "ucode"))}
		}
		if k < 17 {
			return Arg{Kind: "str", Str: h.Str(rapid.SampledFrom(strVals).Draw(t, "cstr"))}
		}
		// a field: text that looks entirely like a number is a number (the character with that code), anything
		// else a string (its first character)
		return Arg{Kind: "field", Str: h.Str(rapid.SampledFrom([]string{"65", "66.9", "abc", "97", "233", "8364", " 67 ", "1e2", "+72", "12abc", "6", "9x", "255", "256", "é1"}).Draw(t, "cfield"))}
	case k < 7:
		return Arg{Kind: "num", Num: rapid.SampledFrom(intVals).Draw(t, "int")}
	case k < 9:
		return Arg{Kind: "num", Num: float64(rapid.Int64Range(-1<<53, 1<<53).Draw(t, "rint"))}
	case k < 13:
		v := rapid.SampledFrom(fracVals).Draw(t, "frac")
		if rapid.Bool().Draw(t, "neg") {
			v = -v
		}
		if intConv && math.Abs(v) >= 9.2e18 {
			v = 1.9
		}
		return Arg{Kind: "num", Num: v}
	case k < 14:
		v := rapid.Float64Range(-1e6, 1e6).Draw(t, "rf")
		return Arg{Kind: "num", Num: v}
	case k < 15 && !intConv:
		return Arg{Kind: rapid.SampledFrom([]string{"inf", "-inf", "nan"}).Draw(t, "nonfinite")}
	case k < 18:
		return Arg{Kind: "str", Str: h.Str(rapid.SampledFrom(strVals).Draw(t, "str"))}
	default:
		return Arg{Kind: "field", Str: h.Str(rapid.SampledFrom([]string{"42", "-3.7", "abc", "1e3", "0", "007", "3.0", "12abc", "9007199254740993", "-4611686018427387905", "123456789012345678"}).Draw(t, "field"))}
	}
}

func genSpec(t *rapid.T) Spec {
	s := Spec{Conv: rapid.SampledFrom(convs).Draw(t, "conv")}
	numeric := s.Conv != "c" && s.Conv != "s"
	// flags: only combinations ISO C defines
	for _, f := range []string{"-", "+", " ", "#", "0"} {
		if rapid.IntRange(0, 3).Draw(t, "flag"+f) != 0 {
			continue
		}
		if f == "#" && !strings.Contains("oxXeEfgG", s.Conv) {
			continue
		}
		if f == "0" && !numeric {
			continue
		}
		if (f == "+" || f == " ") && strings.Contains("oxXu", s.Conv) && rapid.IntRange(0, 3).Draw(t, "signOnUnsigned") != 0 {
			continue // C defines these as having no effect; kept rare because goawk deviates (KF-C09-2)
		}
		s.Flags += f
	}
	switch k := rapid.IntRange(0, 9).Draw(t, "wk"); {
	case k < 4:
	case k < 8:
		s.Width = strconv.Itoa(rapid.IntRange(1, 12).Draw(t, "w"))
	case k < 9:
		s.Width = "40"
	default:
		s.Width = "*"
		s.StarW = int32(rapid.IntRange(-12, 12).Draw(t, "starw"))
	}
	if s.Conv != "c" {
		switch k := rapid.IntRange(0, 9).Draw(t, "pk"); {
		case k < 4:
		case k < 5:
			s.Prec = "."
		case k < 8:
			s.Prec = "." + strconv.Itoa(rapid.IntRange(0, 10).Draw(t, "p"))
		case k < 9:
			s.Prec = ".20"
		default:
			s.Prec = ".*"
			s.StarP = int32(rapid.IntRange(-3, 12).Draw(t, "starp"))
		}
	}
	s.Arg = genArg(t, s.Conv)
	return s
}

func genCase(t *rapid.T) Case {
	n := rapid.IntRange(1, 4).Draw(t, "nspecs")
	if rapid.IntRange(0, 2).Draw(t, "single") > 0 {
		n = 1
	}
	c := Case{Chars: rapid.IntRange(0, 3).Draw(t, "chars") == 0, Via: rapid.SampledFrom([]string{"printf", "sprintf"}).Draw(t, "via")}
	// literal text, including %% directly followed by text that looks like the rest of a conversion
	lits := []string{"", "[", "]", " ", "%%", "x=", "é", "\n", "100%%|", "%%g", "%%G=", "%%growth", "50%% 3g of ", "%%-8G|", "%%d", "%%5.2f", "%%%%", "%%s%%", "%%c", "%%.3e", "%%i", "%%+g ", "%%#x", "a%%*d"}
	for i := 0; i < n; i++ {
		c.Specs = append(c.Specs, genSpec(t))
		c.Lits = append(c.Lits, h.Str(rapid.SampledFrom(lits).Draw(t, "lit")))
	}
	c.Lits = append(c.Lits, h.Str(rapid.SampledFrom(lits).Draw(t, "lit")))
	if rapid.IntRange(0, 7).Draw(t, "warm?") == 0 {
		c.Warm = rapid.IntRange(1, 260).Draw(t, "warm")
	}
	return c
}

// ---------------------------------------------------------------------------
// the AWK side of the conversion, independent of goawk

// numPrefix: longest leading numeric prefix of a plain decimal string (the strings used here are unambiguous).
func numPrefix(s string) float64 {
	s = strings.TrimLeft(s, " \t\n")
	end := 0
	i := 0
	if i < len(s) && (s[i] == '+' || s[i] == '-') {
		i++
	}
	digits := 0
	for i < len(s) && s[i] >= '0' && s[i] <= '9' {
		i++
		digits++
	}
	if i < len(s) && s[i] == '.' {
		i++
		for i < len(s) && s[i] >= '0' && s[i] <= '9' {
			i++
			digits++
		}
	}
	if digits == 0 {
		return 0
	}
	end = i
	if i < len(s) && (s[i] == 'e' || s[i] == 'E') {
		j := i + 1
		if j < len(s) && (s[j] == '+' || s[j] == '-') {
			j++
		}
		k := j
		for k < len(s) && s[k] >= '0' && s[k] <= '9' {
			k++
		}
		if k > j {
			end = k
		}
	}
	f, _ := strconv.ParseFloat(s[:end], 64)
	return f
}

func argNum(a Arg) float64 {
	switch a.Kind {
	case "num":
		return a.Num
	case "inf":
		return math.Inf(1)
	case "-inf":
		return math.Inf(-1)
	case "nan":
		return math.NaN()
	}
	return numPrefix(string(a.Str))
}

// isStringValue: would AWK treat the argument as a string (for %c)?
func isStringValue(a Arg) bool {
	switch a.Kind {
	case "str":
		return true
	case "field":
		// a field that looks entirely like a number is a number
		s := strings.TrimSpace(string(a.Str))
		_, err := strconv.ParseFloat(s, 64)
		return err != nil
	}
	return false
}

func argStr(a Arg) (string, error) {
	switch a.Kind {
	case "str", "field":
		return string(a.Str), nil
	case "inf":
		return "inf", nil
	case "-inf":
		return "-inf", nil
	case "nan":
		return "nan", nil
	}
	n := a.Num
	if n == math.Trunc(n) && n >= -9223372036854775808.0 && n < 9223372036854775808.0 {
		return strconv.FormatInt(int64(n), 10), nil
	}
	return libc.Format("%.6g", nil, cprintf.Double, n) // CONVFMT
}

func awkArgSource(a Arg, fieldIdx *int) string {
	switch a.Kind {
	case "num":
		if a.Num < 0 || (a.Num == 0 && math.Signbit(a.Num)) {
			return "-" + strconv.FormatFloat(-a.Num, 'g', 17, 64)
		}
		return strconv.FormatFloat(a.Num, 'g', 17, 64)
	case "inf":
		return "-log(0)"
	case "-inf":
		return "log(0)"
	case "nan":
		return "log(-1)"
	case "str":
		return awk.QuoteStr(string(a.Str))
	case "field":
		*fieldIdx++
		return fmt.Sprintf("$%d", *fieldIdx)
	}
	panic("bad arg kind")
}

func (s Spec) text() string { return "%" + s.Flags + s.Width + s.Prec + s.Conv }

// expected renders the specification the C way. ok=false: outside what C defines (discard).
func expected(s Spec, chars bool) (out string, ok bool, err error) {
	var stars []int32
	if s.Width == "*" {
		stars = append(stars, s.StarW)
	}
	if s.Prec == ".*" {
		stars = append(stars, s.StarP)
	}
	pre := "%" + s.Flags + s.Width + s.Prec
	switch s.Conv {
	case "d", "i":
		n := math.Trunc(argNum(s.Arg))
		if math.IsNaN(n) || math.Abs(n) >= 9.2233720368547e18 {
			return "", false, nil
		}
		out, err = libc.Format(pre+"ll"+s.Conv, stars, cprintf.Int, int64(n))
	case "o", "x", "X", "u":
		n := math.Trunc(argNum(s.Arg))
		if math.IsNaN(n) || math.Abs(n) >= 9.2233720368547e18 {
			return "", false, nil
		}
		out, err = libc.Format(pre+"ll"+s.Conv, stars, cprintf.Uint, uint64(int64(n)))
	case "e", "E", "f", "g", "G":
		v := argNum(s.Arg)
		if (s.Conv == "g" || s.Conv == "G") && strings.Contains(s.Flags, "#") && !math.IsInf(v, 0) && !math.IsNaN(v) && v != 0 {
			// glibc mis-renders %#g when rounding to the precision carries into the
			// next power of ten (999999.5 -> "1.e+06" instead of "1.00000e+06"):
			// the oracle is unreliable there, so such cases are not judged.
			p := 6
			switch {
			case s.Prec == ".":
				p = 0
			case s.Prec == ".*":
				if s.StarP >= 0 {
					p = int(s.StarP)
				}
			case s.Prec != "":
				p, _ = strconv.Atoi(s.Prec[1:])
			}
			if p == 0 {
				p = 1
			}
			e1, _ := libc.Format("%."+strconv.Itoa(p-1)+"e", nil, cprintf.Double, v)
			e2, _ := libc.Format("%.17e", nil, cprintf.Double, v)
			if i1, i2 := strings.LastIndexByte(e1, 'e'), strings.LastIndexByte(e2, 'e'); i1 < 0 || i2 < 0 || e1[i1:] != e2[i2:] {
				return "", false, nil
			}
		}
		out, err = libc.Format(pre+s.Conv, stars, cprintf.Double, v)
	case "c":
		if isStringValue(s.Arg) {
			str := string(s.Arg.Str)
			if str == "" {
				// first character of an empty string: POSIX leaves it open; goawk prints a NUL byte
				return "", false, nil
			}
			if chars {
				r, size := utf8.DecodeRuneInString(str)
				if r == utf8.RuneError || (size > 1 && s.Width != "") {
					return "", false, nil
				}
				if size > 1 {
					return str[:size], true, nil
				}
			}
			out, err = libc.Format(pre+"c", stars, cprintf.Char, int32(str[0]))
		} else {
			n := argNum(s.Arg)
			if n < 0 || n != math.Trunc(n) {
				return "", false, nil
			}
			if chars {
				if n > 0x10FFFF || (n >= 0xD800 && n <= 0xDFFF) {
					return "", false, nil
				}
				if n >= 128 {
					if s.Width != "" {
						return "", false, nil // C counts bytes, -c mode counts characters: not comparable
					}
					return string(rune(int(n))), true, nil
				}
			} else if n > 255 {
				return "", false, nil
			}
			if n == 0 {
				return "", false, nil // the helper's C string cannot carry the NUL the conversion must produce
			}
			out, err = libc.Format(pre+"c", stars, cprintf.Char, int32(n))
		}
	case "s":
		var str string
		str, err = argStr(s.Arg)
		if err != nil {
			return "", false, err
		}
		if strings.ContainsRune(str, 0) {
			return "", false, nil
		}
		if chars && !isASCII(str) && (s.Width != "" || s.Prec != "") {
			return "", false, nil // -c mode counts characters, C counts bytes
		}
		out, err = libc.Format(pre+"s", stars, cprintf.String, str)
	}
	return out, err == nil, err
}

func precisionIsZero(s Spec) bool {
	return s.Prec == "." || s.Prec == ".0" || s.Prec == ".*" && s.StarP == 0
}

func isASCII(s string) bool {
	for i := 0; i < len(s); i++ {
		if s[i] >= 0x80 {
			return false
		}
	}
	return true
}

func runAwk(src, input string, chars bool) (string, int, error) {
	prog, err := parser.ParseProgram([]byte(src), nil)
	if err != nil {
		return "", 0, fmt.Errorf("parse: %w", err)
	}
	var out bytes.Buffer
	status, err := interp.ExecProgram(prog, &interp.Config{Stdin: strings.NewReader(input), Output: &out, Error: &out, Argv0: "goawk", Environ: []string{}, Chars: chars, NoExec: true, NoFileWrites: true, NoFileReads: true})
	return out.String(), status, err
}

func nonFinite(a Arg) bool { return a.Kind == "inf" || a.Kind == "-inf" || a.Kind == "nan" }

func run(x *h.Ctx, c Case) string {
	var format, want strings.Builder
	var args []string
	var fields []string
	fieldIdx := 0
	for i, s := range c.Specs {
		format.WriteString(string(c.Lits[i]))
		want.WriteString(strings.ReplaceAll(string(c.Lits[i]), "%%", "%"))
		format.WriteString(s.text())
		exp, ok, err := expected(s, c.Chars)
		if err != nil {
			x.Discard("libc helper error: " + err.Error())
			return ""
		}
		if !ok {
			x.Discard("outside what ISO C / the statement defines")
			return ""
		}
		// known findings (open): signatures as narrow as the root cause allows
		if h.KFOpen("KF-C09-3") && nonFinite(s.Arg) && strings.Contains("eEfgG", s.Conv) {
			x.Excluded("KF-C09-3")
			return ""
		}
		if h.KFOpen("KF-C09-4") && !c.Chars && s.Conv == "s" && (s.Width != "" || s.Prec != "") {
			if str, _ := argStr(s.Arg); !isASCII(str) {
				x.Excluded("KF-C09-4")
				return ""
			}
		}
		if h.KFOpen("KF-C09-5") && strings.Contains(s.Flags, "#") && (s.Conv == "x" || s.Conv == "X") && math.Trunc(argNum(s.Arg)) == 0 {
			x.Excluded("KF-C09-5")
			return ""
		}
		if h.KFOpen("KF-C09-2") && strings.Contains("oxXu", s.Conv) && strings.ContainsAny(s.Flags, "+ ") {
			x.Excluded("KF-C09-2")
			return ""
		}
		if h.KFOpen("KF-C09-6") && strings.Contains("dioxXu", s.Conv) && precisionIsZero(s) && math.Trunc(argNum(s.Arg)) == 0 && strings.ContainsAny(s.Flags, "+ #") {
			x.Excluded("KF-C09-6")
			return ""
		}
		if h.KFOpen("KF-C09-7") && s.Prec == ".*" && s.StarP < 0 {
			x.Excluded("KF-C09-7")
			return ""
		}
		if h.KFOpen("KF-C09-8") && (s.Conv == "x" || s.Conv == "X") && strings.Contains(s.Flags, "#") && strings.Contains(s.Flags, "0") && s.Width != "" {
			x.Excluded("KF-C09-8")
			return ""
		}
		want.WriteString(exp)
		if s.Width == "*" {
			args = append(args, strconv.Itoa(int(s.StarW)))
		}
		if s.Prec == ".*" {
			args = append(args, strconv.Itoa(int(s.StarP)))
		}
		args = append(args, awkArgSource(s.Arg, &fieldIdx))
		if s.Arg.Kind == "field" {
			fields = append(fields, string(s.Arg.Str))
		}
	}
	last := string(c.Lits[len(c.Specs)])
	format.WriteString(last)
	want.WriteString(strings.ReplaceAll(last, "%%", "%"))
	fmtLit := awk.QuoteStr(format.String())
	var stmt string
	if c.Via == "sprintf" {
		stmt = "r = sprintf(" + strings.Join(append([]string{fmtLit}, args...), ", ") + "); printf \"%s\", r"
	} else {
		stmt = "printf " + strings.Join(append([]string{fmtLit}, args...), ", ")
	}
	src := "BEGIN { FS = \"\\t\" } { " + stmt + " }"
	if c.Warm > 0 {
		// the same run has already used many other distinct formats (and regexes)
		src = fmt.Sprintf("BEGIN { for (i = 1; i <= %d; i++) { w = w sprintf(\"%%\" i \"d%%c\", 1, 65); match(\"x\", \"y\" i) } }\n", c.Warm) + src
		x.Class("after-many-formats")
	}
	input := strings.Join(fields, "\t") + "\n"
	got, status, err := runAwk(src, input, c.Chars)
	if err != nil {
		return fmt.Sprintf("printf failed: %v\nprogram: %s\ninput: %q", err, src, input)
	}
	if status != 0 {
		return fmt.Sprintf("unexpected exit status %d\nprogram: %s", status, src)
	}
	if got != want.String() {
		return fmt.Sprintf("output differs from C printf\nprogram: %s\ninput:   %q\nchars:   %v\ngoawk:   %q\nC:       %q", src, input, c.Chars, got, want.String())
	}
	for _, s := range c.Specs {
		x.Class("conv-" + s.Conv)
		if (s.Flags != "" || s.Width != "" || s.Prec != "") && !(s.Arg.Kind == "num" && s.Arg.Num == 0) && !(s.Arg.Kind == "str" && s.Arg.Str == "") {
			x.Nontrivial("")
		}
	}
	return ""
}

// ---------------------------------------------------------------------------
// error cases: too few arguments, unknown conversion, % at the end

type ErrCase struct {
	Format h.Str `json:"format"`
	NArgs  int   `json:"nargs"`
	Kind   string `json:"kind"`
	// too-few-arguments only: the same format text is used first with Need (enough) arguments, through
	// sprintf (1), printf (2) or a variable holding the format (3); 0: the failing call is its first use
	Warm int `json:"warm,omitempty"`
	Need int `json:"need,omitempty"`
}

func genErr(t *rapid.T) ErrCase {
	switch rapid.IntRange(0, 2).Draw(t, "ek") {
	case 0:
		n := rapid.IntRange(1, 4).Draw(t, "nspec")
		var sb strings.Builder
		need := 0
		for i := 0; i < n; i++ {
			sb.WriteString("a%")
			if rapid.IntRange(0, 3).Draw(t, "star") == 0 {
				sb.WriteString("*")
				need++
			}
			sb.WriteString(rapid.SampledFrom(convs).Draw(t, "conv"))
			need++
		}
		return ErrCase{Format: h.Str(sb.String()), NArgs: rapid.IntRange(0, need-1).Draw(t, "nargs"), Kind: "too-few-arguments", Need: need, Warm: rapid.IntRange(0, 3).Draw(t, "warm")}
	case 1:
		letter := rapid.SampledFrom([]string{"z", "y", "k", "!", "q", "v", "t", "b", "w", "m", "j", "p", "n", "B", "Q", "T", "U", "v", "@", "~", "I", "l", "h", "L"}).Draw(t, "letter")
		return ErrCase{Format: h.Str("x%" + rapid.SampledFrom([]string{"", "5", "-", ".2", "05"}).Draw(t, "mid") + letter + "y"), NArgs: 3, Kind: "unknown-conversion"}
	default:
		return ErrCase{Format: h.Str("abc" + rapid.SampledFrom([]string{"%", "%5", "%-", "%.3", "%d %", "%*"}).Draw(t, "tail")), NArgs: 3, Kind: "percent-at-end"}
	}
}

func runErr(x *h.Ctx, c ErrCase) string {
	args := []string{awk.QuoteStr(string(c.Format))}
	for i := 0; i < c.NArgs; i++ {
		args = append(args, strconv.Itoa(i+1))
	}
	warm := ""
	if c.Warm > 0 {
		full := []string{awk.QuoteStr(string(c.Format))}
		if c.Warm == 3 {
			full[0] = "fmt_"
			warm = "fmt_ = " + awk.QuoteStr(string(c.Format)) + "; "
		}
		for i := 0; i < c.Need; i++ {
			full = append(full, strconv.Itoa(i+1))
		}
		if c.Warm == 2 {
			warm += "printf " + strings.Join(full, ", ") + "; "
		} else {
			warm += "w_ = sprintf(" + strings.Join(full, ", ") + "); "
		}
		x.Class("format-used-before-with-enough-arguments")
	}
	for _, via := range []string{"printf", "sprintf"} {
		var src string
		if via == "printf" {
			src = "BEGIN { print \"before\"; " + warm + "printf " + strings.Join(args, ", ") + "; print \"after\" }"
		} else {
			src = "BEGIN { print \"before\"; " + warm + "r = sprintf(" + strings.Join(args, ", ") + "); print \"after\" r }"
		}
		got, _, err := runAwk(src, "", false)
		if strings.Contains(got, "%!") {
			return fmt.Sprintf("%s printed Go's bad-format marker instead of failing\nprogram: %s\noutput: %q", c.Kind, src, got)
		}
		if err == nil {
			return fmt.Sprintf("%s is not reported as a run-time error (silent garbage)\nprogram: %s\noutput: %q", c.Kind, src, got)
		}
		if strings.Contains(got, "after") {
			return fmt.Sprintf("%s: execution continued after the failing %s\nprogram: %s\noutput: %q", c.Kind, via, src, got)
		}
	}
	x.Class(c.Kind)
	x.Nontrivial("")
	return ""
}

// ---------------------------------------------------------------------------
// print uses OFMT for non-integral numbers and prints integral ones as integers

type PrintCase struct {
	OFMT    string  `json:"ofmt"`
	Num     float64 `json:"num"`
	Mode    string  `json:"mode"`    // "", csv, tsv: OUTPUTMODE
	Convfmt string  `json:"convfmt"` // CONVFMT is set to something else, so that confusing the two shows
	Where   int     `json:"where"`   // 0 BEGIN, 1 inside a function, 2 in a rule, 3 redirected to "-" (standard output)
}

func genPrint(t *rapid.T) PrintCase {
	ofmt := rapid.SampledFrom([]string{"%.6g", "%.3g", "%.10g", "%.2f", "%.0f", "%.4e", "%g", "%.17g", "%8.3f", "%e", "%f", "%.1g"}).Draw(t, "ofmt")
	var n float64
	switch rapid.IntRange(0, 3).Draw(t, "nk") {
	case 0:
		n = rapid.SampledFrom(intVals).Draw(t, "int")
		if rapid.IntRange(0, 3).Draw(t, "edge") == 0 {
			// the ends of the signed 64-bit range: -2^63 is the last integer written as an integer, 2^63 the first written with OFMT
			n = rapid.SampledFrom([]float64{9223372036854775808, -9223372036854775808, 9223372036854774784, -9223372036854777856, 18446744073709551616, 1e19, -1e19, 9007199254740993, 4611686018427387904}).Draw(t, "edgev")
		}
	case 1:
		n = rapid.SampledFrom(fracVals).Draw(t, "frac")
		if rapid.Bool().Draw(t, "neg") {
			n = -n
		}
	case 2:
		n = rapid.Float64Range(-1e9, 1e9).Draw(t, "rf")
	default:
		n = float64(rapid.Int64Range(-1<<53, 1<<53).Draw(t, "ri")) / float64(rapid.SampledFrom([]int{1, 2, 3, 10, 1000, 7}).Draw(t, "div"))
	}
	return PrintCase{OFMT: ofmt, Num: n, Mode: rapid.SampledFrom([]string{"", "", "csv", "tsv"}).Draw(t, "mode"),
		Convfmt: rapid.SampledFrom([]string{"%.6g", "%.6g", "%.2g", "%.12g", "%.1f"}).Draw(t, "convfmt"), Where: rapid.IntRange(0, 3).Draw(t, "where")}
}

func runPrint(x *h.Ctx, c PrintCase) string {
	var want string
	if c.Num == math.Trunc(c.Num) && c.Num >= -9223372036854775808.0 && c.Num < 9223372036854775808.0 {
		want = strconv.FormatInt(int64(c.Num), 10)
	} else {
		var err error
		want, err = libc.Format(c.OFMT, nil, cprintf.Double, c.Num)
		if err != nil {
			x.Discard("libc helper error")
			return ""
		}
	}
	if h.KFOpen("KF-C09-1") && !strings.Contains(c.OFMT, ".") && strings.ContainsAny(c.OFMT, "gG") {
		x.Excluded("KF-C09-1")
		return ""
	}
	numSrc := awkArgSource(Arg{Kind: "num", Num: c.Num}, new(int))
	if c.Convfmt == "" {
		c.Convfmt = "%.6g"
	}
	setup := fmt.Sprintf("OFMT = %s; CONVFMT = %s; x = %s", awk.QuoteStr(c.OFMT), awk.QuoteStr(c.Convfmt), numSrc)
	if c.Mode != "" {
		setup += fmt.Sprintf("; OUTPUTMODE = %q", c.Mode)
	}
	var src string
	switch c.Where {
	case 1:
		src = fmt.Sprintf("function p(v) { print v; print v, v } BEGIN { %s; p(x) }", setup)
	case 2:
		src = fmt.Sprintf("BEGIN { %s } { print x; print x, x }", setup)
	case 3:
		src = fmt.Sprintf("BEGIN { %s; print x > \"-\"; print x, x > \"-\" }", setup)
	default:
		src = fmt.Sprintf("BEGIN { %s; print x; print x, x }", setup)
	}
	got, _, err := runAwk(src, "one record\n", false)
	if err != nil {
		return fmt.Sprintf("print failed: %v\nprogram: %s", err, src)
	}
	var exp string
	switch c.Mode {
	case "csv", "tsv":
		// the number text is what is judged here; quoting is the CSV writer's business (C08), so encoding/csv renders the expectation
		var sb strings.Builder
		w := csv.NewWriter(&sb)
		if c.Mode == "tsv" {
			w.Comma = '\t'
		}
		w.Write([]string{want})
		w.Write([]string{want, want})
		w.Flush()
		exp = sb.String()
	default:
		exp = want + "\n" + want + " " + want + "\n"
	}
	if got != exp {
		return fmt.Sprintf("print does not format the number the OFMT way\nprogram: %s\ngoawk: %q\nwant:  %q", src, got, exp)
	}
	if c.Num != math.Trunc(c.Num) {
		x.Nontrivial("")
	}
	return ""
}

func init() {
	h.Prop("printf_vs_libc", 100000, 2000000, genCase, run)
	h.Prop("format_errors", 4000, 40000, genErr, runErr)
	h.Prop("print_ofmt", 16000, 300000, genPrint, runPrint)
}
