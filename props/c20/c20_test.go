// C20 — the printed form of a program is a faithful AWK program.
package c20

import (
	"fmt"
	"strings"
	"testing"

	"github.com/benhoyt/goawk/parser"
	"pgregory.net/rapid"

	"verif/lib/awk"
	"verif/lib/awkgen"
	"verif/lib/h"
)

func TestMain(m *testing.M)   { h.Main(m, "C20") }
func TestAll(t *testing.T)    { h.RunAll(t) }
func TestReplay(t *testing.T) { h.Replay(t) }

type Case struct {
	Src h.Str `json:"src"`
}

func genCase(t *rapid.T) Case {
	g := awkgen.NewSyn(t)
	g.MaxDepth = rapid.IntRange(1, 4).Draw(t, "maxdepth")
	p := g.Program()
	mode := awk.Noisy
	if rapid.IntRange(0, 3).Draw(t, "mode") == 0 {
		mode = awk.Minimal
	}
	r := awk.NewRenderer(mode)
	r.BareLength = true
	r.Rand = func(n int) int { return rapid.IntRange(0, n-1).Draw(t, "noise") }
	r.StrSpell = func(s string) (string, bool) {
		if rapid.IntRange(0, 2).Draw(t, "spell?") == 0 {
			return awkgen.SpellString(t, s), true
		}
		return "", false
	}
	return Case{Src: h.Str(r.Program(p))}
}

var cmp = awk.CanonOpt{ElideGroups: true, Num6: true, MergeElse: true}

var hazards = []string{"- -", "+ +", "- --", "+ ++", "--", "++", "/", "!", "\\", "getline", ">", "|", "$$", "@", "{}", ";", "length", "e+", "in "}

func run(x *h.Ctx, c Case) string {
	src := string(c.Src)
	gp1, err := parser.ParseProgram([]byte(src), nil)
	if err != nil {
		x.Discard("source rejected by the parser")
		h.Note("print_reparse_roundtrip", "rejected: %v | %s", err, h.Trunc(h.Q(src), 300))
		return ""
	}
	p1, err := awk.FromGoawk(gp1)
	if err != nil {
		x.Discard("unknown AST node type")
		return ""
	}
	s1 := gp1.String()
	gp2, err := parser.ParseProgram([]byte(s1), nil)
	if err != nil {
		return fmt.Sprintf("the printed form is not accepted by the parser: %v\nsource:\n%s\nprinted:\n%s", err, h.Q(src), h.Q(s1))
	}
	p2, err := awk.FromGoawk(gp2)
	if err != nil {
		x.Discard("unknown AST node type")
		return ""
	}
	c1, c2 := awk.CanonProgram(p1, cmp), awk.CanonProgram(p2, cmp)
	if c1 != c2 {
		return fmt.Sprintf("the printed form parses to a different tree\nsource:\n%s\nprinted:\n%s\ntree of source:\n%s\ntree of printed form:\n%s\nfirst difference: %s", h.Q(src), h.Q(s1), c1, c2, firstDiff(c1, c2))
	}
	s2 := gp2.String()
	if s2 != s1 {
		return fmt.Sprintf("printing is not idempotent\nsource:\n%s\nprinted once:\n%s\nprinted twice:\n%s", h.Q(src), h.Q(s1), h.Q(s2))
	}
	nh := 0
	for _, hz := range hazards {
		if strings.Contains(src, hz) {
			nh++
		}
	}
	if normalizeWS(s1) != normalizeWS(src) && nh > 0 {
		x.Nontrivial("")
	}
	return ""
}

func normalizeWS(s string) string { return strings.Join(strings.Fields(s), " ") }

func firstDiff(a, b string) string {
	i := 0
	for i < len(a) && i < len(b) && a[i] == b[i] {
		i++
	}
	lo := i - 60
	if lo < 0 {
		lo = 0
	}
	hi := func(s string) int {
		if i+80 < len(s) {
			return i + 80
		}
		return len(s)
	}
	return fmt.Sprintf("...%s <<<>>> %s | vs | %s", a[lo:i], a[i:hi(a)], b[i:hi(b)])
}

// ---------------------------------------------------------------------------
// print/printf argument shapes, enumerated: every place where a '>' comparison
// or a 'cmd | getline' can sit in an argument (bare, in each position of ?: and
// of nested ?:, under unary/binary/assignment/in operators, inside
// parentheses, subscripts, calls and $), for 1-3 arguments, with and without
// a redirection; rendered minimally and fully parenthesised.

func hazardNodes() []*awk.Node {
	return []*awk.Node{
		awk.BinN(awk.VarN("a"), ">", awk.VarN("b")),
		awk.BinN(awk.VarN("a"), "<", awk.VarN("b")),
		awk.GetlineN(awk.StrN("cmd"), nil, nil),
		awk.GetlineN(awk.StrN("cmd"), awk.VarN("v"), nil),
		awk.GetlineN(nil, nil, awk.StrN("file")),
	}
}

func shapesOf(hz func() *awk.Node) []*awk.Node {
	v := func(n string) *awk.Node { return awk.VarN(n) }
	return []*awk.Node{
		hz(),
		awk.CondN(hz(), v("p"), v("q")), awk.CondN(v("c"), hz(), v("q")), awk.CondN(v("c"), v("p"), hz()),
		awk.CondN(v("c"), awk.CondN(v("d"), hz(), v("q")), v("r")), awk.CondN(v("c"), v("p"), awk.CondN(v("d"), hz(), v("q"))),
		awk.CondN(v("c"), awk.CondN(v("d"), v("p"), hz()), v("r")), awk.CondN(awk.CondN(v("c"), hz(), v("p")), v("q"), v("r")),
		awk.UnaryN("-", hz()), awk.UnaryN("!", hz()),
		awk.BinN(v("x"), "+", hz()), awk.BinN(hz(), "+", v("x")), awk.BinN(v("x"), " ", hz()), awk.BinN(hz(), "&&", v("x")), awk.BinN(v("x"), "||", hz()), awk.BinN(v("x"), "==", hz()), awk.BinN(v("x"), "~", hz()),
		awk.AssignN(v("x"), "=", hz()), awk.AssignN(v("x"), "+=", hz()), awk.AssignN(v("x"), "=", awk.CondN(v("c"), hz(), v("q"))),
		awk.InN("arr", hz()), awk.InN("arr", hz(), v("k")),
		awk.GroupN(hz()), awk.GroupN(awk.CondN(v("c"), hz(), v("q"))), awk.GroupN(awk.GroupN(hz())),
		awk.IndexN("arr", hz()), awk.UserCallN("f", hz()), awk.CallN("length", hz()), awk.FieldN(hz()), awk.CallN("substr", v("s"), hz()),
	}
}

func enumPrintShapes(thorough bool, yield func(Case) bool) {
	nh := len(hazardNodes())
	for hi := 0; hi < nh; hi++ {
		hz := func() *awk.Node { return hazardNodes()[hi] }
		ns := len(shapesOf(hz))
		for si := 0; si < ns; si++ {
			for layout := 0; layout < 4; layout++ {
				for kind := 0; kind < 2; kind++ {
					for redir := 0; redir < 3; redir++ {
						for _, mode := range []awk.Mode{awk.Minimal, awk.Full} {
							e := shapesOf(hz)[si]
							var args []*awk.Node
							switch layout {
							case 0:
								args = []*awk.Node{e}
							case 1:
								args = []*awk.Node{e, awk.VarN("y")}
							case 2:
								args = []*awk.Node{awk.VarN("y"), e}
							default:
								args = []*awk.Node{awk.VarN("y"), e, awk.VarN("z")}
							}
							op, dest := "", (*awk.Node)(nil)
							switch redir {
							case 1:
								op, dest = ">", awk.StrN("out")
							case 2:
								op, dest = "|", awk.StrN("sort")
							}
							var st *awk.Node
							if kind == 0 {
								st = awk.PrintN(args, op, dest)
							} else {
								st = awk.PrintfN(append([]*awk.Node{awk.StrN("%s")}, args...), op, dest)
							}
							prog := &awk.Program{Begin: [][]*awk.Node{{st}}, Funcs: []*awk.Func{{Name: "f", Params: []string{"p"}, Body: []*awk.Node{awk.ReturnN(awk.VarN("p"))}}}}
							if !yield(Case{Src: h.Str(awk.RenderProgram(prog, mode))}) {
								return
							}
						}
					}
				}
			}
		}
	}
}

// Sources (not renderer output) in which an unparenthesised "cmd | getline" is followed by an operator
// inside a parenthesised print list: the parser reads everything to the left of | as the command
// and continues with the operators to the right, so these are legal without inner parentheses.
func enumGetlineInPrintList(thorough bool, yield func(Case) bool) {
	ops := []string{"+ 1", "- 1", "* 2", "/ 2", "% 2", "^ 2", "\"s\"", "< 1", "<= 1", "== 1", "!= 1", ">= 1", "~ /x/", "&& y", "|| y", "? a : b", "in arr", ""}
	for _, target := range []string{"", " v", " arr[1]", " $2"} {
		for _, op := range ops {
			e := "\"cmd\" | getline" + target + " " + op
			for _, tpl := range []string{"print(%s, x)", "print(x, %s)", "print(x, %s, y)", "printf(\"%%s %%s\", x, %s)", "print(x, %s) > \"out\"", "print(%s, x) | \"sort\"", "print(x, -%s)", "print(x, !%s)", "print(x, (%s))", "print(x, 1 + (%s))", "print(%s)", "print((%s), x)"} {
				if !yield(Case{Src: h.Str("BEGIN { " + fmt.Sprintf(tpl, e) + " }\n")}) {
					return
				}
			}
		}
	}
}

// hand-written sources that the generators cannot spell: literals that overflow, escaped newlines inside
// regex and string literals at several nesting depths (the printer re-indents nested statements), odd but accepted forms
func enumOddSources(thorough bool, yield func(Case) bool) {
	atoms := []string{"1e999", "-1e999", "1e400 + 1", "x = 1e999 \"\" 1e999", "/a\\\nb/", "$0 ~ /a\\\nb/", "\"a\\\nb\"", "x ~ /^\\\n$/", "/[\\\n]/", "1.5e", "1e+", "010", "0x1A", ".5", "5.", "1e-999", "0.000001", "123456789012345678901234567890",
		// literals at the edges of the six-significant-digit rendering: rounding up into the next power of ten, the
		// switch to exponent form, values that become integral once rounded
		"999999.5", "999999.7", "999999.99", "999999.4", "99999.95", "9.999995", "0.9999995", "9999995e-1", "1000000.4", "1234567.5", "123456.5", "123456.7", "0.00001234567", "0.0001", "0.00009999995", "1e5", "1e6", "1e-5", "100000.5", "999999", "1000000", "1e15", "999999999999999.9", "0.1e7", "2147483647.5", "x = 999999.7 + 999999.5", "$999999.7", "a[999999.99]",
		"a[1e999]", "$1e999", "substr(s, 1e999)", "x = -1e999 ^ 2", "/\\//", "\"\\/\"", "/a\\/b\\\nc/", "getline line < \"f\"", "! x", "- - x", "+ + x", "!!x", "x++ + ++y", "a = b ~ c", "$NF--", "$ i++", "$(i)++"}
	wraps := []string{"BEGIN { y = %s }", "BEGIN { if (1) { y = %s } }", "BEGIN { if (1) { while (0) { if (2) y = %s } } }", "function f(a) { return %s }", "%s { print }", "END { for (;;) { do y = %s; while (0); break } }", "BEGIN { print %s > \"out\" }"}
	for _, a := range atoms {
		for _, w := range wraps {
			if !yield(Case{Src: h.Str(fmt.Sprintf(w, a) + "\n")}) {
				return
			}
		}
	}
}

// Prefix-operator chains: every sequence of up to three prefix operators (- + ! -- ++) over every kind of
// operand, optionally as the base of a power, a post-incremented operand, or the right operand of a binary
// minus/plus -- the places where the printer must keep two sign characters apart (or must not).  Sources are
// written with a space after every prefix operator, so the lexer can never fuse them; sequences the grammar
// does not allow (++ before a non-lvalue) are rejected by the parser and discarded.
var lvalueStart = map[string]bool{"x": true, "$1": true, "a[k]": true, "$x": true, "NF": true, "x ^ 2": true, "$1 ^ n": true, "a[k] ^ 2 ^ 3": true}

func enumPrefixChains(thorough bool, yield func(Case) bool) {
	prefixes := []string{"-", "+", "!", "--", "++"}
	operands := []string{"x", "$1", "a[k]", "$x", "1", "2.5", "f(x)", "(x)", "NF", "x ^ 2", "$1 ^ n", "a[k] ^ 2 ^ 3", "x++", "$1--", "x++ ^ 2", "length", "length(x)", "(-1)", "-1"}
	var chains [][]string
	for _, a := range prefixes {
		chains = append(chains, []string{a})
		for _, b := range prefixes {
			chains = append(chains, []string{a, b})
			for _, c := range prefixes {
				chains = append(chains, []string{a, b, c})
			}
		}
	}
	contexts := []string{"y = %s", "y = 1 - %s", "y = 1 + %s", "y = z %s", "y = 2 ^ %s", "y = %s ^ 2", "print %s", "print 1, %s > \"out\"", "y = a[%s]", "y = $ %s", "y = !%s", "y = (%s) y", "y = x < %s", "y = %s ? %s : %s"}
	for _, ch := range chains {
		for _, opd := range operands {
			// ++/-- only directly in front of an lvalue (everything else the parser rejects)
			ok := true
			for i, pf := range ch {
				if pf == "--" || pf == "++" {
					if i != len(ch)-1 || !lvalueStart[opd] {
						ok = false
					}
				}
			}
			if !ok {
				continue
			}
			e := strings.Join(ch, " ") + " " + opd
			for _, cx := range contexts {
				src := "BEGIN { " + strings.ReplaceAll(cx, "%s", e) + " }\nfunction f(p) { return p }\n"
				if !yield(Case{Src: h.Str(src)}) {
					return
				}
			}
		}
	}
}

func init() {
	h.Enum("prefix_operator_chains", enumPrefixChains, run)
	h.Enum("odd_sources", enumOddSources, run)
	h.Enum("getline_in_print_list", enumGetlineInPrintList, run)
	h.Prop("print_reparse_roundtrip", 80000, 1500000, genCase, run)
	h.Enum("print_argument_shapes", enumPrintShapes, run)
}
