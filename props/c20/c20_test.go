// C20 — the printed form of a program is a faithful AWK program.
package c20

import (
	"fmt"
	"strings"
	"testing"

	"github.com/benhoyt/goawk/parser"
	"pgregory.net/rapid"

	"verif/lib/awk"
	"verif/lib/awkgen"
	"verif/lib/h"
)

func TestMain(m *testing.M)   { h.Main(m, "C20") }
func TestAll(t *testing.T)    { h.RunAll(t) }
func TestReplay(t *testing.T) { h.Replay(t) }

type Case struct {
	Src h.Str `json:"src"`
}

func genCase(t *rapid.T) Case {
	g := awkgen.NewSyn(t)
	g.MaxDepth = rapid.IntRange(1, 4).Draw(t, "maxdepth")
	p := g.Program()
	mode := awk.Noisy
	if rapid.IntRange(0, 3).Draw(t, "mode") == 0 {
		mode = awk.Minimal
	}
	r := awk.NewRenderer(mode)
	r.BareLength = true
	r.Rand = func(n int) int { return rapid.IntRange(0, n-1).Draw(t, "noise") }
	r.StrSpell = func(s string) (string, bool) {
		if rapid.IntRange(0, 2).Draw(t, "spell?") == 0 {
			return awkgen.SpellString(t, s), true
		}
		return "", false
	}
	return Case{Src: h.Str(r.Program(p))}
}

var cmp = awk.CanonOpt{ElideGroups: true, Num6: true, MergeElse: true}

var hazards = []string{"- -", "+ +", "- --", "+ ++", "--", "++", "/", "!", "\\", "getline", ">", "|", "$$", "@", "{}", ";", "length", "e+", "in "}

func run(x *h.Ctx, c Case) string {
	src := string(c.Src)
	gp1, err := parser.ParseProgram([]byte(src), nil)
	if err != nil {
		x.Discard("source rejected by the parser")
		h.Note("print_reparse_roundtrip", "rejected: %v | %s", err, h.Trunc(h.Q(src), 300))
		return ""
	}
	p1, err := awk.FromGoawk(gp1)
	if err != nil {
		x.Discard("unknown AST node type")
		return ""
	}
	s1 := gp1.String()
	gp2, err := parser.ParseProgram([]byte(s1), nil)
	if err != nil {
		return fmt.Sprintf("the printed form is not accepted by the parser: %v\nsource:\n%s\nprinted:\n%s", err, h.Q(src), h.Q(s1))
	}
	p2, err := awk.FromGoawk(gp2)
	if err != nil {
		x.Discard("unknown AST node type")
		return ""
	}
	c1, c2 := awk.CanonProgram(p1, cmp), awk.CanonProgram(p2, cmp)
	if c1 != c2 {
		return fmt.Sprintf("the printed form parses to a different tree\nsource:\n%s\nprinted:\n%s\ntree of source:\n%s\ntree of printed form:\n%s\nfirst difference: %s", h.Q(src), h.Q(s1), c1, c2, firstDiff(c1, c2))
	}
	s2 := gp2.String()
	if s2 != s1 {
		return fmt.Sprintf("printing is not idempotent\nsource:\n%s\nprinted once:\n%s\nprinted twice:\n%s", h.Q(src), h.Q(s1), h.Q(s2))
	}
	nh := 0
	for _, hz := range hazards {
		if strings.Contains(src, hz) {
			nh++
		}
	}
	if normalizeWS(s1) != normalizeWS(src) && nh > 0 {
		x.Nontrivial("")
	}
	return ""
}

func normalizeWS(s string) string { return strings.Join(strings.Fields(s), " ") }

func firstDiff(a, b string) string {
	i := 0
	for i < len(a) && i < len(b) && a[i] == b[i] {
		i++
	}
	lo := i - 60
	if lo < 0 {
		lo = 0
	}
	hi := func(s string) int {
		if i+80 < len(s) {
			return i + 80
		}
		return len(s)
	}
	return fmt.Sprintf("...%s <<<>>> %s | vs | %s", a[lo:i], a[i:hi(a)], b[i:hi(b)])
}

func init() {
	h.Prop("print_reparse_roundtrip", 80000, 1500000, genCase, run)
}
