// C11 — input bookkeeping: NR, FNR, FILENAME, operands, getline, ranges, next, exit.
package c11

import (
	"fmt"
	"os"
	"sort"
	"strings"
	"testing"

	"github.com/benhoyt/goawk/interp"
	"github.com/benhoyt/goawk/parser"
	"pgregory.net/rapid"

	"verif/lib/awk"
	"verif/lib/awkgen"
	"verif/lib/h"
	"verif/lib/runner"
)

func TestMain(m *testing.M)   { h.Main(m, "C11") }
func TestAll(t *testing.T)    { h.RunAll(t) }
func TestReplay(t *testing.T) { h.Replay(t) }

type Case struct {
	Src   h.Str             `json:"src"`
	Stdin h.Str             `json:"stdin"`
	Args  []string          `json:"args"`
	Files map[string]string `json:"files"`
	Feat  []string          `json:"feat,omitempty"`
}

func genCase(t *rapid.T) Case {
	g := awkgen.NewIOGen(t)
	tree := g.Program()
	c := Case{Src: h.Str(awk.RenderProgram(tree, awk.Minimal)), Stdin: h.Str(awkgen.IOFile(t)), Args: awkgen.Operands(t),
		Files: map[string]string{"r0": awkgen.IOFile(t), "r1": awkgen.IOFile(t), "r2": awkgen.IOFile(t)}}
	for f := range g.Feat {
		c.Feat = append(c.Feat, f)
	}
	sort.Strings(c.Feat)
	return c
}

func run(x *h.Ctx, c Case) string {
	src := string(c.Src)
	gp, err := parser.ParseProgram([]byte(src), nil)
	if err != nil {
		x.Discard("generated program rejected: " + h.Trunc(err.Error(), 80))
		h.Note("bookkeeping_vs_reference", "rejected: %v | %s", err, h.Trunc(src, 300))
		return ""
	}
	tree, err := awk.FromGoawk(gp)
	if err != nil {
		x.Discard("unknown AST node type")
		return ""
	}
	sb := runner.Sandbox{Files: c.Files}
	want, res := runner.Reference(tree, gp, string(c.Stdin), c.Args, nil, sb, 200000)
	if res.Exhausted || res.OrderDependent || res.NonFinite {
		x.Discard("reference run not comparable")
		return ""
	}
	dir := h.TempDir("c11")
	defer os.RemoveAll(dir)
	got := runner.Goawk(gp, string(c.Stdin), c.Args, nil, sb, dir)
	if strings.HasPrefix(got.Err, "TIMEOUT") {
		return fmt.Sprintf("goawk did not terminate although the reference evaluator finished\n--- program:\n%s", src)
	}
	if !got.Equal(want) {
		return fmt.Sprintf("input bookkeeping differs from the reference semantics\n(trace lines: tag NR FNR FILENAME NF $0 v w)\n--- program:\n%s\n--- operands: %q\n--- stdin: %q\n--- files: %q\n--- goawk:\n%s--- reference:\n%s", src, c.Args, c.Stdin, c.Files, got, want)
	}
	for _, f := range c.Feat {
		x.Class("feat-" + f)
	}
	for k := range res.Trace {
		x.Class("ran-" + k)
	}
	tr := res.Trace
	if tr["file-operand"] >= 2 && tr["getline"] >= 1 && (tr["range"] > 0 || tr["next"] > 0 || tr["nextfile"] > 0 || tr["exit"] > 0 || tr["operand-assignment"] > 0) {
		x.Nontrivial("")
	}
	return ""
}

// ---------------------------------------------------------------------------
// "getline var fills only var (not $0 or NF)" and "getline from a named file
// leaves NR and FNR alone", in every input mode (the reference evaluator only
// models the default mode): an invariant that needs no reference - the record
// is snapshotted before and after the getline inside the program itself.

type KeepCase struct {
	Input  h.Str  `json:"input"`
	Side   h.Str  `json:"side"`
	Mode   string `json:"mode"`   // "", csv, tsv, csv header
	Form   string `json:"form"`   // getline-var | getline-var-file | getline-arr | getline-arr-file
	Every  int    `json:"every"`  // the getline runs on records whose NR % Every == 0
	Touch  bool   `json:"touch"`  // the fields are touched ($1) before the getline, so they are already split
	Modify bool   `json:"modify"` // a field is assigned afterwards and $0 rebuilt: must start from the record's own fields
	// NoBefore: nothing looks at the record before the getline (no snapshot, no field access): what the record holds
	// afterwards is compared with a control run of the same program without the getline (file forms only)
	NoBefore bool `json:"no_before,omitempty"`
}

func genKeep(t *rapid.T) KeepCase {
	line := func(label string) string {
		n := rapid.IntRange(1, 4).Draw(t, label+"nf")
		var fs []string
		for i := 0; i < n; i++ {
			fs = append(fs, rapid.SampledFrom([]string{"a", "b", "12", "x y", "", "q", "zz", "7"}).Draw(t, label+"f"))
		}
		return strings.Join(fs, ",")
	}
	mk := func(label string) string {
		var sb strings.Builder
		for i := rapid.IntRange(2, 6).Draw(t, label+"n"); i > 0; i-- {
			sb.WriteString(line(label) + "\n")
		}
		return sb.String()
	}
	return KeepCase{Input: h.Str(mk("m")), Side: h.Str(mk("s")), Mode: rapid.SampledFrom([]string{"", "csv", "csv", "tsv", "csv header"}).Draw(t, "mode"),
		Form: rapid.SampledFrom([]string{"getline-var", "getline-var", "getline-var-file", "getline-arr", "getline-arr-file"}).Draw(t, "form"),
		Every: rapid.IntRange(1, 2).Draw(t, "every"), Touch: rapid.Bool().Draw(t, "touch"), Modify: rapid.Bool().Draw(t, "modify"), NoBefore: rapid.IntRange(0, 2).Draw(t, "nobefore") == 0}
}

func runKeep(x *h.Ctx, c KeepCase) string {
	dir := h.TempDir("c11k")
	defer os.RemoveAll(dir)
	side := dir + "/side"
	os.WriteFile(side, []byte(c.Side), 0o644)
	var gl string
	switch c.Form {
	case "getline-var":
		gl = "r = (getline v)"
	case "getline-var-file":
		gl = "r = (getline v < F)"
	case "getline-arr":
		gl = "r = (getline arr[NR])"
	default:
		gl = "r = (getline arr[NR] < F)"
	}
	snap := func(name string) string {
		return name + " = NF \"|\" $0; for (i = 1; i <= NF; i++) " + name + " = " + name + " \"|\" i \"=\" $i; " + name + "nr = NR \":\" FNR"
	}
	touch := ""
	if c.Touch {
		touch = "t = $1; "
	}
	modify := ""
	if c.Modify {
		modify = "; if (NF >= 2) { nf0 = NF; f2 = $2; $1 = \"Z\"; if (NF != nf0 || $2 != f2) print \"REBUILD-WRONG\", NR, NF, nf0, $2, f2 }"
	}
	if c.NoBefore && strings.HasSuffix(c.Form, "-file") {
		mk := func(withGetline bool) string {
			g := gl
			if !withGetline {
				g = "r = 1"
			}
			return fmt.Sprintf("BEGIN { FS = \",\" }\nNR %% %d == 0 { %s; %s; print \"AFTER\", NR, s2 }\nEND { print \"done\", NR }\n", c.Every, g, snap("s2"))
		}
		var outs [2]string
		for i, with := range []bool{true, false} {
			prog, err := parser.ParseProgram([]byte(mk(with)), nil)
			if err != nil {
				return "harness program: " + err.Error()
			}
			var out strings.Builder
			cfg := &interp.Config{Stdin: strings.NewReader(string(c.Input)), Output: &out, Error: &out, Argv0: "goawk", Environ: []string{}, Vars: []string{"F", side}, NoExec: true, NoFileWrites: true}
			switch c.Mode {
			case "csv":
				cfg.InputMode = interp.CSVMode
			case "tsv":
				cfg.InputMode = interp.TSVMode
			case "csv header":
				cfg.InputMode = interp.CSVMode
				cfg.CSVInput.Header = true
			}
			if _, err := interp.ExecProgram(prog, cfg); err != nil {
				return fmt.Sprintf("run failed: %v\nprogram: %s", err, mk(with))
			}
			outs[i] = out.String()
		}
		if outs[0] != outs[1] {
			return fmt.Sprintf("%s (nothing had looked at the record before) changed what the record holds afterwards (input mode %q)\nprogram: %s\ninput: %q\nside file: %q\nwith the getline:\n%s\nwithout it:\n%s", c.Form, c.Mode, mk(true), string(c.Input), string(c.Side), h.Trunc(outs[0], 800), h.Trunc(outs[1], 800))
		}
		x.Class("mode-" + c.Mode)
		x.Class(c.Form + "-untouched-record")
		x.Nontrivial("")
		return ""
	}
	src := fmt.Sprintf("BEGIN { FS = \",\" }\nNR %% %d == 0 { %s%s; %s; %s; if (s1 != s2) print \"RECORD-CHANGED\", NR, \"before:\", s1, \"after:\", s2; if (r > 0 && (index(\"%s\", \"file\") ? s1nr != s2nr : 0)) print \"NR-CHANGED\", s1nr, s2nr%s }\nEND { print \"done\", NR }\n",
		c.Every, touch, snap("s1"), gl, snap("s2"), c.Form, modify)
	prog, err := parser.ParseProgram([]byte(src), nil)
	if err != nil {
		return "harness program: " + err.Error() + "\n" + src
	}
	var out strings.Builder
	cfg := &interp.Config{Stdin: strings.NewReader(string(c.Input)), Output: &out, Error: &out, Argv0: "goawk", Environ: []string{}, Vars: []string{"F", side}, NoExec: true, NoFileWrites: true}
	switch c.Mode {
	case "csv":
		cfg.InputMode = interp.CSVMode
	case "tsv":
		cfg.InputMode = interp.TSVMode
	case "csv header":
		cfg.InputMode = interp.CSVMode
		cfg.CSVInput.Header = true
	}
	if _, err := interp.ExecProgram(prog, cfg); err != nil {
		return fmt.Sprintf("run failed: %v\nprogram: %s", err, src)
	}
	o := out.String()
	if strings.Contains(o, "RECORD-CHANGED") || strings.Contains(o, "NR-CHANGED") || strings.Contains(o, "REBUILD-WRONG") {
		return fmt.Sprintf("%s changed more than its target (input mode %q)\nprogram: %s\ninput: %q\nside file: %q\noutput:\n%s", c.Form, c.Mode, src, string(c.Input), string(c.Side), h.Trunc(o, 1200))
	}
	if !strings.Contains(o, "done") {
		return fmt.Sprintf("the run did not reach END\nprogram: %s\noutput: %s", src, h.Trunc(o, 600))
	}
	x.Class("mode-" + c.Mode)
	x.Class(c.Form)
	x.Nontrivial("")
	return ""
}

func init() {
	h.Prop("bookkeeping_vs_reference", 30000, 400000, genCase, run)
	h.Prop("getline_var_leaves_record_alone", 12000, 200000, genKeep, runKeep)
}

// ---------------------------------------------------------------------------
// long runs: next / nextfile / exit from inside (nested) function calls, many
// thousands of times in one run, against a closed-form model of the counters

type LongCase struct {
	Files  []int  `json:"files"`  // number of records of each file operand
	Depth  int    `json:"depth"`  // the abandoning statement runs this many calls deep
	What   string `json:"what"`   // next | nextfile | getline-next
	Mod    int    `json:"mod"`    // a record with (FNR % Mod == Rem) abandons
	Rem    int    `json:"rem"`
	ExitAt int    `json:"exit_at"` // NR at which exit runs inside the function (0: never)
	Status int    `json:"status"`
}

func genLong(t *rapid.T) LongCase {
	c := LongCase{Depth: rapid.SampledFrom([]int{0, 1, 1, 2, 5, 30}).Draw(t, "depth"), What: rapid.SampledFrom([]string{"next", "next", "nextfile", "getline-next"}).Draw(t, "what"),
		Mod: rapid.IntRange(1, 4).Draw(t, "mod"), Status: rapid.IntRange(0, 3).Draw(t, "status")}
	c.Rem = rapid.IntRange(0, c.Mod-1).Draw(t, "rem")
	if c.What == "nextfile" {
		// many short files
		for i := rapid.SampledFrom([]int{3, 40, 1100, 1300}).Draw(t, "nfiles"); i > 0; i-- {
			c.Files = append(c.Files, 1+(i*7)%5)
		}
	} else {
		for i := rapid.IntRange(1, 3).Draw(t, "nfiles"); i > 0; i-- {
			c.Files = append(c.Files, rapid.SampledFrom([]int{0, 1, 7, 600, 1100, 2300}).Draw(t, "nrec"))
		}
	}
	if rapid.IntRange(0, 3).Draw(t, "exit?") == 0 {
		total := 0
		for _, n := range c.Files {
			total += n
		}
		if total > 0 {
			c.ExitAt = rapid.IntRange(1, total).Draw(t, "exitat")
		}
	}
	return c
}

func runLong(x *h.Ctx, c LongCase) string {
	dir := h.TempDir("c11l")
	defer os.RemoveAll(dir)
	// distinct contents are irrelevant; files of equal length share one file on disk
	paths := map[int]string{}
	var args []string
	for _, n := range c.Files {
		p, ok := paths[n]
		if !ok {
			p = fmt.Sprintf("%s/f%d", dir, n)
			var sb strings.Builder
			for i := 1; i <= n; i++ {
				fmt.Fprintf(&sb, "%d\n", i)
			}
			os.WriteFile(p, []byte(sb.String()), 0o644)
			paths[n] = p
		}
		args = append(args, p)
	}
	var stmt string
	switch c.What {
	case "next":
		stmt = "next"
	case "nextfile":
		stmt = "nextfile"
	default:
		stmt = "{ if ((getline) > 0) got++; next }" // consumes one more record (if any is left), then abandons it
	}
	exitStmt := ""
	if c.ExitAt > 0 {
		exitStmt = fmt.Sprintf("if (NR >= %d) exit %d; ", c.ExitAt, c.Status)
	}
	src := fmt.Sprintf(`function leave(d) { if (d > 0) return leave(d - 1) + 1; %sif (FNR %% %d == %d) %s; return 0 }
{ seen++; x = 1 + leave(%d) * 2; kept++ }
END { print NR, FNR, seen + 0, kept + 0, got + 0, x + 0, $0 }
`, exitStmt, c.Mod, c.Rem, stmt, c.Depth)
	// model
	nr, fnr, seen, kept, got := 0, 0, 0, 0, 0
	last := ""
	exited := false
	status := 0
files:
	for _, n := range c.Files {
		fnr = 0
		for i := 1; i <= n; {
			nr++
			fnr = i
			last = fmt.Sprint(i)
			i++
			seen++
			if c.ExitAt > 0 && nr >= c.ExitAt {
				exited, status = true, c.Status
				break files
			}
			if fnr%c.Mod == c.Rem {
				switch c.What {
				case "next":
					continue
				case "nextfile":
					continue files
				default:
					// plain getline: next record of the main input, across files
					if i <= n {
						nr++
						fnr = i
						last = fmt.Sprint(i)
						i++
						got++
					} else {
						// the following operands are consulted for one more record
						// (only modelled when this is the last non-empty file: otherwise discard)
						return discardLong(x, c)
					}
					continue
				}
			}
			kept++
		}
	}
	_ = exited
	xval := 0
	if kept > 0 {
		xval = 1 + 2*c.Depth
	}
	want := fmt.Sprintf("%d %d %d %d %d %d %s\n", nr, fnr, seen, kept, got, xval, last)
	prog, err := parser.ParseProgram([]byte(src), nil)
	if err != nil {
		return "harness program: " + err.Error() + "\n" + src
	}
	var out strings.Builder
	cfg := &interp.Config{Stdin: strings.NewReader(""), Output: &out, Error: &out, Argv0: "goawk", Environ: []string{}, Args: args, NoExec: true, NoFileWrites: true}
	st, err := interp.ExecProgram(prog, cfg)
	if err != nil {
		return fmt.Sprintf("a run that abandons records from inside a function %d calls deep failed: %v\nfiles (records each): %v\nprogram:\n%s", c.Depth, err, c.Files, src)
	}
	if out.String() != want || st != status {
		return fmt.Sprintf("counters after abandoning records from inside a function (%s, %d calls deep)\nfiles (records each): %v\nprogram:\n%s\ngoawk: status %d, NR FNR seen kept got x $0 = %q\nmodel: status %d, %q", c.What, c.Depth, c.Files, src, st, out.String(), status, want)
	}
	x.Class(c.What)
	if seen-kept >= 1000 {
		x.Class("abandoned>=1000")
		x.Nontrivial("")
	} else if seen-kept >= 1 {
		x.Nontrivial("")
	}
	return ""
}

func discardLong(x *h.Ctx, c LongCase) string {
	x.Discard("getline at the end of a file operand (crosses into the next operand; covered by bookkeeping_vs_reference)")
	return ""
}

func init() {
	h.Prop("abandon_from_functions_long_runs", 600, 12000, genLong, runLong)
}
