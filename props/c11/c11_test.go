// C11 — input bookkeeping: NR, FNR, FILENAME, operands, getline, ranges, next, exit.
package c11

import (
	"fmt"
	"os"
	"sort"
	"strings"
	"testing"

	"github.com/benhoyt/goawk/parser"
	"pgregory.net/rapid"

	"verif/lib/awk"
	"verif/lib/awkgen"
	"verif/lib/h"
	"verif/lib/runner"
)

func TestMain(m *testing.M)   { h.Main(m, "C11") }
func TestAll(t *testing.T)    { h.RunAll(t) }
func TestReplay(t *testing.T) { h.Replay(t) }

type Case struct {
	Src   h.Str             `json:"src"`
	Stdin h.Str             `json:"stdin"`
	Args  []string          `json:"args"`
	Files map[string]string `json:"files"`
	Feat  []string          `json:"feat,omitempty"`
}

func genCase(t *rapid.T) Case {
	g := awkgen.NewIOGen(t)
	tree := g.Program()
	c := Case{Src: h.Str(awk.RenderProgram(tree, awk.Minimal)), Stdin: h.Str(awkgen.IOFile(t)), Args: awkgen.Operands(t),
		Files: map[string]string{"r0": awkgen.IOFile(t), "r1": awkgen.IOFile(t), "r2": awkgen.IOFile(t)}}
	for f := range g.Feat {
		c.Feat = append(c.Feat, f)
	}
	sort.Strings(c.Feat)
	return c
}

func run(x *h.Ctx, c Case) string {
	src := string(c.Src)
	gp, err := parser.ParseProgram([]byte(src), nil)
	if err != nil {
		x.Discard("generated program rejected: " + h.Trunc(err.Error(), 80))
		h.Note("bookkeeping_vs_reference", "rejected: %v | %s", err, h.Trunc(src, 300))
		return ""
	}
	tree, err := awk.FromGoawk(gp)
	if err != nil {
		x.Discard("unknown AST node type")
		return ""
	}
	sb := runner.Sandbox{Files: c.Files}
	want, res := runner.Reference(tree, gp, string(c.Stdin), c.Args, nil, sb, 200000)
	if res.Exhausted || res.OrderDependent || res.NonFinite {
		x.Discard("reference run not comparable")
		return ""
	}
	dir := h.TempDir("c11")
	defer os.RemoveAll(dir)
	got := runner.Goawk(gp, string(c.Stdin), c.Args, nil, sb, dir)
	if strings.HasPrefix(got.Err, "TIMEOUT") {
		return fmt.Sprintf("goawk did not terminate although the reference evaluator finished\n--- program:\n%s", src)
	}
	if !got.Equal(want) {
		return fmt.Sprintf("input bookkeeping differs from the reference semantics\n(trace lines: tag NR FNR FILENAME NF $0 v w)\n--- program:\n%s\n--- operands: %q\n--- stdin: %q\n--- files: %q\n--- goawk:\n%s--- reference:\n%s", src, c.Args, c.Stdin, c.Files, got, want)
	}
	for _, f := range c.Feat {
		x.Class("feat-" + f)
	}
	for k := range res.Trace {
		x.Class("ran-" + k)
	}
	tr := res.Trace
	if tr["file-operand"] >= 2 && tr["getline"] >= 1 && (tr["range"] > 0 || tr["next"] > 0 || tr["nextfile"] > 0 || tr["exit"] > 0 || tr["operand-assignment"] > 0) {
		x.Nontrivial("")
	}
	return ""
}

func init() {
	h.Prop("bookkeeping_vs_reference", 30000, 400000, genCase, run)
}
