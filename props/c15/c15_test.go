// C15 — cancellation stops execution promptly and is otherwise invisible.
package c15

import (
	"io"
	"bufio"
	"bytes"
	"context"
	"errors"
	"fmt"
	"os"
	"strings"
	"testing"
	"time"

	"github.com/benhoyt/goawk/interp"
	"github.com/benhoyt/goawk/parser"
	"pgregory.net/rapid"

	"verif/lib/awk"
	"verif/lib/awkgen"
	"verif/lib/h"
	"verif/lib/runner"
	"verif/lib/sandbox"
)

func TestMain(m *testing.M)   { h.Main(m, "C15") }
func TestAll(t *testing.T)    { h.RunAll(t) }
func TestReplay(t *testing.T) { h.Replay(t) }

// ---------------------------------------------------------------------------
// (1) a context that is never cancelled is invisible

type InvCase struct {
	Src   h.Str             `json:"src"`
	Stdin h.Str             `json:"stdin"`
	Args  []string          `json:"args,omitempty"`
	Files map[string]string `json:"files"`
	Ctx   string            `json:"ctx"` // background | todo | cancellable | deadline-far | value
	// Prior: the same Interpreter first ran once under a context that was cancelled afterwards (or expired)
	Prior string `json:"prior,omitempty"` // "" | cancelled-after | expired-after
	Procs bool   `json:"procs,omitempty"` // the program starts processes (NoExec off): one of procPrograms
}

// programs that start processes, including ones that end by a signal or with odd statuses: under a context that
// is never cancelled they must behave exactly as under Execute (what system() and close() return, what is printed)
var procPrograms = []string{
	`BEGIN { r = system("kill -9 $$"); print "r", r; print "after" }`,
	`BEGIN { r = system("kill -TERM $$"); print r; r = system("exit 3"); print r; r = system("true"); print r }`,
	`BEGIN { "kill -9 $$" | getline x; r = close("kill -9 $$"); print "r", r, "[" x "]" }`,
	`BEGIN { print "data" | "cat >/dev/null; kill -9 $$"; r = close("cat >/dev/null; kill -9 $$"); print "r", r }`,
	`{ r = system("test " NR " -eq 2 && kill -INT $$; exit " NR); print NR, r } END { print "end", NR }`,
	`BEGIN { while (("echo a; echo b; exit 7" | getline line) > 0) n++; print n, close("echo a; echo b; exit 7") }`,
	`BEGIN { r = system("kill -9 $$"); print "r", r; r = system("sh -c 'kill -SEGV $$' 2>/dev/null"); print r; r = system("kill -USR1 $$"); print r }`,
	`function f(c) { return system(c) } BEGIN { print f("kill -9 $$") + 1, f("exit 2") + 1 } END { print f("kill -HUP $$") }`,
}

func genInv(t *rapid.T) InvCase {
	g := awkgen.NewExec(t)
	tree := g.Program()
	c := InvCase{Src: h.Str(awk.RenderProgram(tree, awk.Minimal)), Stdin: h.Str(awkgen.Input(t)), Files: map[string]string{"r0": awkgen.Input(t), "r1": awkgen.Input(t)},
		Ctx: rapid.SampledFrom([]string{"background", "todo", "cancellable", "deadline-far", "value"}).Draw(t, "ctx")}
	if rapid.IntRange(0, 2).Draw(t, "args") == 0 {
		c.Args = []string{"r0"}
	}
	c.Prior = rapid.SampledFrom([]string{"", "", "cancelled-after", "expired-after"}).Draw(t, "prior")
	if rapid.IntRange(0, 11).Draw(t, "procs") == 0 {
		c.Procs = true
		c.Src = h.Str(rapid.SampledFrom(procPrograms).Draw(t, "proc"))
		c.Args = nil
	}
	return c
}

type res struct {
	out    string
	status int
	err    string
	files  string
}

func execInv(prog *parser.Program, c InvCase, useCtx bool) res {
	dir := h.TempDir("c15")
	defer os.RemoveAll(dir)
	for name, content := range c.Files {
		os.WriteFile(dir+"/"+name, []byte(content), 0o644)
	}
	var out bytes.Buffer
	cfg := &interp.Config{Stdin: strings.NewReader(string(c.Stdin)), Output: &out, Error: &out, Argv0: "goawk", Args: c.Args, Environ: []string{"HOME", "/h", "N", "7", "PATH", "/usr/bin:/bin"}, NoExec: !c.Procs,
		OpenFile: func(name string, flag int, perm os.FileMode) (*os.File, error) {
			return os.OpenFile(dir+"/"+name, flag, perm)
		}}
	it, _ := interp.New(prog)
	if c.Prior != "" {
		// an earlier run on the same Interpreter, under a context that is dead by now
		pctx, pcancel := context.WithCancel(context.Background())
		if c.Prior == "expired-after" {
			pctx, pcancel = context.WithDeadline(context.Background(), time.Now().Add(50*time.Millisecond))
		}
		var pout bytes.Buffer
		it.ExecuteContext(pctx, &interp.Config{Stdin: strings.NewReader(""), Output: &pout, Error: &pout, Argv0: "goawk", Environ: []string{"HOME", "/h", "N", "7"}, NoExec: true, NoFileReads: true, NoFileWrites: true})
		pcancel()
		if c.Prior == "expired-after" {
			<-pctx.Done()
		}
		it.ResetVars()
		it.ResetRand()
	}
	var status int
	var err error
	if !useCtx {
		status, err = it.Execute(cfg)
	} else {
		var ctx context.Context
		cancel := func() {}
		switch c.Ctx {
		case "background":
			ctx = context.Background()
		case "todo":
			ctx = context.TODO()
		case "cancellable":
			ctx, cancel = context.WithCancel(context.Background())
		case "deadline-far":
			ctx, cancel = context.WithTimeout(context.Background(), time.Hour)
		default:
			type k struct{}
			ctx = context.WithValue(context.Background(), k{}, 1)
		}
		status, err = it.ExecuteContext(ctx, cfg)
		cancel()
	}
	r := res{out: out.String(), status: status}
	if err != nil {
		r.err = err.Error()
	}
	entries, _ := os.ReadDir(dir)
	for _, e := range entries {
		d, _ := os.ReadFile(dir + "/" + e.Name())
		r.files += e.Name() + "=" + string(d) + ";"
	}
	return r
}

func runInv(x *h.Ctx, c InvCase) string {
	prog, err := parser.ParseProgram([]byte(c.Src), nil)
	if err != nil {
		x.Discard("rejected")
		return ""
	}
	// guard against runaway programs: the reference evaluator must finish within its budget
	if tree, err := awk.FromGoawk(prog); err == nil && !c.Procs {
		if _, r := runner.Reference(tree, prog, string(c.Stdin), c.Args, nil, runner.Sandbox{Files: c.Files}, 100000); r.Exhausted {
			x.Discard("reference budget exhausted")
			return ""
		}
	}
	a := execInv(prog, c, false)
	b := execInv(prog, c, true)
	if a != b {
		return fmt.Sprintf("ExecuteContext with a context that is never cancelled (%s) behaves differently from Execute\nExecute:        status=%d err=%q out=%q files=%q\nExecuteContext: status=%d err=%q out=%q files=%q\nprogram:\n%s", c.Ctx, a.status, a.err, h.Trunc(a.out, 400), h.Trunc(a.files, 300), b.status, b.err, h.Trunc(b.out, 400), h.Trunc(b.files, 300), c.Src)
	}
	x.Class("ctx-" + c.Ctx)
	if c.Prior != "" {
		x.Class("after-dead-context-run")
	}
	if c.Procs {
		if strings.Contains(a.out, "WaitDelay expired") || strings.Contains(b.out, "WaitDelay expired") {
			x.Excluded("KF-C13-4")
			return ""
		}
		x.Class("starts-processes")
	}
	if a.out != "" {
		x.Nontrivial("")
	}
	return ""
}

// ---------------------------------------------------------------------------
// (2)-(4) prompt stop at a deterministic cancellation point

type StopCase struct {
	Template string `json:"template"`
	Depth    int    `json:"depth"`    // nesting depth / recursion depth
	Keys     int    `json:"keys"`     // for-in array size / input records
	CancelAt int    `json:"cancel_at"` // the tick on which the context is cancelled
	Padding  int    `json:"padding"`  // extra cheap statements per iteration (shifts the phase of the 1000-instruction window)
	Buffered bool   `json:"buffered"` // Config.Output is a bufio.Writer
	How      string `json:"how"`      // cancel | deadline (the context expires instead of being cancelled)
	After    string `json:"after,omitempty"` // what the program does right after the cancelling tick: "" (goes on), or a run-time error of its own (div | regex | field | printf)
}

var templates = []string{"while", "nested-calls", "recursion", "for-in", "main-loop", "pattern-function", "end-block", "for-in-in-function", "do-while-in-rule"}

func genStop(t *rapid.T) StopCase {
	return StopCase{Template: rapid.SampledFrom(templates).Draw(t, "template"), Depth: rapid.IntRange(1, 50).Draw(t, "depth"), Keys: rapid.IntRange(1, 3000).Draw(t, "keys"),
		CancelAt: rapid.IntRange(1, 2500).Draw(t, "cancelat"), Padding: rapid.IntRange(0, 7).Draw(t, "padding"), Buffered: rapid.Bool().Draw(t, "buffered"), How: rapid.SampledFrom([]string{"cancel", "cancel", "deadline"}).Draw(t, "how"),
		After: rapid.SampledFrom([]string{"", "", "", "div", "regex", "field", "printf"}).Draw(t, "after")}
}

// a run-time error of the program's own, raised within a few instructions of the cancelling tick: the context is
// done by then, so the call still has to return the context's error
var afterStmt = map[string]string{
	"div":    "z_ = 1 / zero_",
	"regex":  "z_ = (\"x\" ~ (\"(\" zero_))",
	"field":  "$(1000001 + zero_) = 1",
	"printf": "printf \"%d %d\\n\", 1",
}

func pad(n int) string { return strings.Repeat("pad_++; ", n) }

func buildStop(c StopCase) (src string, input string) {
	body := fmt.Sprintf("print \"t\" (++n_); %stick()", pad(c.Padding))
	if c.After != "" {
		body += fmt.Sprintf("; if (n_ >= %d) %s", c.CancelAt, afterStmt[c.After])
	}
	switch c.Template {
	case "while":
		src = "BEGIN { while (1) { " + body + " } }"
	case "nested-calls":
		var sb strings.Builder
		for d := 0; d < c.Depth; d++ {
			fmt.Fprintf(&sb, "function f%d() { return f%d() }\n", d, d+1)
		}
		fmt.Fprintf(&sb, "function f%d() { while (1) { %s } }\nBEGIN { f0() }", c.Depth, body)
		src = sb.String()
	case "recursion":
		src = fmt.Sprintf("function r(d) { %s; if (d > 0) r(d - 1); return 1 }\nBEGIN { while (1) r(%d) }", body, c.Depth)
	case "for-in":
		src = fmt.Sprintf("BEGIN { for (i = 0; i < %d; i++) a[i] = 1; while (1) for (k in a) { %s } }", c.Keys, body)
	case "for-in-in-function":
		src = fmt.Sprintf("function g(arr,   k) { for (k in arr) { %s } }\nBEGIN { for (i = 0; i < %d; i++) a[i] = 1; while (1) g(a) }", body, c.Keys)
	case "main-loop":
		src = "{ " + body + " }"
		input = strings.Repeat("x y z\n", 6000)
	case "pattern-function":
		src = "function p() { " + body + "; return 1 }\np() { n2_++ }"
		input = strings.Repeat("x y z\n", 6000)
	case "end-block":
		src = "{ last = $0 }\nEND { while (1) { " + body + " } }"
		input = "a\nb\n"
	case "do-while-in-rule":
		src = "{ do { " + body + " } while (1) }"
		input = "a\n"
	}
	return src, input
}

func runStop(x *h.Ctx, c StopCase) string {
	src, input := buildStop(c)
	ticks, ticksAtCancel := 0, -1
	var cancel context.CancelFunc
	var ctx context.Context
	runaway := errors.New("runaway: still iterating long after the context was cancelled")
	funcs := map[string]any{"tick": func() (int, error) {
		ticks++
		if ticks == c.CancelAt {
			cancel()
			if c.How == "deadline" {
				// the context "expires": wait until its deadline has certainly passed
				<-ctx.Done()
			}
			ticksAtCancel = ticks
		}
		if ticksAtCancel >= 0 && ticks-ticksAtCancel > 20000 {
			// every iteration executes at least three instructions: 20000 iterations are far beyond any polling
			// interval of about a thousand instructions.  End the run ourselves so that the case can be judged.
			return 0, runaway
		}
		return 0, nil
	}}
	prog, err := parser.ParseProgram([]byte(src), &parser.ParserConfig{Funcs: funcs})
	if err != nil {
		return "harness: " + err.Error() + "\n" + src
	}
	if c.How == "deadline" {
		var c2 context.CancelFunc
		ctx, c2 = context.WithDeadline(context.Background(), time.Now().Add(time.Hour))
		// cancel() for a deadline context: replace it by one whose deadline is now
		realCancel := c2
		cancel = func() { realCancel() }
		_ = c2
	} else {
		ctx, cancel = context.WithCancel(context.Background())
	}
	if c.How == "deadline" {
		// a context that expires by itself: deadline in the past is reached when tick c arrives; emulate by a short timer context
		ctx, cancel = deadlineContext()
	}
	rec := &sandbox.Recorder{}
	var w interface {
		Write([]byte) (int, error)
	} = rec
	if c.Buffered {
		w = bufio.NewWriterSize(rec, 4096)
	}
	it, _ := interp.New(prog)
	done := make(chan struct{})
	var status int
	var runErr error
	go func() {
		status, runErr = it.ExecuteContext(ctx, &interp.Config{Stdin: strings.NewReader(input), Output: w, Error: w, Funcs: funcs, Environ: []string{}, NoExec: true, NoFileWrites: true, NoFileReads: true})
		close(done)
	}()
	select {
	case <-done:
	case <-time.After(120 * time.Second):
		cancel()
		x.Discard("run did not return within 120 s (timing, not judged)")
		return ""
	}
	cancel()
	_ = status
	describe := fmt.Sprintf("template=%s depth=%d keys=%d cancel_at=%d padding=%d buffered=%v how=%s after=%q\nprogram:\n%s", c.Template, c.Depth, c.Keys, c.CancelAt, c.Padding, c.Buffered, c.How, c.After, src)
	if ticksAtCancel < 0 {
		// the program ended before the cancelling tick (only possible for input-bound templates)
		if runErr != nil {
			return fmt.Sprintf("unexpected error although the context was never cancelled: %v\n%s", runErr, describe)
		}
		x.Discard("program finished before the cancellation point")
		return ""
	}
	if runErr == runaway || errors.Is(runErr, runaway) {
		return fmt.Sprintf("the context was cancelled (%s) on tick %d but execution went on: more than 20000 further iterations, stopped by the harness\n%s", c.How, c.CancelAt, describe)
	}
	if runErr == nil {
		return fmt.Sprintf("the context was cancelled on tick %d but the call returned no error (ran %d more ticks)\n%s", c.CancelAt, ticks-ticksAtCancel, describe)
	}
	wantErr := context.Canceled
	if c.How == "deadline" {
		wantErr = context.DeadlineExceeded
	}
	if !errors.Is(runErr, wantErr) || runErr != ctx.Err() {
		return fmt.Sprintf("the call returned %v, not the context's error %v\n%s", runErr, ctx.Err(), describe)
	}
	after := ticks - ticksAtCancel
	// I = VM instructions one iteration executes at least, read off the public disassembly: the instructions of
	// the innermost loop around the tick() call (a lower bound; calls and returns on the way only add to it).
	// At most floor(1000/I)+1 further iterations fit into the documented polling window of 1000 instructions.
	per := instructionsPerIteration(prog)
	bound := 1000/per + 1
	if after > bound {
		return fmt.Sprintf("%d further iterations ran after the context was cancelled; with >= %d instructions per iteration the documented polling interval of 1000 instructions allows at most %d\n%s", after, per, bound, describe)
	}
	// (4) everything printed before the cancelling tick has been delivered
	out := rec.String()
	lines := strings.Split(strings.TrimSuffix(out, "\n"), "\n")
	if out == "" {
		lines = nil
	}
	if len(lines) < c.CancelAt {
		return fmt.Sprintf("only %d of the %d lines printed before the cancellation point were delivered to the output writer\n%s", len(lines), c.CancelAt, describe)
	}
	for i, l := range lines {
		if l != fmt.Sprintf("t%d", i+1) {
			return fmt.Sprintf("output line %d is %q, expected %q (lost or reordered output)\n%s", i+1, l, fmt.Sprintf("t%d", i+1), describe)
		}
	}
	x.Class("template-" + c.Template)
	x.Class("how-" + c.How)
	if c.After != "" {
		x.Class("own-error-after-cancel")
	}
	if c.Template != "while" {
		x.Nontrivial("")
	}
	return ""
}

// instructionsPerIteration finds the block containing "CallNative tick" in the disassembly and counts the
// instructions from the closest preceding target of a later backward jump up to that jump.  Falls back to 3.
func instructionsPerIteration(prog *parser.Program) int {
	var buf bytes.Buffer
	if err := prog.Disassemble(&buf); err != nil {
		return 3
	}
	type ins struct {
		addr int
		text string
	}
	var blocks [][]ins
	var cur []ins
	for _, line := range strings.Split(buf.String(), "\n") {
		f := strings.Fields(line)
		if len(f) >= 2 && len(f[0]) == 4 {
			var a int
			if _, err := fmt.Sscanf(f[0], "%x", &a); err == nil {
				cur = append(cur, ins{a, strings.Join(f[1:], " ")})
				continue
			}
		}
		if len(cur) > 0 {
			blocks = append(blocks, cur)
			cur = nil
		}
	}
	if len(cur) > 0 {
		blocks = append(blocks, cur)
	}
	best := 3
	for _, b := range blocks {
		ti := -1
		for i, in := range b {
			if strings.HasPrefix(in.text, "CallNative tick") {
				ti = i
			}
		}
		if ti < 0 {
			continue
		}
		// inside a for-in body? then one iteration is exactly that body
		for j := ti; j >= 0; j-- {
			if strings.HasPrefix(b[j].text, "ForIn ") {
				f := strings.Fields(b[j].text)
				var end int
				if _, err := fmt.Sscanf(f[len(f)-1], "0x%x", &end); err == nil && end > b[ti].addr {
					n := 0
					for _, in := range b {
						if in.addr > b[j].addr && in.addr < end {
							skipped := false
							for _, jn := range b { // not counted: what a forward jump inside the body can skip
								if jn.addr > b[j].addr && jn.addr < end && strings.HasPrefix(jn.text, "Jump") {
									jf := strings.Fields(jn.text)
									var jt int
									if _, err := fmt.Sscanf(jf[len(jf)-1], "0x%x", &jt); err == nil && jt > jn.addr && in.addr > jn.addr && in.addr < jt {
										skipped = true
									}
								}
							}
							if !skipped {
								n++
							}
						}
					}
					if n > best {
						best = n
					}
					return best
				}
			}
		}
		// innermost backward jump after the call whose target lies before the call
		for j := ti + 1; j < len(b); j++ {
			if !strings.HasPrefix(b[j].text, "Jump") {
				continue
			}
			f := strings.Fields(b[j].text)
			var target int
			if _, err := fmt.Sscanf(f[len(f)-1], "0x%x", &target); err != nil {
				continue
			}
			if target <= b[ti].addr {
				// a lower bound: instructions that a forward jump inside the loop can skip are not counted
				skippable := func(addr int) bool {
					for _, jn := range b {
						if jn.addr < target || jn.addr >= b[j].addr || !strings.HasPrefix(jn.text, "Jump") {
							continue
						}
						jf := strings.Fields(jn.text)
						var jt int
						if _, err := fmt.Sscanf(jf[len(jf)-1], "0x%x", &jt); err == nil && jt > jn.addr && addr > jn.addr && addr < jt {
							return true
						}
					}
					return false
				}
				n := 0
				for _, in := range b {
					if in.addr >= target && in.addr <= b[j].addr && !skippable(in.addr) {
						n++
					}
				}
				if n > best {
					best = n
				}
				return best
			}
		}
		// no loop in this block (recursion / per-record templates): at least the instructions up to the call run per iteration
		if ti+1 > best {
			best = ti + 1
		}
		return best
	}
	return best
}

func deadlineContext() (context.Context, context.CancelFunc) {
	// a context with a deadline that the cancel function brings forward to "now":
	// implemented as a deadline context created lazily at cancel time is not possible, so use a
	// parent with a far deadline and a child whose deadline is set when cancel is called
	parent, pc := context.WithCancel(context.Background())
	d := &lateDeadline{Context: parent, done: make(chan struct{})}
	return d, func() {
		d.once()
		pc()
	}
}

// lateDeadline reports DeadlineExceeded once expire() has been called.
type lateDeadline struct {
	context.Context
	done    chan struct{}
	expired bool
}

func (d *lateDeadline) once() {
	if !d.expired {
		d.expired = true
		close(d.done)
	}
}
func (d *lateDeadline) Done() <-chan struct{} { return d.done }
func (d *lateDeadline) Err() error {
	if d.expired {
		return context.DeadlineExceeded
	}
	return nil
}
func (d *lateDeadline) Deadline() (time.Time, bool) { return time.Now().Add(time.Hour), true }

// ---------------------------------------------------------------------------
// pre-cancelled and expired contexts

type PreCase struct {
	Kind string `json:"kind"` // cancelled | expired
	Prog string `json:"prog"`
}

func genPre(t *rapid.T) PreCase {
	return PreCase{Kind: rapid.SampledFrom([]string{"cancelled", "expired", "cancelled-by-reader"}).Draw(t, "kind"),
		Prog: rapid.SampledFrom([]string{"BEGIN { while (1) n++ }", "{ n++ } END { while (1) n++ }", "function f() { while (1) n++ } BEGIN { f() }", "BEGIN { for (;;) { a[n++] = 1; if (n > 100000) n = 0 } }",
			// nothing in the text repeats: it is the input that makes these run long (300000 records)
			"{ n++ } END { print n }", "/x/", "{ print NR }", "$2 > 0 { s += $2 }", "NR % 2", "/x/, /y/ { c = c + 1 }", "{ $3 = NR } END { print }", "{ a[NR] = $0 }"}).Draw(t, "prog")}
}

type cancellingReader struct {
	r      io.Reader
	n      int
	after  int
	cancel context.CancelFunc
}

func (c *cancellingReader) Read(p []byte) (int, error) {
	if len(p) > 4096 {
		p = p[:4096]
	}
	n, err := c.r.Read(p)
	c.n += n
	if c.n >= c.after {
		c.cancel()
	}
	return n, err
}

var preInput = strings.Repeat("x 1\ny 2\n", 150000)

func runPre(x *h.Ctx, c PreCase) string {
	prog, err := parser.ParseProgram([]byte(c.Prog), nil)
	if err != nil {
		return "harness: " + err.Error()
	}
	var ctx context.Context
	var cancel context.CancelFunc
	want := context.Canceled
	var stdin io.Reader = strings.NewReader(preInput)
	kind := c.Kind
	if kind == "cancelled-by-reader" && (strings.HasPrefix(c.Prog, "BEGIN") || strings.HasPrefix(c.Prog, "function")) {
		kind = "cancelled" // these never read their input
	}
	switch kind {
	case "cancelled":
		ctx, cancel = context.WithCancel(context.Background())
		cancel()
	case "cancelled-by-reader":
		// the cancellation comes from outside the program, at a point the harness owns: the reader of the standard
		// input cancels the context once it has handed over 64 KiB; more than 1.1 MB of records are still to come
		ctx, cancel = context.WithCancel(context.Background())
		stdin = &cancellingReader{r: strings.NewReader(preInput), after: 64 << 10, cancel: cancel}
	default:
		ctx, cancel = context.WithDeadline(context.Background(), time.Now().Add(-time.Second))
		want = context.DeadlineExceeded
	}
	defer cancel()
	it, _ := interp.New(prog)
	done := make(chan error, 1)
	go func() {
		_, e := it.ExecuteContext(ctx, &interp.Config{Stdin: stdin, Output: &bytes.Buffer{}, Environ: []string{}})
		done <- e
	}()
	select {
	case e := <-done:
		if !errors.Is(e, want) {
			return fmt.Sprintf("a %s context: the call returned %v instead of %v\nprogram: %s", c.Kind, e, want, c.Prog)
		}
	case <-time.After(60 * time.Second):
		return fmt.Sprintf("a %s context: an endless program did not stop within 60 s\nprogram: %s", c.Kind, c.Prog)
	}
	x.Nontrivial(c.Kind + c.Prog)
	return ""
}

// ---------------------------------------------------------------------------
// (5) waits for system() and piped commands are interrupted

type WaitCase struct {
	Kind  string `json:"kind"`  // system | pipe-getline | print-pipe-close | print-pipe-open-at-end
	Where string `json:"where"` // begin | function | end
}

// enumerated (not drawn): a failing case takes 10 s to decide, so nothing is gained by shrinking
func enumWait(thorough bool, yield func(WaitCase) bool) {
	for _, k := range []string{"system", "pipe-getline", "print-pipe-close", "print-pipe-open-at-end"} {
		for _, w := range []string{"begin", "function", "end"} {
			if !yield(WaitCase{Kind: k, Where: w}) {
				return
			}
		}
	}
}

func runWait(x *h.Ctx, c WaitCase) string {
	var body string
	switch c.Kind {
	case "system":
		body = `print "before"; tick(); system("sleep 30"); while (1) n++`
	case "pipe-getline":
		body = `print "before"; tick(); "sleep 30" | getline x; while (1) n++`
	case "print-pipe-close":
		body = `print "before"; print "x" | "sleep 30"; tick(); close("sleep 30"); while (1) n++`
	default:
		// the command is still open when the program ends: the wait happens while the run winds up
		body = `print "before"; print "x" | "cat >/dev/null; sleep 30"; tick()`
	}
	var src string
	switch c.Where {
	case "function":
		src = "function w(   x, i) { " + body + " }\nBEGIN { w() }"
	case "end":
		src = "END { " + body + " }"
	default:
		src = "BEGIN { " + body + " }"
	}
	ctx, cancel := context.WithCancel(context.Background())
	defer cancel()
	funcs := map[string]any{"tick": func() {
		go func() {
			time.Sleep(300 * time.Millisecond)
			cancel()
		}()
	}}
	prog, err := parser.ParseProgram([]byte(src), &parser.ParserConfig{Funcs: funcs})
	if err != nil {
		return "harness: " + err.Error()
	}
	rec := &sandbox.Recorder{}
	it, _ := interp.New(prog)
	done := make(chan error, 1)
	start := time.Now()
	go func() {
		_, e := it.ExecuteContext(ctx, &interp.Config{Stdin: strings.NewReader(""), Output: rec, Error: rec, Funcs: funcs, Environ: []string{"PATH", "/usr/bin:/bin"}})
		done <- e
	}()
	attempt := func() (error, bool) {
		select {
		case e := <-done:
			return e, true
		case <-time.After(10 * time.Second):
			return nil, false
		}
	}
	e, ok := attempt()
	if !ok {
		return fmt.Sprintf("cancelling while waiting for %s: the call had not returned 10 s after the cancellation (the command sleeps 30 s)\nprogram: %s", c.Kind, src)
	}
	if !errors.Is(e, context.Canceled) && !(c.Kind == "print-pipe-open-at-end" && e == nil) {
		// (when the program itself has already finished and only the final close is waiting, nil is accepted too)
		return fmt.Sprintf("cancelling while waiting for %s: the call returned %v, not context.Canceled\nprogram: %s", c.Kind, e, src)
	}
	if !strings.Contains(rec.String(), "before") {
		return fmt.Sprintf("output printed before the wait was not delivered: %q", rec.String())
	}
	_ = start
	x.Nontrivial(c.Kind + c.Where)
	return ""
}

func init() {
	h.Prop("never_cancelled_is_invisible", 6000, 100000, genInv, runInv)
	h.Prop("prompt_stop_at_tick", 3000, 60000, genStop, runStop)
	h.Prop("precancelled_and_expired", 80, 800, genPre, runPre)
	h.Enum("waits_interrupted", enumWait, runWait)
}
