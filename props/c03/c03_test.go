// C03 — parsing is total; errors carry a position inside the source; every
// token position is the true line/column of the token's first byte.
package c03

import (
	"bytes"
	"fmt"
	"os"
	"os/exec"
	"path/filepath"
	"regexp"
	"strings"
	"testing"

	"github.com/benhoyt/goawk/lexer"
	"github.com/benhoyt/goawk/parser"
	"pgregory.net/rapid"

	"verif/lib/h"
)

func TestMain(m *testing.M)   { h.Main(m, "C03") }
func TestAll(t *testing.T)    { h.RunAll(t) }
func TestReplay(t *testing.T) { h.Replay(t) }

// ---------------------------------------------------------------------------
// case

type Case struct {
	Src  h.Str  `json:"src"`
	Kind string `json:"kind"`          // generator that produced it
	CLI  string `json:"cli,omitempty"` // "", "file", "two-files", "cmdline"
	Cut  int    `json:"cut,omitempty"` // line boundary index for two-files
}

// ---------------------------------------------------------------------------
// generators

var vocab = []string{
	"BEGIN", "END", "function", "func", "if", "else", "while", "for", "do", "break", "continue", "next", "nextfile",
	"exit", "return", "delete", "in", "getline", "print", "printf",
	"atan2", "close", "cos", "exp", "fflush", "gsub", "index", "int", "length", "log", "match", "rand", "sin", "split",
	"sprintf", "sqrt", "srand", "sub", "substr", "system", "tolower", "toupper",
	"{", "}", "(", ")", "[", "]", ";", ",", "\n", "\n", "\n",
	"+", "-", "*", "/", "%", "^", "**", "!", ">", ">=", "<", "<=", "==", "!=", "~", "!~", "&&", "||", "?", ":",
	"=", "+=", "-=", "*=", "/=", "%=", "^=", "**=", "++", "--", ">>", "|", "$", "@", "&", "&|", "`", "\\",
	"x", "y", "a", "foo", "_z9", "NF", "NR", "FS", "e", "E", "e5", "f(", "f (",
	"0", "1", "42", "1e", "1e+", "1E-", "1e5", "1.e5", ".5", "1.", ".", "..", "1e+5", "0x1F", "1e\n", "1E+\n", "2e-\r\n", "1e\r\n", "3E\n\n",
	`"s"`, `'s'`, `"a\"b"`, `"\x41"`, `"\x"`, `"é"`, `"ᄀ00"`, `"\101"`, `"\q"`, `"unterminated`, "\"nl\n\"", `""`, `"é"`, "\"\xff\"",
	"/re/", "/a\\/b/", "/[/]/", "/=x/", "/unterminated", "/a\nb/", "//",
	// a regex literal that only starts the regular-expression argument of a builtin: the parser reads the literal,
	// finds no ',' or ')' after it and goes back to parse the argument as an expression
	`sub(/x/ "y", "z")`, `gsub(/x/ y, "z", t)`, `match($0, /a/ || /b/)`, `split(s, parts, /x/ "y")`, "sub(/x/\n", `match(s, /a/ ~`, "gsub(/x/ /y/, 1)", "split(s, p, /=/ =",
	"# comment", "#\n", "# c\r\n", "\\\n", "\\\r\n", "\\ \n", "\\x", "\\",
	"é", "\xff", "\xc3", "\x00", "\t", "\r", "\r\n", " ", "  ",
}

var seps = []string{"", "", " ", " ", " ", "\t", "\n", "\r\n", "\r", "\\\n", "\\\r\n", " # c\n", ";"}

var seedPrograms []string

var builtinSeeds = []string{
	`BEGIN { x = 1; print x }`,
	`{ print $1, $NF } END { print NR }`,
	"function f(a, b) {\n  return a + b\n}\nBEGIN { print f(1, 2) }\n",
	"BEGIN {\n\tfor (i = 0; i < 10; i++) {\n\t\tif (i % 2) continue; else print i\n\t}\n}\n",
	`$1 ~ /foo/ { n++ } /a/, /b/ { print } END { printf "%d\n", n }`,
	`BEGIN { while ((getline line < "f") > 0) n++; close("f"); print n > "/dev/stderr" }`,
	`BEGIN { a["x"] = 1; for (k in a) delete a[k]; if (!("x" in a)) print "gone" }`,
	`BEGIN { x = 1e5 + .5 - 1. ; y = x ^ 2 ** 3; z = x ? y : -x; print x y z }`,
	"BEGIN { s = \"a\\tb\\n\" 'q' ; gsub(/a/, \"&&\", s); print length(s), substr(s, 2) }\n",
	"BEGIN { do { i++ } while (i < 3)\n print i | \"cat\"; \"date\" | getline d; print d >> \"out\" }\n",
	"BEGIN { print 1,\n 2; x = 1 &&\n 2 ||\n 3 }\n",
	"BEGIN { printf(\"%s %s\\n\", \"a\", \"b\") > \"f\"; print(1)(2) }\n",
	"BEGIN { $0 = \"a b\"; $3 = \"c\"; NF = 2; print $0; print $(1+1) }\n",
	"BEGIN { if (x) ; else ; for (;;) break }\n",
	"BEGIN { x = 1e\n print x }\n",
	"BEGIN { print 1e+\n1 }\n",
}

func init() {
	seedPrograms = append(seedPrograms, builtinSeeds...)
	repo := os.Getenv("VERIF_REPO")
	if repo == "" {
		repo = "/repo"
	}
	for _, pat := range []string{"testdata/p.*", "testdata/t.*", "testdata/*.awk"} {
		names, _ := filepath.Glob(filepath.Join(repo, pat))
		for _, n := range names {
			data, err := os.ReadFile(n)
			if err == nil && len(data) > 0 && len(data) < 6000 {
				seedPrograms = append(seedPrograms, string(data))
			}
		}
	}
}

var hostileInserts = []string{"\xef\xbb\xbf", "1e\n", "1e+\n", "1E-\r\n", "\\\n", "\\\r\n", "\r", "\r\n", "\x00", "é", "\xff", "\"", "'", "/", "#", "\n", "\t", "{", "}", "(", "\\", "2e", "$", "@"}

func genTokenSoup(t *rapid.T) string {
	n := rapid.IntRange(1, 40).Draw(t, "ntok")
	var sb strings.Builder
	for i := 0; i < n; i++ {
		sb.WriteString(rapid.SampledFrom(vocab).Draw(t, "tok"))
		sb.WriteString(rapid.SampledFrom(seps).Draw(t, "sep"))
	}
	return sb.String()
}

func genMutated(t *rapid.T) string {
	s := rapid.SampledFrom(seedPrograms).Draw(t, "seed")
	nm := rapid.IntRange(1, 4).Draw(t, "nmut")
	for i := 0; i < nm && len(s) > 0; i++ {
		p := rapid.IntRange(0, len(s)).Draw(t, "p")
		switch rapid.IntRange(0, 6).Draw(t, "mut") {
		case 0: // truncate
			s = s[:p]
		case 1: // delete a slice
			q := p + rapid.IntRange(0, 8).Draw(t, "dl")
			if q > len(s) {
				q = len(s)
			}
			s = s[:p] + s[q:]
		case 2: // duplicate a slice
			q := p + rapid.IntRange(1, 12).Draw(t, "dl")
			if q > len(s) {
				q = len(s)
			}
			s = s[:q] + s[p:q] + s[q:]
		case 3: // insert hostile snippet
			s = s[:p] + rapid.SampledFrom(hostileInserts).Draw(t, "ins") + s[p:]
		case 4: // flip a byte
			if p < len(s) {
				b := []byte(s)
				b[p] = rapid.Byte().Draw(t, "b")
				s = string(b)
			}
		case 5: // replace every LF by CRLF or CR
			if rapid.Bool().Draw(t, "crlf") {
				s = strings.ReplaceAll(s, "\n", "\r\n")
			} else {
				s = s[:p] + strings.Replace(s[p:], "\n", "\r", 1)
			}
		case 6: // insert a vocabulary token
			s = s[:p] + rapid.SampledFrom(vocab).Draw(t, "tok") + s[p:]
		}
	}
	return s
}

var rawAlphabet = []byte("  \n\n\r\t\\\"'/#{}()[];,+-*%^!<>=~&|?:$@.0123456789eExaBEGINfunction\x00\xff\xc3\xa9")

func genRaw(t *rapid.T) string {
	n := rapid.IntRange(0, 64).Draw(t, "n")
	b := make([]byte, n)
	for i := range b {
		if rapid.IntRange(0, 9).Draw(t, "any") == 0 {
			b[i] = rapid.Byte().Draw(t, "b")
		} else {
			b[i] = rapid.SampledFrom(rawAlphabet).Draw(t, "c")
		}
	}
	return string(b)
}

func genBig(t *rapid.T) string {
	// sources near the 32 KiB bound: a seed repeated, then mutated at the end
	s := rapid.SampledFrom(seedPrograms).Draw(t, "seed")
	if len(s) == 0 {
		s = "BEGIN{}\n"
	}
	var sb strings.Builder
	limit := rapid.IntRange(8000, 32768).Draw(t, "limit")
	for sb.Len()+len(s)+1 <= limit {
		sb.WriteString(s)
		sb.WriteString("\n")
	}
	out := sb.String()
	out += rapid.SampledFrom(hostileInserts).Draw(t, "ins")
	if len(out) > 32768 {
		out = out[:32768]
	}
	return out
}

// genSemantic builds sources that are syntactically valid but that the
// resolver rejects (scalar/array conflicts, misuse of special variables and
// function names, bad calls): those errors are positioned from stored AST
// positions rather than from the token stream, one per syntactic form.
var arrayUses = []string{"X[1] = 1", "y = X[1]", "delete X[1]", "delete X", "y = (1) in X", "y = (1, 2) in X", "if ((k, 2) in X) n++", "print (1, 2) in X", "for (k in X) n++", "n = split(\"a b\", X)",
	"n = split(\"a b\", X, /b/)", "arrf(X)", "getline X[1]", "sub(/a/, \"b\", X[1])", "y = X[1, 2]", "X[1]++", "y = !((1,2) in X)", "while ((1, 2) in X) break", "y = 1 + (3, 4) in X"}
var scalarUses = []string{"X = 1", "y = X + 1", "X++", "print X", "getline X", "scalf(X)", "y = X ~ /a/", "y = $X", "sub(/a/, \"b\", X)", "y = X \"s\"", "y = -X", "X += 2", "y = length(X) X", "printf \"%s\", X", "y = (X, 1) in arr"}
var otherBad = []string{"break", "continue", "if (y) break", "if (y) continue; else n++", "function brk(x) { if (x) break }", "function cnt(x) { continue }", "function brk2(x) { while (x) { x-- }; break }",
	"function inl(x) { for (;;) { if (x) break; else continue } break }", "return 1", "function nx(x) { next }", "next", "nextfile", "function nf2() { nextfile }", "exit; break", "{ break }", "do break; while (0); continue",
	"for (k in arr) break; continue", "getline; break", "function deepb(x) { if (x) { if (x > 1) { { break } } } }", "while (0) { function nested() { } }", "y = undefinedf(1)", "scalf(1, 2, 3)", "arrf(1)", "y = scalf", "scalf = 1", "NR[1] = 1", "y = (1, 2) in NR", "y = ENVIRON + 1", "ARGV = 1", "function scalf(q) { }", "function dup(a, a) { }", "function NR() { }", "function nrp(NR) { }", "y = arrf(scalf)", "scalf[1] = 2", "y = (1, 2) in scalf"}

// constant operands in positions a compiler may want to pre-compute: regex operands given as string
// constants (valid and invalid), constant field indexes and subscripts, constant formats.  Whatever the
// compiler folds, ParseProgram must return a program or an error; the statements need not be reachable.
var constRegexes = []string{`"("`, `"["`, `"*"`, `"a{2,1}"`, `"(()"`, `"[z-a]"`, `"\\"`, `"a**"`, `"x{1001}"`, `"\\1"`, `"(?P<n"`, `"[[:foo:]]"`, `"a|b"`, `"^x+$"`, `""`, `"\377"`, `"\303"`, `"+"`, `"?"`, `")"`}
var constRegexUses = []string{"y = $0 ~ R", "y = $0 !~ R", "y = $1 ~ R", "y = x ~ R", "y = \"abc\" ~ R", "if ($0 ~ R) n++", "if (0) print $0 ~ R", "$0 ~ R { n++ }", "y = match($0, R)", "y = match(\"s\", R)", "n = split($0, arr, R)", "sub(R, \"x\")", "gsub(R, \"x\", y)",
	"FS = R", "RS = R", "y = (x ~ R) ? 1 : 2", "while ($0 ~ R) break", "y = R ~ R", "y = !($0 ~ R)", "print $0 ~ R", "y = $(R)", "y = arr[R]", "printf R", "y = sprintf(R, 1)", "y = index(R, R)", "y = substr(R, 1e30)", "y = $1e30", "y = $-1", "$(-1e30) = 1", "y = arr[1e999]", "y = -R", "y = R + 0", "y = 1 / 0", "y = 1 % 0", "y = 2 ^ 1e9", "y = \"a\" < 1"}

// call chains: a value handed down through functions that only forward their parameter; what the last one does
// with it, and what the top passes, may or may not agree.  Whatever the resolver concludes after however many
// passes, ParseProgram returns a program or an error.
func genChain(t *rapid.T) string {
	n := rapid.IntRange(1, 6).Draw(t, "chainlen")
	var sb strings.Builder
	order := rapid.Permutation(func() []int {
		l := make([]int, n)
		for i := range l {
			l[i] = i
		}
		return l
	}()).Draw(t, "chainorder")
	defs := make([]string, n)
	for i := 0; i < n; i++ {
		var body string
		if i == n-1 {
			body = rapid.SampledFrom([]string{"", "p[1] = 1", "p = 1", "return length(p)", "return p + 1", "if (0) c0(1)", "if (0) c" + fmt.Sprint(i) + "(1)", "for (k in p) n++", "split(\"a b\", p)", "c0(p)", "return p[1] p", "delete p", "q[1] = p"}).Draw(t, "last")
		} else {
			body = rapid.SampledFrom([]string{"c%d(p)", "return c%d(p)", "c%d(p); c%d(p)", "if (q) c%d(p); else c%d(q)", "c%d(p, q)", "x = 1 + c%d(p)", "c%d(p); if (0) c0(2)"}).Draw(t, "fwd")
			body = strings.ReplaceAll(body, "%d", fmt.Sprint(i+1))
		}
		defs[i] = fmt.Sprintf("function c%d(p, q) { %s }\n", i, body)
	}
	top := func() string {
		return rapid.SampledFrom([]string{"c0(x)", "x[1]; c0(x)", "x = 1; c0(x)", "c0(1)", "c0(\"s\")", "c0(x); x[1] = 1", "c0(x); x = 2", "c0(x, x)", "c0(y); c0(x); y[1]; x = 1", "c0(x + 1)", "c0(x[1])", "c0(NR)", "c0(ENVIRON)", "c0()", "z = c0(x) c0(y)"}).Draw(t, "top")
	}
	blocks := []string{"BEGIN { " + top() + " }\n"}
	if rapid.Bool().Draw(t, "twotops") {
		blocks = append(blocks, rapid.SampledFrom([]string{"BEGIN", "END", "NR == 1", ""}).Draw(t, "tplace")+" { "+top()+" }\n")
	}
	// definitions and top-level blocks in a drawn order
	where := rapid.IntRange(0, 2).Draw(t, "topwhere")
	if where == 0 {
		sb.WriteString(strings.Join(blocks, ""))
	}
	for k, i := range order {
		sb.WriteString(defs[i])
		if where == 1 && k == 0 {
			sb.WriteString(strings.Join(blocks, ""))
		}
	}
	if where == 2 {
		sb.WriteString(strings.Join(blocks, ""))
	}
	return sb.String()
}

func genSemantic(t *rapid.T) string {
	if rapid.IntRange(0, 3).Draw(t, "chainfam") == 0 {
		return genChain(t)
	}
	if rapid.IntRange(0, 2).Draw(t, "constfam") == 0 {
		var sb strings.Builder
		for i := rapid.IntRange(1, 3).Draw(t, "nconst"); i > 0; i-- {
			st := strings.ReplaceAll(rapid.SampledFrom(constRegexUses).Draw(t, "cru"), "R", rapid.SampledFrom(constRegexes).Draw(t, "cr"))
			switch {
			case strings.Contains(st, "{ n++ }"):
				sb.WriteString(st + "\n")
			case rapid.Bool().Draw(t, "infunc"):
				sb.WriteString("function cf" + fmt.Sprint(i) + "(x, y, arr, n) { " + st + " }\n")
			default:
				sb.WriteString(rapid.SampledFrom([]string{"BEGIN", "END", "", "NR == 1"}).Draw(t, "cplace") + " { " + st + " }\n")
			}
		}
		return sb.String()
	}
	name := rapid.SampledFrom([]string{"x", "x", "val", "NR", "FS", "p", "ENVIRON", "scalf"}).Draw(t, "name")
	var stmts []string
	n := rapid.IntRange(1, 4).Draw(t, "nuses")
	for i := 0; i < n; i++ {
		var st string
		switch rapid.IntRange(0, 4).Draw(t, "usekind") {
		case 0, 1:
			st = rapid.SampledFrom(arrayUses).Draw(t, "au")
		case 2, 3:
			st = rapid.SampledFrom(scalarUses).Draw(t, "su")
		default:
			st = rapid.SampledFrom(otherBad).Draw(t, "ob")
		}
		stmts = append(stmts, strings.ReplaceAll(st, "X", name))
	}
	var sb strings.Builder
	sb.WriteString("function arrf(a) { a[1] = 1 }\nfunction scalf(s) { return s + 1 }\n")
	nl := rapid.SampledFrom([]string{"\n", "\n", "\r\n"}).Draw(t, "nl")
	for _, st := range stmts {
		pad := rapid.SampledFrom([]string{"", " ", "\t", "  # c" + nl, nl, nl + nl + "   ", "\\" + nl}).Draw(t, "pad")
		if strings.HasPrefix(st, "function ") {
			sb.WriteString(pad + st + nl)
			continue
		}
		switch rapid.IntRange(0, 4).Draw(t, "place") {
		case 0:
			sb.WriteString("BEGIN {" + pad + st + " }" + nl)
		case 1:
			sb.WriteString("{" + pad + st + "; n++ }" + nl)
		case 2:
			sb.WriteString("END { if (n) {" + pad + st + " } }" + nl)
		case 3:
			sb.WriteString("function u" + fmt.Sprint(len(sb.String())) + "(p, q) {" + pad + st + " }" + nl)
		default:
			sb.WriteString("NR == 1 {" + nl + pad + st + nl + "}" + nl)
		}
	}
	return sb.String()
}

func genSrc(t *rapid.T) (string, string) {
	switch k := rapid.IntRange(0, 109).Draw(t, "kind"); {
	case k >= 95:
		return genSemantic(t), "semantic"
	case k < 40:
		return genTokenSoup(t), "soup"
	case k < 85:
		return genMutated(t), "mutated"
	case k < 93:
		return genRaw(t), "raw"
	default:
		return genBig(t), "big"
	}
}

// bytes an editor may put in front of a program without showing them: they are bytes of the source like any other
// (columns count bytes), whatever the lexer makes of them
var invisiblePrefixes = []string{"\xef\xbb\xbf", "\xef\xbb\xbf\xef\xbb\xbf", "\xef\xbb", "\xfe\xff", "\xff\xfe", "\xc2\xa0", "\xe2\x80\x8b", "\x00", "\v", "\f", "\r"}

func genCase(t *rapid.T) Case {
	s, k := genSrc(t)
	if k != "big" && rapid.IntRange(0, 11).Draw(t, "prefix") == 0 {
		s = rapid.SampledFrom(invisiblePrefixes).Draw(t, "pfx") + s
		k += "+prefix"
	}
	return Case{Src: h.Str(s), Kind: k}
}

func genCLICase(t *rapid.T) Case {
	s, k := genSrc(t)
	if k == "big" { // keep argv small
		s = s[len(s)-2000:]
	}
	if rapid.IntRange(0, 11).Draw(t, "prefix") == 0 {
		s = rapid.SampledFrom(invisiblePrefixes).Draw(t, "pfx") + s
		k += "+prefix"
	}
	c := Case{Src: h.Str(s), Kind: k}
	c.CLI = rapid.SampledFrom([]string{"file", "file", "two-files", "cmdline"}).Draw(t, "cli")
	c.Cut = rapid.IntRange(0, 50).Draw(t, "cut")
	return c
}

// ---------------------------------------------------------------------------
// independent source geometry

// lineStarts returns the offsets at which lines start (lines are separated by
// '\n'; the piece after the last '\n' is a line, possibly empty).
func lineStarts(src string) []int {
	st := []int{0}
	for i := 0; i < len(src); i++ {
		if src[i] == '\n' {
			st = append(st, i+1)
		}
	}
	return st
}

// offsetOf maps (line, col) to a byte offset, where col counts the bytes of
// the line that are not carriage returns, starting at 1.  ok is false when the
// position does not exist in the source.  The position one past the last byte
// of a line (the line terminator, or the end of the source) exists.
func offsetOf(src string, starts []int, line, col int) (off int, ok bool) {
	if line < 1 || line > len(starts) || col < 1 {
		return 0, false
	}
	i := starts[line-1]
	end := len(src)
	if line < len(starts) {
		end = starts[line] - 1 // offset of the '\n'
	}
	n := 1
	for ; i < end; i++ {
		if src[i] == '\r' {
			continue
		}
		if n == col {
			return i, true
		}
		n++
	}
	if n == col {
		return end, true
	}
	return 0, false
}

// skipBlank returns the offset of the first byte at or after i that starts a
// token: blanks, CRs, backslash-newline continuations and one comment are
// skipped, exactly the material AWK treats as insignificant.
func skipBlank(src string, i int) int {
	for i < len(src) {
		c := src[i]
		if c == ' ' || c == '\t' || c == '\r' {
			i++
			continue
		}
		if c == '\\' {
			j := i + 1
			if j < len(src) && src[j] == '\r' {
				j++
			}
			if j < len(src) && src[j] == '\n' {
				i = j + 1
				continue
			}
			return i // a lone backslash: an error will be reported somewhere here
		}
		break
	}
	if i < len(src) && src[i] == '#' {
		for i < len(src) && src[i] != '\n' && src[i] != 0 {
			i++
		}
	}
	return i
}

// rawStringEnd: src[i] is an opening quote; returns the offset just past the
// matching closing quote (or -1).
func rawStringEnd(src string, i int) int {
	q := src[i]
	for j := i + 1; j < len(src); j++ {
		switch src[j] {
		case '\\':
			j++
		case q:
			return j + 1
		case '\n', '\r', 0:
			return -1
		}
	}
	return -1
}

func rawRegexEnd(src string, i int) int { // src[i] == '/'
	for j := i + 1; j < len(src); j++ {
		switch src[j] {
		case '\\':
			j++
		case '/':
			return j + 1
		case '\n', '\r', 0:
			return -1
		}
	}
	return -1
}

func posValid(src string, starts []int, p lexer.Position) bool {
	_, ok := offsetOf(src, starts, p.Line, p.Column)
	return ok
}

// ---------------------------------------------------------------------------
// oracle (a)+(b): ParseProgram is total, error position exists

func classify(x *h.Ctx, src string) {
	if strings.Contains(src, "\r") {
		x.Class("has-cr")
	}
	if strings.Contains(src, "\\\n") || strings.Contains(src, "\\\r\n") {
		x.Class("has-continuation")
	}
	if numAtLineEnd.MatchString(src) {
		x.Class("number-before-line-end")
	}
	if strings.Contains(src, "\x00") {
		x.Class("has-nul")
	}
	for i := 0; i < len(src); i++ {
		if src[i] >= 0x80 {
			x.Class("has-high-byte")
			break
		}
	}
	if len(src) > 8000 {
		x.Class("big")
	}
}

var numAtLineEnd = regexp.MustCompile(`[0-9.][eE][+-]?\r?\n`)

func runParse(x *h.Ctx, c Case) string {
	src := string(c.Src)
	if len(src) > 32768 {
		x.Discard("longer than 32 KiB")
		return ""
	}
	x.Class("kind-" + c.Kind)
	classify(x, src)
	prog, err := parser.ParseProgram([]byte(src), nil) // a panic is caught by the harness and is a failure
	if err == nil {
		if prog == nil {
			return "ParseProgram returned neither a program nor an error"
		}
		x.Class("accepted")
		return ""
	}
	pe, ok := err.(*parser.ParseError)
	if !ok {
		x.Class("non-parse-error")
		return "" // e.g. compile error "program too large": an error value, allowed
	}
	x.Class("parse-error")
	starts := lineStarts(src)
	if !posValid(src, starts, pe.Position) {
		return fmt.Sprintf("ParseError position %d:%d does not exist in the source (%d lines; message %q)\nsource: %s",
			pe.Position.Line, pe.Position.Column, len(starts), pe.Message, h.Trunc(h.Q(src), 600))
	}
	if pe.Position.Line == len(starts) {
		x.Class("error-on-last-line")
	}
	if pe.Position.Column == 1 {
		x.Class("error-at-column-1")
	}
	x.Nontrivial("")
	return ""
}

// ---------------------------------------------------------------------------
// oracle (c): every token position is the true position of its first byte

func tokenText(tok lexer.Token, val string) []string {
	switch tok {
	case lexer.NAME, lexer.NUMBER:
		return []string{val}
	case lexer.STRING:
		return []string{`"`, `'`}
	case lexer.NEWLINE:
		return []string{"\n"}
	case lexer.POW:
		return []string{"^", "**"}
	case lexer.POW_ASSIGN:
		return []string{"^=", "**="}
	case lexer.REGEX:
		return []string{"/"}
	}
	return []string{tok.String()}
}

// regexAllowedAfter mirrors the grammar: a '/' starts a regex when it cannot
// be a division, i.e. the previous token does not end an operand.
func operandEnd(tok lexer.Token) bool {
	switch tok {
	case lexer.NAME, lexer.NUMBER, lexer.STRING, lexer.REGEX, lexer.RPAREN, lexer.RBRACKET, lexer.INCR, lexer.DECR, lexer.DOLLAR:
		return true
	}
	return tok >= lexer.FIRST_FUNC && tok <= lexer.LAST_FUNC
}

func runLex(x *h.Ctx, c Case) string {
	src := string(c.Src)
	if len(src) > 32768 {
		x.Discard("longer than 32 KiB")
		return ""
	}
	x.Class("kind-" + c.Kind)
	classify(x, src)
	starts := lineStarts(src)
	lex := lexer.NewLexer([]byte(src))
	prevEnd := 0
	ntok := 0
	prevTok := lexer.NEWLINE
	for {
		pos, tok, val := lex.Scan()
		if tok == lexer.EOF || tok == lexer.ILLEGAL {
			if !posValid(src, starts, pos) {
				return fmt.Sprintf("%v token reported at %d:%d, which does not exist in the source (%d lines)\nsource: %s", tok, pos.Line, pos.Column, len(starts), h.Trunc(h.Q(src), 600))
			}
			break
		}
		isRegex := false
		if (tok == lexer.DIV || tok == lexer.DIV_ASSIGN) && !operandEnd(prevTok) {
			// grammar position where the parser asks for a regex token
			rpos, rtok, rval := lex.ScanRegex()
			if rtok == lexer.ILLEGAL {
				if !posValid(src, starts, rpos) {
					return fmt.Sprintf("ILLEGAL regex token reported at %d:%d, which does not exist in the source\nsource: %s", rpos.Line, rpos.Column, h.Trunc(h.Q(src), 600))
				}
				break
			}
			if rpos != pos {
				return fmt.Sprintf("regex token reported at %d:%d but its first byte '/' is at %d:%d\nsource: %s", rpos.Line, rpos.Column, pos.Line, pos.Column, h.Trunc(h.Q(src), 600))
			}
			tok, val, isRegex = rtok, rval, true
			x.Class("regex-token")
		}
		ntok++
		off, ok := offsetOf(src, starts, pos.Line, pos.Column)
		if !ok {
			return fmt.Sprintf("token #%d %v %q reported at %d:%d, which does not exist in the source\nsource: %s", ntok, tok, val, pos.Line, pos.Column, h.Trunc(h.Q(src), 600))
		}
		want := skipBlank(src, prevEnd)
		if off != want {
			wl, wc := lineColOf(src, want)
			return fmt.Sprintf("token #%d %v %q reported at %d:%d (offset %d) but its first byte is at %d:%d (offset %d)\nsource: %s", ntok, tok, val, pos.Line, pos.Column, off, wl, wc, want, h.Trunc(h.Q(src), 600))
		}
		matched := -1
		for _, txt := range tokenText(tok, val) {
			if strings.HasPrefix(src[off:], txt) && len(txt) > matched {
				matched = len(txt)
			}
		}
		if matched < 0 {
			return fmt.Sprintf("token #%d %v %q reported at %d:%d but the source there reads %s\nsource: %s", ntok, tok, val, pos.Line, pos.Column, h.Q(h.Trunc(src[off:], 12)), h.Trunc(h.Q(src), 600))
		}
		switch {
		case isRegex:
			prevEnd = rawRegexEnd(src, off)
		case tok == lexer.STRING:
			prevEnd = rawStringEnd(src, off)
		default:
			prevEnd = off + matched
		}
		if prevEnd < 0 {
			return fmt.Sprintf("token #%d %v at %d:%d: the lexer returned a complete token but the source has no terminator\nsource: %s", ntok, tok, pos.Line, pos.Column, h.Trunc(h.Q(src), 600))
		}
		prevTok = tok
	}
	if ntok >= 3 {
		x.Nontrivial("")
	}
	return ""
}

func lineColOf(src string, off int) (int, int) {
	line, col := 1, 1
	for i := 0; i < off && i < len(src); i++ {
		if src[i] == '\n' {
			line++
			col = 1
		} else if src[i] != '\r' {
			col++
		}
	}
	return line, col
}

// ---------------------------------------------------------------------------
// oracle (d): the command line tool shows the offending line

var firstLineRE = regexp.MustCompile(`^(.*):(\d+):(\d+): `)

func runCLI(x *h.Ctx, c Case) string {
	src := string(c.Src)
	if len(src) > 32768 {
		x.Discard("longer than 32 KiB")
		return ""
	}
	if _, err := parser.ParseProgram([]byte(src), nil); err == nil {
		x.Discard("program is accepted")
		return ""
	} else if _, ok := err.(*parser.ParseError); !ok {
		x.Discard("not a ParseError")
		return ""
	}
	mode := c.CLI
	if mode == "" {
		mode = "file"
	}
	if mode == "cmdline" && (strings.Contains(src, "\x00") || len(src) == 0 || strings.HasPrefix(src, "-")) {
		mode = "file"
	}
	dir := h.TempDir("c03cli")
	defer os.RemoveAll(dir)
	var args []string
	var full string // the source the tool parses (files joined, newline-terminated)
	switch mode {
	case "file":
		p := filepath.Join(dir, "prog.awk")
		os.WriteFile(p, []byte(src), 0o644)
		args = []string{"-f", p}
		full = src
	case "two-files":
		st := lineStarts(src)
		cut := st[c.Cut%len(st)]
		p1, p2 := filepath.Join(dir, "a.awk"), filepath.Join(dir, "b.awk")
		os.WriteFile(p1, []byte(src[:cut]), 0o644)
		os.WriteFile(p2, []byte(src[cut:]), 0o644)
		args = []string{"-f", p1, "-f", p2}
		full = src[:cut]
		if !strings.HasSuffix(full, "\n") {
			full += "\n" // the tool terminates every file with a newline
		}
		full += src[cut:]
	case "cmdline":
		args = []string{src}
		full = src
	}
	if !strings.HasSuffix(full, "\n") {
		full += "\n"
	}
	// the verdict must be about the source the tool really parses
	_, perr := parser.ParseProgram([]byte(full), nil)
	pe, ok := perr.(*parser.ParseError)
	if !ok {
		x.Discard("joined source is accepted")
		return ""
	}
	x.Class("cli-" + mode)
	cmd := exec.Command(h.GoawkBin, args...)
	cmd.Stdin = strings.NewReader("")
	var stdout, stderr bytes.Buffer
	cmd.Stdout = &stdout
	cmd.Stderr = &stderr
	err := cmd.Run()
	status := 0
	if ee, ok := err.(*exec.ExitError); ok {
		status = ee.ExitCode()
	} else if err != nil {
		x.Discard("cannot run goawk: " + err.Error())
		return ""
	}
	es := stderr.String()
	describe := func() string {
		return fmt.Sprintf("mode %s, parse error %d:%d %q\nexit status %d\nstderr: %s\nsource: %s", mode, pe.Position.Line, pe.Position.Column, pe.Message, status, h.Trunc(es, 1200), h.Trunc(h.Q(full), 600))
	}
	if strings.Contains(es, "panic:") || strings.Contains(es, "goroutine ") {
		return "goawk panicked while reporting a parse error\n" + describe()
	}
	if status != 1 {
		return "goawk did not exit with status 1 on a parse error\n" + describe()
	}
	lines := strings.SplitN(es, "\n", 3)
	if len(lines) < 3 {
		return "goawk did not print the error line and the offending source line\n" + describe()
	}
	m := firstLineRE.FindStringSubmatch(lines[0])
	if m == nil {
		return "first stderr line is not <name>:<line>:<col>: <message>\n" + describe()
	}
	if m[3] != fmt.Sprint(pe.Position.Column) {
		return "column shown differs from the parse error's column\n" + describe()
	}
	// the file and the line within it, for positions inside a file (a position past the last line -- an
	// error at the end of the input -- belongs to no file, and what the tool prints then is not judged)
	if nl := strings.Count(full, "\n"); pe.Position.Line <= nl {
		wantName, wantLine := "", pe.Position.Line
		switch mode {
		case "file":
			wantName = args[1]
		case "two-files":
			first := strings.Count(src[:lineStarts(src)[c.Cut%len(lineStarts(src))]], "\n")
			if cut := lineStarts(src)[c.Cut%len(lineStarts(src))]; !strings.HasSuffix(src[:cut], "\n") {
				first++ // the tool terminates every file with a newline (an empty first file is one empty line)
			}
			if pe.Position.Line <= first {
				wantName = args[1]
			} else {
				wantName, wantLine = args[3], pe.Position.Line-first
			}
		}
		if wantName != "" && (m[1] != wantName || m[2] != fmt.Sprint(wantLine)) {
			return fmt.Sprintf("the error is reported at %s:%s, the position %d:%d of the joined source lies at %s:%d\n%s", m[1], m[2], pe.Position.Line, pe.Position.Column, wantName, wantLine, describe())
		}
	}
	srcLines := strings.Split(full, "\n")
	if pe.Position.Line < 1 || pe.Position.Line > len(srcLines) {
		return "parse error line outside the source\n" + describe()
	}
	wantLine := strings.ReplaceAll(srcLines[pe.Position.Line-1], "\t", "    ")
	// the source line may itself contain NUL or CR; compare up to what a line of stderr holds
	gotLine := lines[1]
	if cr := strings.IndexByte(wantLine, '\n'); cr >= 0 {
		wantLine = wantLine[:cr]
	}
	if gotLine != wantLine {
		return fmt.Sprintf("offending line shown is %s, the source line is %s\n%s", h.Q(gotLine), h.Q(wantLine), describe())
	}
	x.Nontrivial("")
	return ""
}

// ---------------------------------------------------------------------------
// exhaustive: all short strings over a hostile alphabet

var shortAlphabet = []string{"1", "e", "+", "\n", "\r", "\\", "\"", "/", " ", "x", "{", "#"}

func enumShort(thorough bool, yield func(Case) bool) {
	maxLen := 4
	if thorough {
		maxLen = 5
	}
	var rec func(prefix string, n int) bool
	rec = func(prefix string, n int) bool {
		if !yield(Case{Src: h.Str(prefix), Kind: "short"}) {
			return false
		}
		if n == maxLen {
			return true
		}
		for _, a := range shortAlphabet {
			if !rec(prefix+a, n+1) {
				return false
			}
		}
		return true
	}
	rec("", 0)
}

func runBoth(x *h.Ctx, c Case) string {
	if msg := runParse(x, c); msg != "" {
		return msg
	}
	// also as the body of a BEGIN block, so that the string is reached in statement context
	wrapped := Case{Src: "BEGIN { x = " + c.Src, Kind: c.Kind}
	if msg := runParse(x, wrapped); msg != "" {
		return msg
	}
	if msg := runLex(x, wrapped); msg != "" {
		return msg
	}
	return runLex(x, c)
}

func init() {
	h.PropIsolated("parse_total_position", 120000, 1600000, genCase, runParse)
	h.Prop("lexer_token_positions", 120000, 1600000, genCase, runLex)
	h.Prop("cli_shows_error_line", 2400, 30000, genCLICase, runCLI)
	h.Enum("short_strings_exhaustive", enumShort, runBoth)
}
