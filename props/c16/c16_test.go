// C16 — scalar/array typing is sound, exact and independent of declaration order.
package c16

import (
	"bytes"
	"fmt"
	"os"
	"regexp"
	"strings"
	"testing"

	"github.com/benhoyt/goawk/interp"
	"github.com/benhoyt/goawk/parser"
	"pgregory.net/rapid"

	"verif/lib/awkgen"
	"verif/lib/h"
)

func TestMain(m *testing.M)   { h.Main(m, "C16") }
func TestAll(t *testing.T)    { h.RunAll(t) }
func TestReplay(t *testing.T) { h.Replay(t) }

type Variant struct {
	Order  []int      `json:"order"`
	Func   []string   `json:"func"`
	Param  [][]string `json:"param"`
	Global []string   `json:"global"`
}

type Case struct {
	Prog     *awkgen.TProg `json:"prog"`
	Variants []Variant     `json:"variants"`
}

var namePool = []string{"a", "b", "c", "d", "e", "f", "g", "h", "aa", "zz", "m1", "m2", "q", "r", "s", "t", "u", "v", "w", "x", "y", "z", "A", "B", "Z", "_", "_1", "foo", "bar", "arr", "n", "k"}

func genCase(t *rapid.T) Case {
	p := awkgen.GenTProg(t)
	c := Case{Prog: p}
	def := awkgen.DefaultNaming(p)
	// shadowing: a parameter takes the name of a global
	if p.NGlobals > 0 && rapid.IntRange(0, 3).Draw(t, "shadow") == 0 {
		for i := range def.Param {
			if len(def.Param[i]) > 0 && rapid.Bool().Draw(t, "sh") {
				g := rapid.IntRange(0, p.NGlobals-1).Draw(t, "shg")
				if usesGlobal(p.Funcs[i].Body, g) {
					continue // the body refers to that global: a parameter of the same name would capture the reference
				}
				def.Param[i][rapid.IntRange(0, len(def.Param[i])-1).Draw(t, "shp")] = def.Global[g]
				// parameter names within one function must stay distinct
				seen := map[string]bool{}
				for j, n := range def.Param[i] {
					if seen[n] {
						def.Param[i][j] = fmt.Sprintf("p%d", j)
					}
					seen[def.Param[i][j]] = true
				}
			}
		}
	}
	c.Variants = append(c.Variants, Variant{Order: def.Order, Func: def.Func, Param: def.Param, Global: def.Global})
	// permutations of the top-level items
	for _, perm := range awkgen.Permutations(t, len(p.Funcs)+1, 5) {
		c.Variants = append(c.Variants, Variant{Order: perm, Func: def.Func, Param: def.Param, Global: def.Global})
	}
	// consistent renamings: functions, globals and parameters all get fresh distinct names
	for r := 0; r < 2; r++ {
		names := rapid.Permutation(namePool).Draw(t, "names")
		v := Variant{Order: c.Variants[rapid.IntRange(0, len(c.Variants)-1).Draw(t, "rorder")].Order}
		k := 0
		next := func() string { k++; return names[k-1] }
		for range p.Funcs {
			v.Func = append(v.Func, next()+"fn")
		}
		for g := 0; g < p.NGlobals; g++ {
			v.Global = append(v.Global, next())
		}
		// parameters: renamed per function with a consistent bijection of the default names (keeps shadowing structure)
		ren := map[string]string{}
		for g := 0; g < p.NGlobals; g++ {
			ren[def.Global[g]] = v.Global[g]
		}
		for i := range def.Param {
			var ps []string
			for _, n := range def.Param[i] {
				if _, ok := ren[n]; !ok {
					ren[n] = next()
				}
				ps = append(ps, ren[n])
			}
			v.Param = append(v.Param, ps)
		}
		c.Variants = append(c.Variants, v)
	}
	// parameters named like special variables (goawk accepts that): inside the function the name is the parameter
	if rapid.Bool().Draw(t, "specialnames") {
		specials := rapid.Permutation([]string{"NR", "FNR", "FS", "OFS", "ORS", "RS", "SUBSEP", "RSTART", "RLENGTH", "CONVFMT", "OFMT", "FILENAME", "RT", "ARGC"}).Draw(t, "specials")
		v := Variant{Order: def.Order, Func: def.Func, Global: def.Global}
		isGlobal := map[string]bool{}
		for _, g := range def.Global {
			isGlobal[g] = true
		}
		for i := range def.Param {
			var ps []string
			for j, n := range def.Param[i] {
				if isGlobal[n] || j >= len(specials) {
					ps = append(ps, n) // keeps shadowing a global
				} else {
					ps = append(ps, specials[(i+j)%len(specials)])
				}
			}
			// distinct within the function
			seen := map[string]bool{}
			for j := range ps {
				if seen[ps[j]] {
					ps[j] = def.Param[i][j]
				}
				seen[ps[j]] = true
			}
			v.Param = append(v.Param, ps)
		}
		c.Variants = append(c.Variants, v)
	}
	return c
}

func usesGlobal(body []awkgen.TStmt, g int) bool {
	gv := awkgen.TVar{Func: -1, Idx: g}
	for _, st := range body {
		if st.Kind != "call" && st.V == gv {
			return true
		}
		for _, a := range st.Args {
			if a.Kind != "const" && a.V == gv {
				return true
			}
		}
	}
	return false
}

var typeErrRE = regexp.MustCompile(`scalar|array`)

func run(x *h.Ctx, c Case) string {
	in := awkgen.Infer(c.Prog)
	want, ok := "", true
	if !in.Conflict {
		want, ok = awkgen.Eval(c.Prog, in, "goawk", map[string]string{"A": "1"})
		if !ok {
			x.Discard("model step budget exhausted")
			return ""
		}
	}
	var firstOut string
	for vi, v := range c.Variants {
		n := &awkgen.Naming{Func: v.Func, Param: v.Param, Global: v.Global, Order: v.Order}
		src := n.Render(c.Prog)
		// every second spelling is parsed and run with Go functions registered under the names of the program's own
		// functions (and of two names it does not use), with other arities: functions defined in AWK take
		// precedence over Funcs entries of the same name, so neither the verdict nor the behaviour may change
		var pcfg *parser.ParserConfig
		var shadow map[string]any
		if vi%2 == 1 {
			shadow = map[string]any{"unused_native_": func(a, b float64) float64 { return a + b }, "zz_unused_native_": func(s ...string) int { return len(s) }}
			for fi, name := range v.Func {
				switch fi % 3 {
				case 0:
					shadow[name] = func() {}
				case 1:
					shadow[name] = func(a, b, c, d, e, f, g, h float64) float64 { return a }
				default:
					shadow[name] = func(s string, rest ...float64) string { return s }
				}
			}
			pcfg = &parser.ParserConfig{Funcs: shadow}
			x.Class("go-functions-under-the-same-names")
		}
		prog, err := parser.ParseProgram([]byte(src), pcfg)
		if err != nil {
			pe, isPE := err.(*parser.ParseError)
			if !isPE {
				return fmt.Sprintf("variant %d: ParseProgram returned a non-parse error: %v\n%s", vi, err, src)
			}
			if !typeErrRE.MatchString(pe.Message) {
				return fmt.Sprintf("variant %d: rejected with an error that is not a scalar/array type error: %v\n(the generator only produces syntactically valid programs with defined functions)\n%s", vi, err, src)
			}
			if !in.Conflict {
				return fmt.Sprintf("variant %d: program rejected (%v) although no variable has to be both scalar and array under the usage constraints\n%s", vi, err, src)
			}
			continue
		}
		if in.Conflict {
			return fmt.Sprintf("variant %d: program accepted although some variable must be both a scalar and an array (independent inference finds a conflict)\n%s", vi, src)
		}
		var out bytes.Buffer
		status, err := interp.ExecProgram(prog, &interp.Config{
			Stdin: strings.NewReader(""), Output: &out, Error: &out, Argv0: "goawk",
			Environ: []string{"A", "1"}, NoExec: true, NoFileWrites: true, NoFileReads: true, Funcs: shadow,
		})
		if err != nil {
			return fmt.Sprintf("variant %d: accepted program fails at run time: %v\n%s\noutput so far:\n%s", vi, err, src, out.String())
		}
		if status != 0 {
			return fmt.Sprintf("variant %d: unexpected exit status %d\n%s", vi, status, src)
		}
		if vi == 0 {
			firstOut = out.String()
		} else if out.String() != firstOut {
			return fmt.Sprintf("variant %d behaves differently from variant 0 (reordering/renaming changed behaviour)\n--- variant 0 output:\n%s--- variant %d output:\n%s--- variant %d source:\n%s", vi, firstOut, vi, out.String(), vi, src)
		}
		if out.String() != want {
			return fmt.Sprintf("variant %d: output differs from the reference evaluation (arrays by reference, scalars by value, missing array arguments fresh)\n--- expected:\n%s--- got:\n%s--- source:\n%s", vi, want, out.String(), src)
		}
	}
	if in.Conflict {
		x.Class("rejected")
		if in.ViaCall {
			x.Class("conflict-through-call")
		}
	} else {
		x.Class("accepted")
	}
	if len(c.Prog.Funcs) >= 2 && (!in.Conflict || in.ViaCall) && hasTransitive(c.Prog, in) {
		x.Nontrivial("")
	}
	return ""
}

// hasTransitive: some parameter's type is determined although the function
// itself has no direct use of it (it gets its type through a call).
func hasTransitive(p *awkgen.TProg, in *awkgen.Inference) bool {
	for fi, f := range p.Funcs {
		for pi := 0; pi < f.NParams; pi++ {
			v := awkgen.TVar{Func: fi, Idx: pi}
			if in.TypeOf(v) == awkgen.TUnknown {
				continue
			}
			direct := false
			for _, st := range f.Body {
				if st.Kind != "call" && st.Kind != "length" && st.V == v {
					direct = true
				}
			}
			if !direct {
				return true
			}
		}
	}
	return false
}

// ---------------------------------------------------------------------------
// "arrays passed to functions are shared by reference": every way of writing to
// (or reading from) an array, applied to an array parameter 1-3 calls deep,
// must leave the caller's array exactly as applying it directly does.

type RefCase struct {
	Form     int  `json:"form"`
	Depth    int  `json:"depth"`     // how many functions the array is passed through
	Local    bool `json:"local"`     // the array is a local of the calling function rather than a global
	ArrFirst bool `json:"arr_first"` // position of the array among the parameters
	Other    bool `json:"other"`     // a second, unrelated array exists (so that index 0 is not the only array)
}

var arrayOps = []string{
	`X["new"] = 1`, `X[1]++`, `X[1] += 2`, `delete X["k"]`, `delete X`, `n = split("p q r", X)`, `sub(/k/, "K", X["k"])`, `gsub(/v/, "V", X["k"])`,
	`getline X["new"]`, `getline X["new"] < F`, `X["new"]`, `r = ("z" in X)`, `for (q in X) delete X[q]`, `X[2] = X[1] X["k"]`, `n = split("a:b", X, ":")`,
	`X[1] = length(X)`, `$0 = "f1 f2"; X["new"] = $2`, `getline X[1]; getline X[2] < F`, `X[X[1]] = X["k"]`, `while ((getline X[++cnt] < F) > 0) ;`,
}

func enumRef(thorough bool, yield func(RefCase) bool) {
	for f := range arrayOps {
		for d := 1; d <= 3; d++ {
			for _, local := range []bool{false, true} {
				for _, first := range []bool{true, false} {
					for _, other := range []bool{false, true} {
						if !yield(RefCase{Form: f, Depth: d, Local: local, ArrFirst: first, Other: other}) {
							return
						}
					}
				}
			}
		}
	}
}

const refDump = `function dump(A,   i, k) { printf "len=%d", length(A); n_ = split("k 1 2 3 new x z", ks_, " "); for (i = 1; i <= n_; i++) { k = ks_[i]; if (k in A) printf " %s=<%s>", k, A[k] } printf "\n" }`

func refProgram(c RefCase, via bool) string {
	var sb strings.Builder
	sb.WriteString(refDump + "\n")
	op := arrayOps[c.Form]
	arr := "G"
	if c.Local {
		arr = "loc"
	}
	apply := strings.ReplaceAll(op, "X", arr)
	if via {
		for d := 1; d <= c.Depth; d++ {
			pname := fmt.Sprintf("a%d", d)
			params := pname + ", s"
			if !c.ArrFirst {
				params = "s, " + pname
			}
			body := strings.ReplaceAll(op, "X", pname)
			if d > 1 {
				inner := fmt.Sprintf("a%d, s", d)
				if !c.ArrFirst {
					inner = fmt.Sprintf("s, a%d", d)
				}
				body = fmt.Sprintf("w%d(%s)", d-1, inner)
			}
			fmt.Fprintf(&sb, "function w%d(%s,   n, r, q) { %s }\n", d, params, body)
		}
		args := arr + ", 7"
		if !c.ArrFirst {
			args = "7, " + arr
		}
		apply = fmt.Sprintf("w%d(%s)", c.Depth, args)
	}
	other := ""
	if c.Other {
		other = `AA["o"] = "other"; ZZ["o"] = "other"; `
	}
	setup := fmt.Sprintf(`%s%s["k"] = "kv"; %s[1] = 5; `, other, arr, arr)
	tail := ""
	if c.Other {
		tail = "; dump(AA); dump(ZZ); dump(ARGV)"
	}
	if c.Local {
		fmt.Fprintf(&sb, "function outer(   loc, n, r, q) { %s%s; dump(loc)%s }\nBEGIN { outer() }\n", setup, apply, tail)
	} else {
		fmt.Fprintf(&sb, "BEGIN { %s%s; dump(G)%s }\n", setup, apply, tail)
	}
	return sb.String()
}

func runRef(x *h.Ctx, c RefCase) string {
	dir := h.TempDir("c16r")
	defer os.RemoveAll(dir)
	side := dir + "/side"
	os.WriteFile(side, []byte("file-line-1\nfile-line-2\n"), 0o644)
	exec := func(src string) (string, string) {
		prog, err := parser.ParseProgram([]byte(src), nil)
		if err != nil {
			return "", "parse: " + err.Error()
		}
		var out bytes.Buffer
		_, err = interp.ExecProgram(prog, &interp.Config{Stdin: strings.NewReader("stdin-line-1\nstdin-line-2\n"), Output: &out, Error: &out, Argv0: "goawk", Args: []string{}, Environ: []string{}, Vars: []string{"F", side}, NoExec: true, NoFileWrites: true})
		if err != nil {
			return out.String(), "run: " + err.Error()
		}
		return out.String(), ""
	}
	direct, viaSrc := refProgram(c, false), refProgram(c, true)
	o1, e1 := exec(direct)
	o2, e2 := exec(viaSrc)
	if e1 != "" {
		return fmt.Sprintf("harness: the direct program fails: %s\n%s", e1, direct)
	}
	if e2 != "" || o1 != o2 {
		return fmt.Sprintf("an operation on an array parameter does not act on the caller's array as the direct operation does\n--- direct:\n%s--- output:\n%s--- through %d function(s):\n%s--- output (%s):\n%s", direct, o1, c.Depth, viaSrc, e2, o2)
	}
	x.Nontrivial("")
	return ""
}

// ---------------------------------------------------------------------------
// long pass-through chains: a consistent program is accepted however long the
// path an array type has to travel (down a chain, up a chain, around a cycle),
// and an inconsistent one is rejected.

type ChainCase struct {
	N      int    `json:"n"`
	Shape  string `json:"shape"` // down (type known at the caller) | up (type known at the last callee) | cycle
	Broken bool   `json:"broken"`
	Rev    bool   `json:"rev"` // definitions in reverse order
}

func enumChain(thorough bool, yield func(ChainCase) bool) {
	for _, n := range []int{2, 3, 10, 50, 99, 100, 101, 102, 150, 300} {
		for _, shape := range []string{"down", "up", "cycle"} {
			for _, broken := range []bool{false, true} {
				for _, rev := range []bool{false, true} {
					if !yield(ChainCase{N: n, Shape: shape, Broken: broken, Rev: rev}) {
						return
					}
				}
			}
		}
	}
}

func runChain(x *h.Ctx, c ChainCase) string {
	var defs []string
	for i := 0; i < c.N; i++ {
		switch {
		case i == c.N-1 && c.Shape == "down":
			defs = append(defs, fmt.Sprintf("function f%d(a) { return length(a) }", i))
		case i == c.N-1 && c.Shape == "up":
			defs = append(defs, fmt.Sprintf("function f%d(a) { a[1] = 1; return length(a) }", i))
		case i == c.N-1: // cycle: the last calls the first again (guarded), and uses the array
			defs = append(defs, fmt.Sprintf("function f%d(a) { if (0) f0(a); a[2] = 2; return length(a) }", i))
		default:
			defs = append(defs, fmt.Sprintf("function f%d(a) { return f%d(a) }", i, i+1))
		}
	}
	if c.Rev {
		for i, j := 0, len(defs)-1; i < j; i, j = i+1, j-1 {
			defs[i], defs[j] = defs[j], defs[i]
		}
	}
	main := "BEGIN { x[1] = 1; x[2] = 2; print f0(x) }"
	if c.Shape == "up" {
		main = "BEGIN { print f0(x); print length(x) }"
	}
	if c.Broken {
		main += "\nBEGIN { x = 5 }" // x is an array everywhere else
	}
	src := strings.Join(defs, "\n") + "\n" + main + "\n"
	_, err := parser.ParseProgram([]byte(src), nil)
	switch {
	case c.Broken && err == nil:
		return fmt.Sprintf("a program that uses x both as an array (through a chain of %d functions, shape %s) and as a scalar is accepted", c.N, c.Shape)
	case !c.Broken && err != nil:
		return fmt.Sprintf("a consistent program is rejected: %v\n(an array passed through a chain of %d functions, shape %s, reversed definitions: %v)\nfirst lines:\n%s", err, c.N, c.Shape, c.Rev, h.Trunc(src, 400))
	}
	if c.N >= 50 {
		x.Nontrivial("")
	}
	return ""
}

func init() {
	h.Enum("long_pass_through_chains", enumChain, runChain)
	h.Prop("verdict_behaviour_invariance", 24000, 400000, genCase, run)
	h.Enum("array_parameter_operations", enumRef, runRef)
}

// ---------------------------------------------------------------------------
// local arrays under re-entry: every activation of a function owns its local
// arrays (array parameters the caller did not supply); arrays handed down are
// shared by reference.  Recursion shapes with a closed-form expected result.

type ReentryCase struct {
	Shape  string `json:"shape"`  // tree | mutual | linear
	Depth  int    `json:"depth"`  // 1..4
	Branch int    `json:"branch"` // calls per activation (tree, mutual): 1..3
	ByRef  bool   `json:"byref"`  // each activation also hands its local array to a helper that adds an entry
	Later  bool   `json:"later"`  // the local array is first touched only after the inner calls returned
}

func genReentry(t *rapid.T) ReentryCase {
	return ReentryCase{Shape: rapid.SampledFrom([]string{"tree", "tree", "mutual", "linear"}).Draw(t, "shape"), Depth: rapid.IntRange(1, 4).Draw(t, "depth"),
		Branch: rapid.IntRange(1, 3).Draw(t, "branch"), ByRef: rapid.Bool().Draw(t, "byref"), Later: rapid.Bool().Draw(t, "later")}
}

func runReentry(x *h.Ctx, c ReentryCase) string {
	b := c.Branch
	if c.Shape == "linear" {
		b = 1
	}
	other := "t"
	if c.Shape == "mutual" {
		other = "u"
	}
	pre, post := `loc["id"] = id; loc[d] = d * 10 + 1; `, ""
	if c.Later {
		pre, post = "", `loc["id"] = id; loc[d] = d * 10 + 1; `
	}
	byref := ""
	if c.ByRef {
		byref = `add(loc, "extra" d); `
	}
	body := func(self, callee string) string {
		return fmt.Sprintf(`function %s(d, id,    loc, i, s) {
  %s%sfor (i = 1; i <= %d; i++) if (d > 0) s = s %s(d - 1, id "." i)
  %sreturn "(" id ":" loc["id"] ":" loc[d] ":" length(loc) s ")"
}
`, self, pre, byref, b, callee, post)
	}
	src := "function add(arr, k) { arr[k] = 1 }\n" + body("t", other)
	if c.Shape == "mutual" {
		src += body("u", "t")
	}
	src += fmt.Sprintf("BEGIN { print t(%d, \"r\"); print t(1, \"again\") }\n", c.Depth)
	var node func(d int, id string) string
	node = func(d int, id string) string {
		n := 2
		if c.ByRef {
			n = 3
		}
		var kids strings.Builder
		for i := 1; i <= b && d > 0; i++ {
			kids.WriteString(node(d-1, fmt.Sprintf("%s.%d", id, i)))
		}
		return fmt.Sprintf("(%s:%s:%d:%d%s)", id, id, d*10+1, n, kids.String())
	}
	want := node(c.Depth, "r") + "\n" + node(1, "again") + "\n"
	prog, err := parser.ParseProgram([]byte(src), nil)
	if err != nil {
		return fmt.Sprintf("a program whose only arrays are locals and a by-reference helper is rejected: %v\n%s", err, src)
	}
	var out bytes.Buffer
	if _, err := interp.ExecProgram(prog, &interp.Config{Stdin: strings.NewReader(""), Output: &out, Error: &out, Environ: []string{}}); err != nil {
		return fmt.Sprintf("run-time error: %v\n%s", err, src)
	}
	if out.String() != want {
		return fmt.Sprintf("local arrays of nested activations interfere (each activation owns its local arrays; arrays handed down are shared)\nprogram:\n%s\ngoawk: %s\nwant:  %s", src, out.String(), want)
	}
	x.Class("shape-" + c.Shape)
	if c.Depth >= 2 && (b >= 2 || c.Shape == "mutual") {
		x.Nontrivial("")
	}
	return ""
}

func init() {
	h.Prop("local_arrays_under_reentry", 400, 4000, genReentry, runReentry)
}
