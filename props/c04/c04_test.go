// C04 — expressions group by the POSIX precedence and associativity table.
package c04

import (
	"fmt"
	"strings"
	"testing"

	"pgregory.net/rapid"

	"verif/lib/awk"
	"verif/lib/awkgen"
	"verif/lib/h"
)

func TestMain(m *testing.M)   { h.Main(m, "C04") }
func TestAll(t *testing.T)    { h.RunAll(t) }
func TestReplay(t *testing.T) { h.Replay(t) }

// ---------------------------------------------------------------------------

type Case struct {
	Tree *awk.Node `json:"tree"`
	Ctx  string    `json:"ctx"` // stmt | print | pattern | cond
	Desc string    `json:"desc,omitempty"`
}

var contexts = []string{"stmt", "print", "pattern", "cond"}

// the positions where a builtin takes a regular expression: the argument is an ordinary expression there too
var argContexts = []string{"arg-split", "arg-sub", "arg-match", "arg-gsub"}

func wrap(ctx, s string) string {
	switch ctx {
	case "stmt":
		return "BEGIN { " + s + " }\n" + awkgen.FuncF
	case "print":
		return "BEGIN { print " + s + " }\n" + awkgen.FuncF
	case "pattern":
		return s + " { }\n" + awkgen.FuncF
	case "cond":
		return "BEGIN { if (" + s + ") x }\n" + awkgen.FuncF
	case "arg-split":
		return "BEGIN { split(s, parts, " + s + ") }\n" + awkgen.FuncF
	case "arg-sub":
		return "BEGIN { sub(" + s + ", r, t) }\n" + awkgen.FuncF
	case "arg-gsub":
		return "BEGIN { gsub(" + s + ", r) }\n" + awkgen.FuncF
	case "arg-match":
		return "BEGIN { match(s, " + s + ") }\n" + awkgen.FuncF
	}
	panic("bad ctx " + ctx)
}

func extract(ctx string, p *awk.Program) (*awk.Node, string) {
	switch ctx {
	case "stmt", "cond":
		if len(p.Begin) != 1 || len(p.Begin[0]) != 1 {
			return nil, "expected exactly one statement in BEGIN"
		}
		s := p.Begin[0][0]
		if ctx == "stmt" && s.K != awk.ExprStmt || ctx == "cond" && s.K != awk.If {
			return nil, "unexpected statement kind " + s.K
		}
		return s.A[0], ""
	case "print":
		if len(p.Begin) != 1 || len(p.Begin[0]) != 1 || p.Begin[0][0].K != awk.Print {
			return nil, "expected exactly one print statement"
		}
		s := p.Begin[0][0]
		if s.Dest != nil {
			return nil, "the expression was split into print arguments and a redirection " + s.Op
		}
		if len(s.A) != 1 {
			return nil, fmt.Sprintf("print got %d arguments, expected 1", len(s.A))
		}
		return s.A[0], ""
	case "arg-split", "arg-sub", "arg-gsub", "arg-match":
		if len(p.Begin) != 1 || len(p.Begin[0]) != 1 || p.Begin[0][0].K != awk.ExprStmt || p.Begin[0][0].A[0].K != awk.Call {
			return nil, "expected exactly one builtin call statement in BEGIN"
		}
		call := p.Begin[0][0].A[0]
		idx, n := map[string]int{"arg-split": 2, "arg-sub": 0, "arg-gsub": 0, "arg-match": 1}[ctx], map[string]int{"arg-split": 3, "arg-sub": 3, "arg-gsub": 2, "arg-match": 2}[ctx]
		if len(call.A) != n {
			return nil, fmt.Sprintf("%s got %d arguments, expected %d", call.Name, len(call.A), n)
		}
		return call.A[idx], ""
	case "pattern":
		if len(p.Actions) != 1 || len(p.Actions[0].Pattern) != 1 {
			return nil, "expected one rule with one pattern"
		}
		return p.Actions[0].Pattern[0], ""
	}
	return nil, "bad ctx"
}

func render(tree *awk.Node, ctx string, m awk.Mode) string {
	r := awk.NewRenderer(m)
	if ctx == "print" {
		return r.PrintArg(tree)
	}
	return r.Expr(tree)
}

var elide = awk.CanonOpt{ElideGroups: true}

func countOps(n *awk.Node) int {
	c := 0
	awk.Walk(n, func(m *awk.Node) {
		switch m.K {
		case awk.Unary, awk.Binary, awk.In, awk.Cond, awk.Assign, awk.Incr, awk.Field:
			c++
		}
	})
	return c
}

func runTree(x *h.Ctx, c Case) string {
	if !awkgen.ValidTree(c.Tree) {
		x.Discard("post-increment on $$ (documented deviation)")
		return ""
	}
	minS := render(c.Tree, c.Ctx, awk.Minimal)
	fullS := render(c.Tree, c.Ctx, awk.Full)
	want := awk.Canon(c.Tree, elide)
	var got [2]string
	for i, s := range []string{minS, fullS} {
		which := []string{"minimally", "fully"}[i]
		_, p, err := awk.Parse(wrap(c.Ctx, s))
		if err != nil {
			if _, isConv := err.(interface{ Error() string }); isConv && strings.HasPrefix(err.Error(), "awk.FromGoawk") {
				x.Discard("unknown AST node type")
				return ""
			}
			return fmt.Sprintf("the %s parenthesised text does not parse: %v\ntree:    %s\nminimal: %s\nfull:    %s\ncontext: %s", which, err, want, minS, fullS, c.Ctx)
		}
		e, why := extract(c.Ctx, p)
		if e == nil {
			return fmt.Sprintf("the %s parenthesised text parses to a different statement shape: %s\ntree:    %s\nminimal: %s\nfull:    %s\ncontext: %s", which, why, want, minS, fullS, c.Ctx)
		}
		got[i] = awk.Canon(e, elide)
	}
	if got[0] != got[1] {
		return fmt.Sprintf("minimal and full parenthesisation parse to different trees\nminimal: %s\n   ->    %s\nfull:    %s\n   ->    %s\ncontext: %s", minS, got[0], fullS, got[1], c.Ctx)
	}
	if got[0] != want {
		return fmt.Sprintf("both texts parse to a tree that is not the one rendered\ntree:    %s\nparsed:  %s\nminimal: %s\nfull:    %s\ncontext: %s", want, got[0], minS, fullS, c.Ctx)
	}
	x.Class("ctx-" + c.Ctx)
	if minS != fullS && countOps(c.Tree) >= 2 {
		x.Nontrivial(c.Ctx + "|" + want)
	}
	return ""
}

// ---------------------------------------------------------------------------
// exhaustive pairs and triples

func leafFor(k *int, lvalue bool) *awk.Node {
	*k++
	return awkgen.Leaf(*k, lvalue)
}

// buildChain builds outer(…, mid(…, inner(leaves), …), …) for the given slot choices.
func buildChain(ops []awkgen.OpSpec, slots []int, variant int) *awk.Node {
	k := variant * 7
	var build func(level int) *awk.Node
	build = func(level int) *awk.Node {
		o := ops[level]
		kids := make([]*awk.Node, o.Slots)
		for i := range kids {
			if level+1 < len(ops) && i == slots[level] {
				kids[i] = build(level + 1)
			} else {
				kids[i] = leafFor(&k, o.LSlots[i])
			}
		}
		return o.Build(kids...)
	}
	return build(0)
}

func chainOK(ops []awkgen.OpSpec, slots []int) bool {
	for l := 0; l+1 < len(ops); l++ {
		if ops[l].LSlots[slots[l]] && !ops[l+1].ProducesLValue() {
			return false
		}
	}
	return true
}

func enumPairs(thorough bool, yield func(Case) bool) {
	for _, o := range awkgen.Ops {
		for s := 0; s < o.Slots; s++ {
			for _, in := range awkgen.Ops {
				ops := []awkgen.OpSpec{o, in}
				sl := []int{s}
				if !chainOK(ops, sl) {
					continue
				}
				for v := 0; v < 3; v++ {
					tree := buildChain(ops, sl, v)
					for _, ctx := range contexts {
						if !yield(Case{Tree: tree, Ctx: ctx, Desc: fmt.Sprintf("%s[%d]<-%s", o.Name, s, in.Name)}) {
							return
						}
					}
				}
			}
		}
	}
}

func enumTriples(thorough bool, yield func(Case) bool) {
	idx := 0
	for _, o := range awkgen.Ops {
		for s1 := 0; s1 < o.Slots; s1++ {
			for _, mid := range awkgen.Ops {
				for s2 := 0; s2 < mid.Slots; s2++ {
					for _, in := range awkgen.Ops {
						ops := []awkgen.OpSpec{o, mid, in}
						sl := []int{s1, s2}
						if !chainOK(ops, sl) {
							continue
						}
						idx++
						tree := buildChain(ops, sl, idx%3)
						for _, ctx := range contexts {
							if !yield(Case{Tree: tree, Ctx: ctx, Desc: fmt.Sprintf("%s[%d]<-%s[%d]<-%s", o.Name, s1, mid.Name, s2, in.Name)}) {
								return
							}
						}
					}
				}
			}
		}
	}
}

// chained quadruples: too many to enumerate (about 7 million x contexts); a
// seeded 1/64 (quick) or 1/8 (thorough) sample, one context each.
func enumQuads(thorough bool, yield func(Case) bool) {
	idx := 0
	mod := 64
	if thorough {
		mod = 8
	}
	for _, o := range awkgen.Ops {
		for s1 := 0; s1 < o.Slots; s1++ {
			for _, m1 := range awkgen.Ops {
				for s2 := 0; s2 < m1.Slots; s2++ {
					for _, m2 := range awkgen.Ops {
						for s3 := 0; s3 < m2.Slots; s3++ {
							for _, in := range awkgen.Ops {
								idx++
								if (idx*7+h.Seed)%mod != 0 {
									continue
								}
								ops := []awkgen.OpSpec{o, m1, m2, in}
								sl := []int{s1, s2, s3}
								if !chainOK(ops, sl) {
									continue
								}
								tree := buildChain(ops, sl, idx%3)
								if !yield(Case{Tree: tree, Ctx: contexts[(idx/mod)%4], Desc: fmt.Sprintf("%s[%d]<-%s[%d]<-%s[%d]<-%s", o.Name, s1, m1.Name, s2, m2.Name, s3, in.Name)}) {
									return
								}
							}
						}
					}
				}
			}
		}
	}
}

// sibling pairs: a binary/ternary outer with operator children in two slots at once
func enumSiblings(thorough bool, yield func(Case) bool) {
	idx := 0
	for _, o := range awkgen.Ops {
		if o.Slots < 2 {
			continue
		}
		for s1 := 0; s1 < o.Slots; s1++ {
			for s2 := s1 + 1; s2 < o.Slots; s2++ {
				for _, i1 := range awkgen.Ops {
					for _, i2 := range awkgen.Ops {
						if o.LSlots[s1] && !i1.ProducesLValue() || o.LSlots[s2] && !i2.ProducesLValue() {
							continue
						}
						idx++
						k := idx
						mk := func(op awkgen.OpSpec) *awk.Node {
							kids := make([]*awk.Node, op.Slots)
							for i := range kids {
								kids[i] = leafFor(&k, op.LSlots[i])
							}
							return op.Build(kids...)
						}
						kids := make([]*awk.Node, o.Slots)
						for i := range kids {
							switch i {
							case s1:
								kids[i] = mk(i1)
							case s2:
								kids[i] = mk(i2)
							default:
								kids[i] = leafFor(&k, o.LSlots[i])
							}
						}
						tree := o.Build(kids...)
						ctx := contexts[idx%4]
						if !yield(Case{Tree: tree, Ctx: ctx, Desc: fmt.Sprintf("%s[%d]<-%s,[%d]<-%s", o.Name, s1, i1.Name, s2, i2.Name)}) {
							return
						}
					}
				}
			}
		}
	}
}

// ---------------------------------------------------------------------------
// random deeper trees

func genRandom(t *rapid.T) Case {
	depth := rapid.IntRange(2, 6).Draw(t, "depth")
	return Case{Tree: awkgen.ExprTree(t, depth, false), Ctx: rapid.SampledFrom(contexts).Draw(t, "ctx")}
}

// ---------------------------------------------------------------------------
// print: an unparenthesised > is a redirection

type PrintCase struct {
	Args   []*awk.Node `json:"args"`
	Dest   *awk.Node   `json:"dest"`
	Redir  string      `json:"redir"`
	Printf bool        `json:"printf"`
	Paren  bool        `json:"paren"` // print (A > B): a comparison argument instead
}

func genConcatLevel(t *rapid.T, depth int) *awk.Node {
	// destination: a concatenation or anything binding tighter
	for i := 0; i < 20; i++ {
		e := awkgen.ExprTree(t, depth, false)
		if awk.Prec(e) >= awk.BinPrec(" ") && e.K != awk.Regex {
			return e
		}
	}
	return awk.BinN(awk.StrN("out"), " ", awk.VarN("x"))
}

func genPrint(t *rapid.T) PrintCase {
	n := rapid.IntRange(1, 3).Draw(t, "nargs")
	c := PrintCase{Redir: rapid.SampledFrom([]string{">", ">", ">>", "|"}).Draw(t, "redir"), Printf: rapid.IntRange(0, 3).Draw(t, "printf") == 0}
	for i := 0; i < n; i++ {
		c.Args = append(c.Args, awkgen.ExprTree(t, rapid.IntRange(0, 4).Draw(t, "d"), false))
	}
	c.Dest = genConcatLevel(t, rapid.IntRange(0, 3).Draw(t, "dd"))
	c.Paren = rapid.IntRange(0, 5).Draw(t, "paren") == 0
	return c
}

func runPrint(x *h.Ctx, c PrintCase) string {
	for _, a := range c.Args {
		if !awkgen.ValidTree(a) {
			x.Discard("post-increment on $$")
			return ""
		}
	}
	if !awkgen.ValidTree(c.Dest) {
		x.Discard("post-increment on $$")
		return ""
	}
	kw := awk.Print
	if c.Printf {
		kw = awk.Printf
	}
	if c.Paren {
		// print (A > B): must be a comparison argument
		cmp := awk.BinN(c.Args[0], ">", c.Dest)
		if awk.Prec(c.Args[0]) <= awk.BinPrec(">") || awk.Prec(c.Dest) <= awk.BinPrec(">") {
			x.Discard("operands below relational level")
			return ""
		}
		stmt := &awk.Node{K: kw, A: []*awk.Node{cmp}}
		src := "BEGIN { " + kw + " (" + awk.RenderExpr(cmp, awk.Minimal) + ") }\n" + awkgen.FuncF
		return comparePrint(x, src, stmt, "paren-comparison")
	}
	stmt := &awk.Node{K: kw, A: c.Args, Op: c.Redir, Dest: c.Dest}
	for _, m := range []awk.Mode{awk.Minimal, awk.Full} {
		r := awk.NewRenderer(m)
		r.Stmt(awk.Clone(stmt))
		src := "BEGIN { " + r.String() + " }\n" + awkgen.FuncF
		if msg := comparePrint(x, src, stmt, "redirect"+c.Redir); msg != "" {
			return msg
		}
	}
	last := c.Args[len(c.Args)-1]
	if last.K == awk.Cond {
		x.Class("last-arg-is-conditional")
	}
	x.Nontrivial("")
	return ""
}

func comparePrint(x *h.Ctx, src string, want *awk.Node, class string) string {
	_, p, err := awk.Parse(src)
	if err != nil {
		if strings.HasPrefix(err.Error(), "awk.FromGoawk") {
			x.Discard("unknown AST node type")
			return ""
		}
		return fmt.Sprintf("print statement does not parse: %v\nsource: %s\nexpected: %s", err, src, awk.Canon(want, elide))
	}
	if len(p.Begin) != 1 || len(p.Begin[0]) != 1 {
		return fmt.Sprintf("expected one statement\nsource: %s", src)
	}
	got := awk.Canon(p.Begin[0][0], elide)
	if got != awk.Canon(want, elide) {
		return fmt.Sprintf("print statement parsed differently from the rendered statement (an unparenthesised > | >> in print is a redirection; a parenthesised one a comparison)\nsource:   %sexpected: %s\nparsed:   %s", src, awk.Canon(want, elide), got)
	}
	x.Class(class)
	return ""
}

// ---------------------------------------------------------------------------
// expr | getline binds looser than concatenation

type GetlineCase struct {
	Cmd    *awk.Node `json:"cmd"`
	Target *awk.Node `json:"target,omitempty"`
	Shape  string    `json:"shape"` // stmt | assign | while
}

func genGetline(t *rapid.T) GetlineCase {
	c := GetlineCase{Cmd: genConcatLevel(t, rapid.IntRange(0, 4).Draw(t, "d")), Shape: rapid.SampledFrom([]string{"stmt", "assign", "while"}).Draw(t, "shape")}
	switch rapid.IntRange(0, 3).Draw(t, "target") {
	case 1:
		c.Target = awk.VarN("line")
	case 2:
		c.Target = awk.IndexN("a", awk.VarN("i"))
	case 3:
		c.Target = awk.FieldN(awk.VarN("k"))
	}
	return c
}

func runGetline(x *h.Ctx, c GetlineCase) string {
	if !awkgen.ValidTree(c.Cmd) {
		x.Discard("post-increment on $$")
		return ""
	}
	cmdS := awk.NewRenderer(awk.Minimal).Expr(c.Cmd) // concat level or tighter: rendered bare
	g := cmdS + " | getline"
	if c.Target != nil {
		g += " " + awk.RenderExpr(c.Target, awk.Minimal)
	}
	gl := awk.GetlineN(c.Cmd, c.Target, nil)
	var src string
	var want *awk.Node
	switch c.Shape {
	case "stmt":
		src = "BEGIN { " + g + " }\n"
		want = awk.ExprS(gl)
	case "assign":
		src = "BEGIN { r = " + g + " }\n"
		want = awk.ExprS(awk.AssignN(awk.VarN("r"), "=", gl))
	case "while":
		src = "BEGIN { while ((" + g + ") > 0) n++ }\n"
		want = awk.WhileN(awk.BinN(gl, ">", awk.NumN(0)), []*awk.Node{awk.ExprS(awk.IncrN("++", false, awk.VarN("n")))})
	}
	src += awkgen.FuncF
	_, p, err := awk.Parse(src)
	if err != nil {
		if strings.HasPrefix(err.Error(), "awk.FromGoawk") {
			x.Discard("unknown AST node type")
			return ""
		}
		return fmt.Sprintf("'expr | getline' does not parse: %v\nsource: %s", err, src)
	}
	got := awk.Canon(p.Begin[0][0], elide)
	if got != awk.Canon(want, elide) {
		return fmt.Sprintf("'E | getline' did not take the whole concatenation-level expression E as its command\nsource:   %sexpected: %s\nparsed:   %s", src, awk.Canon(want, elide), got)
	}
	if c.Cmd.K == awk.Binary {
		x.Nontrivial("")
	}
	x.Class("shape-" + c.Shape)
	return ""
}

func init() {
	h.Enum("pairs_exhaustive", enumPairs, runTree)
	h.Enum("triples", enumTriples, runTree)
	h.Enum("sibling_pairs", enumSiblings, runTree)
	h.EnumSample("quadruples_sampled", enumQuads, runTree)
	h.Prop("random_trees", 60000, 3000000, genRandom, runTree)
	h.Prop("print_redirect", 30000, 1500000, genPrint, runPrint)
	h.Prop("pipe_getline", 16000, 600000, genGetline, runGetline)
}

// ---------------------------------------------------------------------------
// a unary operator written directly after a binary operator, without the
// parentheses the table would ask for: "a OP1 - b OP2 c".  The grammar accepts
// it; the table still says how far the sign reaches: over a following ^ (which
// binds tighter than a sign), over nothing else.

type SignCase struct {
	Op1 string `json:"op1"`
	U   string `json:"u"`
	Op2 string `json:"op2"` // "" = none
	Ctx string `json:"ctx"`
}

var signBinOps = []string{"||", "&&", "~", "!~", "<", "<=", "==", "!=", ">=", "+", "-", "*", "/", "%", "^"}

func isRel(op string) bool { return awk.BinPrec(op) == awk.BinPrec("<") }

func enumSign(thorough bool, yield func(SignCase) bool) {
	for _, ctx := range []string{"stmt", "cond", "pattern"} {
		for _, op1 := range signBinOps {
			for _, u := range []string{"-", "+", "!"} {
				for _, op2 := range append([]string{"", " "}, signBinOps...) {
					if op2 != "" && op2 != " " && (isRel(op1) && isRel(op2) || awk.BinPrec(op1) == awk.BinPrec("~") && awk.BinPrec(op2) == awk.BinPrec("~")) {
						continue // relational operators do not associate (and goawk does not chain ~ / !~ either)
					}
					if !yield(SignCase{op1, u, op2, ctx}) {
						return
					}
				}
			}
		}
	}
}

func runSign(x *h.Ctx, c SignCase) string {
	a, b, cc := awk.VarN("a"), awk.VarN("b"), awk.VarN("c")
	var want *awk.Node
	src := "a " + c.Op1 + " " + c.U + " b"
	switch {
	case c.Op2 == "":
		want = awk.BinN(a, c.Op1, awk.UnaryN(c.U, b))
	case c.Op2 == "^":
		// the sign is looser than ^: it reaches over the whole power
		src += " ^ c"
		want = awk.BinN(a, c.Op1, awk.UnaryN(c.U, awk.BinN(b, "^", cc)))
	default:
		if c.Op2 == " " {
			src += " c"
		} else {
			src += " " + c.Op2 + " c"
		}
		ub := awk.UnaryN(c.U, b)
		p1, p2 := awk.BinPrec(c.Op1), awk.BinPrec(c.Op2)
		if p1 > p2 || p1 == p2 && c.Op1 != "^" {
			want = awk.BinN(awk.BinN(a, c.Op1, ub), c.Op2, cc)
		} else {
			want = awk.BinN(a, c.Op1, awk.BinN(ub, c.Op2, cc))
		}
	}
	wantS := awk.Canon(want, elide)
	_, p, err := awk.Parse(wrap(c.Ctx, src))
	if err != nil {
		return fmt.Sprintf("a sign written directly after a binary operator is not accepted: %v\nsource: %s\ncontext: %s", err, src, c.Ctx)
	}
	e, why := extract(c.Ctx, p)
	if e == nil {
		return fmt.Sprintf("%q parses to a different statement shape: %s", src, why)
	}
	if got := awk.Canon(e, elide); got != wantS {
		return fmt.Sprintf("a sign directly after a binary operator groups against the table (a sign is looser than ^ and tighter than every other binary operator)\nsource:  %s\nparsed:  %s\nwant:    %s\ncontext: %s", src, got, wantS, c.Ctx)
	}
	x.Class("ctx-" + c.Ctx)
	if c.Op2 != "" {
		x.Nontrivial(c.Ctx + "|" + src)
	}
	return ""
}

func init() {
	h.Enum("sign_after_binary_operator", enumSign, runSign)
}

// ---------------------------------------------------------------------------
// the regular-expression argument of split, sub, gsub and match is an expression like any other: in particular
// one that starts with a regex literal (which then stands for $0 ~ /re/, as everywhere else)

func genArg(t *rapid.T) Case {
	ctx := rapid.SampledFrom(argContexts).Draw(t, "ctx")
	depth := rapid.IntRange(1, 4).Draw(t, "depth")
	tree := awkgen.ExprTree(t, depth, false)
	if rapid.IntRange(0, 2).Draw(t, "lead") != 0 {
		// the first token of the argument is a regex literal
		re := awk.RegexN(rapid.SampledFrom([]string{"re", "x", "a+", "[/]", "=", "a|b"}).Draw(t, "re"))
		switch op := rapid.SampledFrom([]string{" ", " ", "+", "-", "*", "<", "==", "~", "&&", "||", "?:", "^"}).Draw(t, "op"); op {
		case "?:":
			tree = awk.CondN(re, tree, awk.NumN(2))
		default:
			tree = awk.BinN(re, op, tree)
		}
	}
	return Case{Tree: tree, Ctx: ctx}
}

func startsWithRegexOperand(n *awk.Node) bool {
	for n != nil {
		switch n.K {
		case awk.Regex:
			return true
		case awk.Binary, awk.Cond:
			n = n.A[0]
		default:
			return false
		}
	}
	return false
}

func runArg(x *h.Ctx, c Case) string {
	if c.Tree.K == awk.Regex {
		x.Discard("a lone regex literal (the builtin takes it as the regular expression itself)")
		return ""
	}
	lead := startsWithRegexOperand(c.Tree)
	msg := runTree(x, c)
	if lead {
		x.Class("argument-starts-with-a-regex-literal")
	}
	return msg
}

func init() {
	h.Prop("builtin_regex_arguments", 12000, 300000, genArg, runArg)
}

// ---------------------------------------------------------------------------
// relational operators do not associate: a chain of two of them without parentheses is not an expression

type ChainCase struct {
	Op1  string `json:"op1"`
	Op2  string `json:"op2"`
	Ctx  string `json:"ctx"`  // stmt | cond | pattern | arg | subscript | group
	Form int    `json:"form"` // operand shapes
}

var relOps = []string{"<", "<=", "==", "!=", ">", ">="}

func enumRelChains(thorough bool, yield func(ChainCase) bool) {
	for _, ctx := range []string{"stmt", "cond", "pattern", "arg", "subscript", "group"} {
		for _, a := range relOps {
			for _, b := range relOps {
				for form := 0; form < 3; form++ {
					if !yield(ChainCase{a, b, ctx, form}) {
						return
					}
				}
			}
		}
	}
}

func runRelChain(x *h.Ctx, c ChainCase) string {
	ops := [][3]string{{"a", "b", "c"}, {"$1", "x + 1", "\"s\" y"}, {"2", "1", "2"}}[c.Form]
	wrapIn := func(e string) string {
		switch c.Ctx {
		case "stmt":
			return "BEGIN { r = " + e + " }\n"
		case "cond":
			return "BEGIN { if (" + e + ") r = 1 }\n"
		case "pattern":
			return e + " { r = 1 }\n"
		case "arg":
			return "BEGIN { r = f(" + e + ") }\n" + awkgen.FuncF
		case "subscript":
			return "BEGIN { r = arr[" + e + "] }\n"
		default:
			return "BEGIN { r = (" + e + ") }\n"
		}
	}
	chain := ops[0] + " " + c.Op1 + " " + ops[1] + " " + c.Op2 + " " + ops[2]
	if _, _, err := awk.Parse(wrapIn(chain)); err == nil {
		return fmt.Sprintf("the unparenthesised chain %q was accepted (context %s): relational operators do not associate\nsource: %s", chain, c.Ctx, wrapIn(chain))
	}
	// positive controls: either grouping, once spelled out, is an expression
	for _, grouped := range []string{"(" + ops[0] + " " + c.Op1 + " " + ops[1] + ") " + c.Op2 + " " + ops[2], ops[0] + " " + c.Op1 + " (" + ops[1] + " " + c.Op2 + " " + ops[2] + ")"} {
		if _, _, err := awk.Parse(wrapIn(grouped)); err != nil {
			return fmt.Sprintf("the parenthesised comparison %q is rejected (context %s): %v", grouped, c.Ctx, err)
		}
	}
	x.Nontrivial("")
	return ""
}

func init() {
	h.Enum("relational_chains_rejected", enumRelChains, runRelChain)
}
