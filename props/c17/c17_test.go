// C17 — Go functions exposed to AWK convert arguments and results as documented.
package c17

import (
	"bytes"
	"context"
	"errors"
	"fmt"
	"io"
	"math"
	"os"
	"reflect"
	"sort"
	"strconv"
	"strings"
	"syscall"
	"testing"
	"time"

	"github.com/benhoyt/goawk/interp"
	"github.com/benhoyt/goawk/parser"
	"pgregory.net/rapid"

	"verif/lib/awk"
	"verif/lib/h"
)

func TestMain(m *testing.M)   { h.Main(m, "C17") }
func TestAll(t *testing.T)    { h.RunAll(t) }
func TestReplay(t *testing.T) { h.Replay(t) }

var kinds = []string{"bool", "int", "int8", "int16", "int32", "int64", "uint", "uint8", "uint16", "uint32", "uint64", "float32", "float64", "string", "bytes"}

var kindType = map[string]reflect.Type{
	"bool": reflect.TypeOf(false), "int": reflect.TypeOf(int(0)), "int8": reflect.TypeOf(int8(0)), "int16": reflect.TypeOf(int16(0)), "int32": reflect.TypeOf(int32(0)), "int64": reflect.TypeOf(int64(0)),
	"uint": reflect.TypeOf(uint(0)), "uint8": reflect.TypeOf(uint8(0)), "uint16": reflect.TypeOf(uint16(0)), "uint32": reflect.TypeOf(uint32(0)), "uint64": reflect.TypeOf(uint64(0)),
	"float32": reflect.TypeOf(float32(0)), "float64": reflect.TypeOf(float64(0)), "string": reflect.TypeOf(""), "bytes": reflect.TypeOf([]byte(nil)),
}

// named types whose underlying types are the documented kinds (time.Duration is the everyday example)
type (
	nBool  bool
	nInt   int
	nI8    int8
	nI16   int16
	nI32   int32
	nU     uint
	nU8    uint8
	nU16   uint16
	nU32   uint32
	nU64   uint64
	nF32   float32
	nF64   float64
	nStr   string
	nBytes []byte
)

var namedType = map[string]reflect.Type{
	"bool": reflect.TypeOf(nBool(false)), "int": reflect.TypeOf(nInt(0)), "int8": reflect.TypeOf(nI8(0)), "int16": reflect.TypeOf(nI16(0)), "int32": reflect.TypeOf(nI32(0)), "int64": reflect.TypeOf(time.Duration(0)),
	"uint": reflect.TypeOf(nU(0)), "uint8": reflect.TypeOf(nU8(0)), "uint16": reflect.TypeOf(nU16(0)), "uint32": reflect.TypeOf(nU32(0)), "uint64": reflect.TypeOf(nU64(0)),
	"float32": reflect.TypeOf(nF32(0)), "float64": reflect.TypeOf(nF64(0)), "string": reflect.TypeOf(nStr("")), "bytes": reflect.TypeOf(nBytes(nil)),
}

func typeOf(kind string, named bool) reflect.Type {
	if named {
		return namedType[kind]
	}
	return kindType[kind]
}

var errType = reflect.TypeOf((*error)(nil)).Elem()

// an AWK argument with its known meaning
type Arg struct {
	Kind string  `json:"kind"` // num | str | field | unset | nan | inf
	Num  float64 `json:"num,omitempty"`
	Str  h.Str   `json:"str,omitempty"`
}

type Sig struct {
	Name     string   `json:"name"`
	Params   []string `json:"params"`
	Variadic bool     `json:"variadic"` // last param is ...T
	Result   string   `json:"result"`   // "" | kind
	WithErr  bool     `json:"with_err"`
	// what the Go function returns
	RetNum  float64 `json:"ret_num,omitempty"`
	RetStr  h.Str   `json:"ret_str,omitempty"`
	RetBool bool    `json:"ret_bool,omitempty"`
	Fail    bool    `json:"fail,omitempty"`  // returns a non-nil error
	Named   bool    `json:"named,omitempty"` // parameter and result types are named types (time.Duration, type nStr string ...)
}

type Call struct {
	Func int   `json:"func"`
	Args []Arg `json:"args"`
}

type Case struct {
	Sigs    []Sig  `json:"sigs"`
	Calls   []Call `json:"calls"`
	CONVFMT string `json:"convfmt"`
	AwkFunc string `json:"awk_func,omitempty"` // name of an AWK-defined function interleaved in name order (may shadow a native)
	ErrKind int    `json:"err_kind,omitempty"` // which error value a failing function returns: 0 its own sentinel, else one of wellKnownErrs (values the interpreter itself gives a meaning to elsewhere)
	Where   int    `json:"where,omitempty"`    // 0 the calls run in a rule body, 1 in a function called from a pattern, 2 in END, 3 in BEGIN
}

// error values that mean something to an interpreter loop when they come from its own input layer; coming from a
// native function they are just errors: the run must end with exactly that error
var wellKnownErrs = []error{nil, io.EOF, io.ErrUnexpectedEOF, context.Canceled, context.DeadlineExceeded, os.ErrNotExist, io.ErrClosedPipe, errors.New("exit"), errors.New("next")}

// ---------------------------------------------------------------------------

func intRange(kind string) (float64, float64) {
	switch kind {
	case "int8":
		return -128, 127
	case "int16":
		return -32768, 32767
	case "int32":
		return -2147483648, 2147483647
	case "int", "int64":
		return -9007199254740992, 9007199254740992
	case "uint8":
		return 0, 255
	case "uint16":
		return 0, 65535
	case "uint32":
		return 0, 4294967295
	case "uint", "uint64":
		return 0, 9007199254740992
	}
	return 0, 0
}

func genArgFor(t *rapid.T, kind string) Arg {
	isInt := strings.HasPrefix(kind, "int") || strings.HasPrefix(kind, "uint")
	switch k := rapid.IntRange(0, 11).Draw(t, "argk"); {
	case k < 4:
		if isInt {
			lo, hi := intRange(kind)
			v := rapid.SampledFrom([]float64{0, 1, 2, 7, 100, lo, hi, hi - 1, 42}).Draw(t, "iv")
			if rapid.Bool().Draw(t, "frac") {
				// fractional: must be truncated toward zero, stay in range
				if v >= 0 && v+0.9 <= hi {
					v += rapid.SampledFrom([]float64{0.5, 0.9, 0.1}).Draw(t, "fr")
				} else if v < 0 && v-0.9 >= lo {
					v -= rapid.SampledFrom([]float64{0.5, 0.9}).Draw(t, "fr")
				}
			}
			if lo < 0 && rapid.IntRange(0, 3).Draw(t, "neg") == 0 && -v >= lo && -v <= hi {
				v = -v
			}
			return Arg{Kind: "num", Num: v}
		}
		return Arg{Kind: "num", Num: rapid.SampledFrom([]float64{0, 1, -1, 0.5, -2.5, 3.14159265, 1e10, 1e-3, 123456.789, 2.25, 16777217, 1e30}).Draw(t, "fv")}
	case k < 6:
		if isInt {
			return Arg{Kind: "str", Str: h.Str(rapid.SampledFrom([]string{"", "abc", "12", "7x", " 3 ", "0"}).Draw(t, "is"))}
		}
		return Arg{Kind: "str", Str: h.Str(rapid.SampledFrom([]string{"", "abc", "12", "7x", " 3 ", "0", "-1.5", "1e2", "hello world", "é", "0.0"}).Draw(t, "s"))}
	case k < 8:
		if isInt {
			return Arg{Kind: "field", Str: h.Str(rapid.SampledFrom([]string{"5", "0", "12abc", "abc", "7.9", "+3"}).Draw(t, "if"))}
		}
		return Arg{Kind: "field", Str: h.Str(rapid.SampledFrom([]string{"5", "0", "0.0", "12abc", "abc", "7.9", "+3", "1e2", "-0"}).Draw(t, "f"))}
	case k < 9:
		return Arg{Kind: "unset"}
	case k < 10 && !isInt:
		return Arg{Kind: rapid.SampledFrom([]string{"nan", "inf"}).Draw(t, "nf")}
	default:
		return Arg{Kind: "num", Num: float64(rapid.IntRange(0, 100).Draw(t, "small"))}
	}
}

var nameHeads = []string{"a", "m", "z", "B", "_", "n"}

func genCase(t *rapid.T) Case {
	c := Case{CONVFMT: rapid.SampledFrom([]string{"%.6g", "%.6g", "%.2f", "%.3g"}).Draw(t, "convfmt")}
	if rapid.IntRange(0, 2).Draw(t, "wk") == 0 {
		c.ErrKind = rapid.IntRange(1, len(wellKnownErrs)-1).Draw(t, "errkind")
	}
	c.Where = rapid.SampledFrom([]int{0, 0, 0, 1, 2, 3}).Draw(t, "where")
	nsig := rapid.IntRange(1, 4).Draw(t, "nsig")
	used := map[string]bool{}
	for i := 0; i < nsig; i++ {
		s := Sig{Named: rapid.IntRange(0, 3).Draw(t, "named") == 0}
		for {
			s.Name = rapid.SampledFrom(nameHeads).Draw(t, "head") + fmt.Sprintf("f%d", rapid.IntRange(0, 9).Draw(t, "num"))
			if !used[s.Name] {
				used[s.Name] = true
				break
			}
		}
		for p := rapid.IntRange(0, 5).Draw(t, "nparams"); p > 0; p-- {
			s.Params = append(s.Params, rapid.SampledFrom(kinds).Draw(t, "pk"))
		}
		s.Variadic = len(s.Params) > 0 && rapid.IntRange(0, 2).Draw(t, "variadic") == 0
		switch rapid.IntRange(0, 3).Draw(t, "res") {
		case 0:
		case 1, 2:
			s.Result = rapid.SampledFrom(kinds).Draw(t, "rk")
		default:
			s.Result = rapid.SampledFrom(kinds).Draw(t, "rk")
			s.WithErr = true
			s.Fail = rapid.IntRange(0, 3).Draw(t, "fail") == 0
		}
		s.RetNum = rapid.SampledFrom([]float64{0, 1, 7, 100, 0.5, 2.25, -3}).Draw(t, "retnum")
		if strings.HasPrefix(s.Result, "uint") && s.RetNum < 0 {
			s.RetNum = 3
		}
		if strings.Contains(s.Result, "int") {
			s.RetNum = math.Trunc(s.RetNum)
		}
		s.RetStr = h.Str(rapid.SampledFrom([]string{"", "ret", "42", "a b", "é"}).Draw(t, "retstr"))
		s.RetBool = rapid.Bool().Draw(t, "retbool")
		c.Sigs = append(c.Sigs, s)
	}
	if rapid.IntRange(0, 2).Draw(t, "awkfunc") == 0 {
		c.AwkFunc = rapid.SampledFrom(nameHeads).Draw(t, "ahead") + "f5"
	}
	ncalls := rapid.IntRange(1, 5).Draw(t, "ncalls")
	for i := 0; i < ncalls; i++ {
		fi := rapid.IntRange(0, nsig-1).Draw(t, "callf")
		s := c.Sigs[fi]
		n := len(s.Params)
		nargs := n
		switch rapid.IntRange(0, 3).Draw(t, "argcount") {
		case 0:
			nargs = rapid.IntRange(0, n).Draw(t, "fewer")
		case 1:
			if s.Variadic {
				nargs = n + rapid.IntRange(0, 3).Draw(t, "extra")
			}
		}
		call := Call{Func: fi}
		for a := 0; a < nargs; a++ {
			kind := ""
			if a < n {
				kind = s.Params[a]
			} else {
				kind = s.Params[n-1]
			}
			call.Args = append(call.Args, genArgFor(t, kind))
		}
		c.Calls = append(c.Calls, call)
	}
	return c
}

// ---------------------------------------------------------------------------
// the AWK value model for arguments (independent of goawk)

func prefixNum(s string) float64 {
	s = strings.TrimLeft(s, " \t\n")
	end := 0
	i := 0
	if i < len(s) && (s[i] == '+' || s[i] == '-') {
		i++
	}
	d := 0
	for i < len(s) && s[i] >= '0' && s[i] <= '9' {
		i++
		d++
	}
	if i < len(s) && s[i] == '.' {
		i++
		for i < len(s) && s[i] >= '0' && s[i] <= '9' {
			i++
			d++
		}
	}
	if d == 0 {
		return 0
	}
	end = i
	if i < len(s) && (s[i] == 'e' || s[i] == 'E') {
		j := i + 1
		if j < len(s) && (s[j] == '+' || s[j] == '-') {
			j++
		}
		k := j
		for k < len(s) && s[k] >= '0' && s[k] <= '9' {
			k++
		}
		if k > j {
			end = k
		}
	}
	f, _ := strconv.ParseFloat(s[:end], 64)
	return f
}

func looksNumeric(s string) bool {
	t := strings.Trim(s, " \t\n")
	if t == "" {
		return false
	}
	_, err := strconv.ParseFloat(t, 64)
	return err == nil && !strings.ContainsAny(t, "xXnNiI_")
}

func (a Arg) num() float64 {
	switch a.Kind {
	case "num":
		return a.Num
	case "nan":
		return math.NaN()
	case "inf":
		return math.Inf(1)
	case "unset":
		return 0
	}
	return prefixNum(string(a.Str))
}

func numStr(n float64, convfmt string) string {
	switch {
	case math.IsNaN(n):
		return "nan"
	case math.IsInf(n, 1):
		return "inf"
	case n == math.Trunc(n) && math.Abs(n) < 9.2e18:
		return strconv.FormatInt(int64(n), 10)
	}
	prec, _ := strconv.Atoi(convfmt[2 : len(convfmt)-1])
	return strconv.FormatFloat(n, convfmt[len(convfmt)-1], prec, 64)
}

func (a Arg) str(convfmt string) string {
	switch a.Kind {
	case "num", "nan", "inf":
		return numStr(a.num(), convfmt)
	case "unset":
		return ""
	}
	return string(a.Str)
}

func (a Arg) truth() bool {
	switch a.Kind {
	case "num":
		return a.Num != 0
	case "nan", "inf":
		return true
	case "unset":
		return false
	case "str":
		return a.Str != ""
	}
	if looksNumeric(string(a.Str)) {
		return prefixNum(string(a.Str)) != 0
	}
	return a.Str != ""
}

func (a Arg) source(fieldNo *int, fields *[]string) string {
	switch a.Kind {
	case "num":
		if a.Num < 0 {
			return "(-" + strconv.FormatFloat(-a.Num, 'g', 17, 64) + ")"
		}
		return strconv.FormatFloat(a.Num, 'g', 17, 64)
	case "nan":
		return "log(-1)"
	case "inf":
		return "(-log(0))"
	case "unset":
		return "unset_var_"
	case "str":
		return awk.QuoteStr(string(a.Str))
	}
	*fields = append(*fields, string(a.Str))
	*fieldNo++
	return fmt.Sprintf("$%d", *fieldNo)
}

// expected Go value of an AWK argument for a parameter kind, rendered comparably
func expectArg(a Arg, kind, convfmt string) string {
	switch kind {
	case "bool":
		return fmt.Sprintf("bool:%v", a.truth())
	case "float32":
		return fmt.Sprintf("float32:%v", float32(a.num()))
	case "float64":
		return fmt.Sprintf("float64:%v", a.num())
	case "string":
		return fmt.Sprintf("string:%q", a.str(convfmt))
	case "bytes":
		return fmt.Sprintf("bytes:%q", a.str(convfmt))
	}
	return fmt.Sprintf("%s:%d", kind, int64(math.Trunc(a.num())))
}

func zeroArg(kind string) string {
	switch kind {
	case "bool":
		return "bool:false"
	case "float32":
		return "float32:0"
	case "float64":
		return "float64:0"
	case "string":
		return `string:""`
	case "bytes":
		return "bytes:nil"
	}
	return kind + ":0"
}

func render(v reflect.Value) string {
	switch v.Kind() {
	case reflect.Bool:
		return fmt.Sprintf("bool:%v", v.Bool())
	case reflect.Float32:
		return fmt.Sprintf("float32:%v", float32(v.Float()))
	case reflect.Float64:
		return fmt.Sprintf("float64:%v", v.Float())
	case reflect.String:
		return fmt.Sprintf("string:%q", v.String())
	case reflect.Slice:
		if v.IsNil() {
			return "bytes:nil" // the zero value of []byte, distinguishable from an empty slice
		}
		return fmt.Sprintf("bytes:%q", string(v.Bytes()))
	case reflect.Int, reflect.Int8, reflect.Int16, reflect.Int32, reflect.Int64:
		return fmt.Sprintf("%s:%d", v.Kind(), v.Int())
	default:
		return fmt.Sprintf("%s:%d", v.Kind(), v.Uint())
	}
}

type sentinel struct{ id int }

func (s *sentinel) Error() string { return fmt.Sprintf("native failure %d", s.id) }

func run(x *h.Ctx, c Case) string {
	var log []string
	funcs := map[string]any{}
	errs := map[int]error{}
	for i, s := range c.Sigs {
		i, s := i, s
		var in []reflect.Type
		for j, k := range s.Params {
			t := typeOf(k, s.Named)
			if s.Variadic && j == len(s.Params)-1 {
				t = reflect.SliceOf(t)
			}
			in = append(in, t)
		}
		var out []reflect.Type
		if s.Result != "" {
			out = append(out, typeOf(s.Result, s.Named))
		}
		if s.WithErr {
			out = append(out, errType)
		}
		ft := reflect.FuncOf(in, out, s.Variadic)
		errs[i] = &sentinel{i}
		if c.ErrKind > 0 && c.ErrKind < len(wellKnownErrs) {
			errs[i] = wellKnownErrs[c.ErrKind]
		}
		fn := reflect.MakeFunc(ft, func(args []reflect.Value) []reflect.Value {
			var rec []string
			for j, a := range args {
				if s.Variadic && j == len(args)-1 {
					for k := 0; k < a.Len(); k++ {
						rec = append(rec, render(a.Index(k)))
					}
				} else {
					rec = append(rec, render(a))
				}
			}
			log = append(log, fmt.Sprintf("%s(%s)", s.Name, strings.Join(rec, ", ")))
			var res []reflect.Value
			if s.Result != "" {
				rv := reflect.New(typeOf(s.Result, s.Named)).Elem()
				switch s.Result {
				case "bool":
					rv.SetBool(s.RetBool)
				case "float32", "float64":
					rv.SetFloat(s.RetNum)
				case "string":
					rv.SetString(string(s.RetStr))
				case "bytes":
					rv.SetBytes([]byte(s.RetStr))
				default:
					if strings.HasPrefix(s.Result, "uint") {
						rv.SetUint(uint64(s.RetNum))
					} else {
						rv.SetInt(int64(s.RetNum))
					}
				}
				res = append(res, rv)
			}
			if s.WithErr {
				ev := reflect.New(errType).Elem()
				if s.Fail {
					ev.Set(reflect.ValueOf(errs[i]))
				}
				res = append(res, ev)
			}
			return res
		})
		funcs[s.Name] = fn.Interface()
	}
	// the AWK program
	var src strings.Builder
	var fields []string
	fieldNo := 0
	src.WriteString("BEGIN { CONVFMT = " + awk.QuoteStr(c.CONVFMT) + "; FS = \"\\001\" }\n")
	switch c.Where {
	case 1:
		src.WriteString("function calls_(   r_) {\n")
	case 2:
		src.WriteString("END {\n")
	case 3:
		src.WriteString("BEGIN { $0 = ENVIRON[\"REC\"]\n")
	default:
		src.WriteString("{\n")
	}
	var wantLog, wantOut []string
	failedAt := -1
	for ci, call := range c.Calls {
		s := c.Sigs[call.Func]
		if c.AwkFunc == s.Name {
			continue // shadowed by the AWK-defined function of the same name
		}
		var argSrc []string
		var rec []string
		for ai, a := range call.Args {
			argSrc = append(argSrc, a.source(&fieldNo, &fields))
			kind := s.Params[len(s.Params)-1]
			if ai < len(s.Params) {
				kind = s.Params[ai]
			}
			rec = append(rec, expectArg(a, kind, c.CONVFMT))
		}
		fixed := len(s.Params)
		if s.Variadic {
			fixed--
		}
		for ai := len(call.Args); ai < fixed; ai++ {
			rec = append(rec, zeroArg(s.Params[ai]))
		}
		fmt.Fprintf(&src, "  print \"before %d\"\n  r_ = %s(%s)\n  printf \"result %d <%%s> %%s\\n\", r_, (r_ < 5)\n", ci, s.Name, strings.Join(argSrc, ", "), ci)
		if failedAt >= 0 {
			continue
		}
		wantLog = append(wantLog, fmt.Sprintf("%s(%s)", s.Name, strings.Join(rec, ", ")))
		wantOut = append(wantOut, fmt.Sprintf("before %d", ci))
		if s.WithErr && s.Fail {
			failedAt = call.Func
			continue
		}
		var res, isNum string
		lt := func(b bool) string {
			if b {
				return "1"
			}
			return "0"
		}
		// (r_ < 5): a number result compares numerically, a string result as a string against "5"
		switch s.Result {
		case "":
			res, isNum = "", "1" // the null value: 0 < 5
		case "bool":
			res, isNum = map[bool]string{true: "1", false: "0"}[s.RetBool], "1"
		case "string", "bytes":
			res, isNum = string(s.RetStr), lt(string(s.RetStr) < "5")
		case "float32":
			res, isNum = numStr(float64(float32(s.RetNum)), c.CONVFMT), lt(float64(float32(s.RetNum)) < 5)
		default:
			res, isNum = numStr(s.RetNum, c.CONVFMT), lt(s.RetNum < 5)
		}
		wantOut = append(wantOut, fmt.Sprintf("result %d <%s> %s", ci, res, isNum))
	}
	src.WriteString("  print \"done\"\n")
	if c.Where == 1 {
		src.WriteString("  return 1\n}\ncalls_() { n_++ }\n")
	} else {
		src.WriteString("}\n")
	}
	if c.AwkFunc != "" {
		fmt.Fprintf(&src, "function %s(a, b, c, d, e, f, g, h) { return \"awk\" }\nEND { print %s(1) }\n", c.AwkFunc, c.AwkFunc)
	}
	if failedAt < 0 {
		wantOut = append(wantOut, "done")
		if c.AwkFunc != "" {
			wantOut = append(wantOut, "awk")
		}
	}
	prog, err := parser.ParseProgram([]byte(src.String()), &parser.ParserConfig{Funcs: funcs})
	if err != nil {
		return fmt.Sprintf("a program calling valid native functions with no more arguments than parameters is rejected: %v\n%s\nsignatures: %+v", err, src.String(), c.Sigs)
	}
	var out bytes.Buffer
	_, runErr := interp.ExecProgram(prog, &interp.Config{Stdin: strings.NewReader(strings.Join(fields, "\x01") + "\n"), Output: &out, Error: &out, Funcs: funcs, Environ: []string{"REC", strings.Join(fields, "\x01")}})
	describe := func() string {
		return fmt.Sprintf("program:\n%ssignatures: %+v\ninput fields: %q", src.String(), c.Sigs, fields)
	}
	if failedAt >= 0 {
		if runErr == nil {
			return fmt.Sprintf("a native function returned a non-nil error but the run reported none\n%s", describe())
		}
		if runErr != errs[failedAt] && !errors.Is(runErr, errs[failedAt]) {
			return fmt.Sprintf("the run did not return exactly the error the native function returned: got %v (%T)\n%s", runErr, runErr, describe())
		}
	} else if runErr != nil {
		return fmt.Sprintf("unexpected run-time error: %v\n%s", runErr, describe())
	}
	if strings.Join(log, "\n") != strings.Join(wantLog, "\n") {
		return fmt.Sprintf("the Go functions received different arguments than the documented conversion gives\nreceived:\n  %s\nexpected:\n  %s\n%s", strings.Join(log, "\n  "), strings.Join(wantLog, "\n  "), describe())
	}
	got := strings.TrimSuffix(out.String(), "\n")
	if got != strings.Join(wantOut, "\n") {
		return fmt.Sprintf("results converted back differently (or output lost / continued after a failing call)\ngot:\n%s\nexpected:\n%s\n%s", got, strings.Join(wantOut, "\n"), describe())
	}
	for _, call := range c.Calls {
		s := c.Sigs[call.Func]
		fam := map[string]bool{}
		for _, k := range s.Params {
			fam[strings.TrimRight(k, "0123456789")] = true
		}
		if len(fam) >= 2 && len(call.Args) != len(s.Params) {
			x.Nontrivial("")
		}
	}
	return ""
}

// ---------------------------------------------------------------------------
// invalid shapes and names; too many arguments

type BadCase struct {
	Which string `json:"which"`
	N     int    `json:"n"`
}

var badShapes = map[string]any{
	"chan-param":      func(c chan int) {},
	"map-param":       func(m map[string]int) {},
	"struct-param":    func(s struct{ A int }) {},
	"ptr-param":       func(p *int) {},
	"complex-param":   func(c complex128) {},
	"intslice-param":  func(s []int) {},
	"func-param":      func(f func()) {},
	"iface-param":     func(i any) {},
	"three-results":   func() (int, int, error) { return 0, 0, nil },
	"second-not-err":  func() (int, int) { return 0, 0 },
	"bad-result":      func() map[string]int { return nil },
	"variadic-bad":    func(a ...[]int) {},
	"not-a-func-int":  42,
	"not-a-func-str":  "hello",
	"not-a-func-strc": struct{ A int }{1},
	"nil-value":       nil,
	"error-only":      func() error { return nil },
	// a second result must be exactly the type error: concrete types that implement it are not the documented shape
	"second-errptr":    func() (int, *myErr) { return 0, nil },
	"second-errstruct": func() (int, myErrVal) { return 0, myErrVal{} },
	"second-errno":     func() (int, syscall.Errno) { return 0, 0 },
	"second-bigiface": func() (int, interface {
		error
		Extra()
	}) {
		return 0, nil
	},
	"second-any":     func() (int, any) { return 0, nil },
	"first-err-pair": func() (error, int) { return nil, 0 },
	"second-string":  func() (int, string) { return 0, "" },
}

type myErr struct{}

func (*myErr) Error() string { return "myErr" }

type myErrVal struct{}

func (myErrVal) Error() string { return "myErrVal" }

var badNames = []string{"print", "if", "length", "BEGIN", "function", "getline", "in", "substr"}

func genBad(t *rapid.T) BadCase {
	names := make([]string, 0, len(badShapes))
	for k := range badShapes {
		names = append(names, k)
	}
	// deterministic order
	for i := range names {
		for j := i + 1; j < len(names); j++ {
			if names[j] < names[i] {
				names[i], names[j] = names[j], names[i]
			}
		}
	}
	switch rapid.IntRange(0, 2).Draw(t, "bk") {
	case 0:
		return BadCase{Which: rapid.SampledFrom(names).Draw(t, "shape")}
	case 1:
		return BadCase{Which: "keyword:" + rapid.SampledFrom(badNames).Draw(t, "kw")}
	default:
		return BadCase{Which: "too-many-args", N: rapid.IntRange(0, 4).Draw(t, "n")}
	}
}

// rejectedEveryTime: an unusable Funcs map is rejected at every set-up of a reusable Interpreter, not only at the
// first (a program that calls a usable function beside it must never get to run with a half-built table)
func rejectedEveryTime(what string, funcs map[string]any) (msg string) {
	defer func() {
		if r := recover(); r != nil {
			msg = fmt.Sprintf("%s: a later Execute on the same Interpreter panicked: %v", what, r)
		}
	}()
	all := map[string]any{"aaa_good": func(a int) int { return a + 1 }, "zzz_good": func(s string) string { return s + "!" }}
	for k, v := range funcs {
		all[k] = v
	}
	prog, err := parser.ParseProgram([]byte(`BEGIN { print "x", aaa_good(1), zzz_good("y") }`), &parser.ParserConfig{Funcs: map[string]any{"aaa_good": all["aaa_good"], "zzz_good": all["zzz_good"]}})
	if err != nil {
		return "harness: " + err.Error()
	}
	it, err := interp.New(prog)
	if err != nil {
		return "harness: " + err.Error()
	}
	for i := 1; i <= 3; i++ {
		var out bytes.Buffer
		_, err := it.Execute(&interp.Config{Output: &out, Stdin: strings.NewReader(""), Environ: []string{}, Funcs: all})
		if err == nil {
			return fmt.Sprintf("%s: Execute #%d on one Interpreter accepted the unusable Funcs map (output %q)", what, i, out.String())
		}
		if out.Len() != 0 {
			return fmt.Sprintf("%s: Execute #%d produced output %q although set-up must fail first", what, i, out.String())
		}
		if i == 2 {
			it.ResetVars()
		}
	}
	return ""
}

func runBad(x *h.Ctx, c BadCase) string {
	switch {
	case c.Which == "too-many-args":
		var in []reflect.Type
		for i := 0; i < c.N; i++ {
			in = append(in, kindType[kinds[i%len(kinds)]])
		}
		fn := reflect.MakeFunc(reflect.FuncOf(in, nil, false), func([]reflect.Value) []reflect.Value { return nil }).Interface()
		args := make([]string, c.N+1)
		for i := range args {
			args[i] = strconv.Itoa(i)
		}
		src := "BEGIN { nf(" + strings.Join(args, ", ") + ") }"
		_, err := parser.ParseProgram([]byte(src), &parser.ParserConfig{Funcs: map[string]any{"nf": fn}})
		if err == nil {
			return fmt.Sprintf("calling a non-variadic native function of %d parameters with %d arguments is not a parse error\n%s", c.N, c.N+1, src)
		}
		if _, ok := err.(*parser.ParseError); !ok {
			return fmt.Sprintf("too many arguments: expected a *ParseError, got %T %v", err, err)
		}
	case strings.HasPrefix(c.Which, "keyword:"):
		name := strings.TrimPrefix(c.Which, "keyword:")
		prog, err := parser.ParseProgram([]byte(`BEGIN { print "x" }`), nil)
		if err != nil {
			return "harness: " + err.Error()
		}
		var out bytes.Buffer
		_, err = interp.ExecProgram(prog, &interp.Config{Output: &out, Stdin: strings.NewReader(""), Environ: []string{}, Funcs: map[string]any{name: func() {}}})
		if err == nil {
			return fmt.Sprintf("a native function named like the keyword/builtin %q was accepted at interpreter setup", name)
		}
		if out.Len() != 0 {
			return fmt.Sprintf("output %q was produced although setup must fail first", out.String())
		}
		if msg := rejectedEveryTime("native function named "+name, map[string]any{name: func() {}}); msg != "" {
			return msg
		}
	default:
		prog, err := parser.ParseProgram([]byte(`BEGIN { print "x" }`), nil)
		if err != nil {
			return "harness: " + err.Error()
		}
		var out bytes.Buffer
		_, err = interp.ExecProgram(prog, &interp.Config{Output: &out, Stdin: strings.NewReader(""), Environ: []string{}, Funcs: map[string]any{"badf": badShapes[c.Which]}})
		if c.Which == "error-only" {
			// a single result of type error is not among the documented shapes either way; only "no panic" is demanded
			break
		}
		if err == nil {
			return fmt.Sprintf("a native function of an undocumented shape (%s) was accepted at interpreter setup", c.Which)
		}
		if out.Len() != 0 {
			return fmt.Sprintf("output %q was produced although setup must fail first", out.String())
		}
		if msg := rejectedEveryTime("shape "+c.Which, map[string]any{"badf": badShapes[c.Which]}); msg != "" {
			return msg
		}
		// the same value given to the parser, with a program that calls it: a parse error or a setup error, never a panic
		if msg := func() (msg string) {
			defer func() {
				if r := recover(); r != nil {
					msg = fmt.Sprintf("parsing a program that calls a native function of an undocumented shape (%s) panicked: %v", c.Which, r)
				}
			}()
			funcs := map[string]any{"badf": badShapes[c.Which]}
			p2, err := parser.ParseProgram([]byte(`BEGIN { print "x"; badf() }`), &parser.ParserConfig{Funcs: funcs})
			if err != nil {
				if _, ok := err.(*parser.ParseError); !ok {
					return fmt.Sprintf("shape %s: ParseProgram returned a %T, not a *ParseError", c.Which, err)
				}
				return ""
			}
			var o2 bytes.Buffer
			if _, err := interp.ExecProgram(p2, &interp.Config{Output: &o2, Stdin: strings.NewReader(""), Environ: []string{}, Funcs: funcs}); err == nil && c.Which != "error-only" {
				return fmt.Sprintf("a program calling a native function of an undocumented shape (%s) ran without error", c.Which)
			}
			if o2.Len() != 0 && c.Which != "error-only" {
				return fmt.Sprintf("shape %s: output %q was produced although setup must fail first", c.Which, o2.String())
			}
			return ""
		}(); msg != "" {
			return msg
		}
	}
	x.Class(strings.SplitN(c.Which, ":", 2)[0])
	x.Nontrivial(c.Which + strconv.Itoa(c.N))
	return ""
}

func init() {
	h.Prop("conversion_table", 30000, 500000, genCase, run)
	h.Prop("invalid_shapes_rejected", 400, 4000, genBad, runBad)
}

// ---------------------------------------------------------------------------
// shapes at the edge of the documented kinds: rejected at setup or callable, never a panic at call time

type myByte uint8
type myBytes []myByte
type namedBytes []byte

var edgeShapes = map[string]struct {
	fn   any
	args int
}{
	"typed-nil-func":         {(func() int)(nil), 0},
	"typed-nil-func-args":    {(func(string, int) string)(nil), 2},
	"typed-nil-variadic":     {(func(...int) int)(nil), 3},
	"slice-of-named-byte":    {func(b []myByte) int { return len(b) }, 1},
	"named-slice-named-byte": {func(b myBytes) int { return len(b) }, 1},
	"variadic-named-byte":    {func(b ...[]myByte) int { return len(b) }, 2},
	"result-named-byte":      {func() []myByte { return []myByte{65, 66} }, 0},
	"result-named-bytes":     {func() myBytes { return myBytes{65} }, 0},
	"named-byte-slice":       {func(b namedBytes) int { return len(b) }, 1},
	"result-namedbytes":      {func() namedBytes { return namedBytes("ok") }, 0},
	"named-byte-param":       {func(b myByte) int { return int(b) }, 1},
	"byte-array-param":       {func(b [4]byte) int { return 4 }, 1},
	"result-byte-array":      {func() [2]byte { return [2]byte{65, 66} }, 0},
	"uintptr-param":          {func(p uintptr) int { return int(p) }, 1},
	"result-uintptr":         {func() uintptr { return 7 }, 0},
	"rune-slice-param":       {func(r []rune) int { return len(r) }, 1},
	"string-slice-variadic":  {func(s ...[]string) int { return len(s) }, 1},
	"result-nil-error-iface": {func() (int, error) { var e *myErr; _ = e; return 1, nil }, 0},
	"result-typed-nil-error": {func() (int, error) { var e *myErr; return 1, e }, 0},
}

type EdgeCase struct {
	Which string `json:"which"`
	Extra int    `json:"extra"` // call with this many arguments fewer than declared (missing arguments are zero values)
}

func genEdge(t *rapid.T) EdgeCase {
	names := make([]string, 0, len(edgeShapes))
	for k := range edgeShapes {
		names = append(names, k)
	}
	sort.Strings(names)
	return EdgeCase{Which: rapid.SampledFrom(names).Draw(t, "shape"), Extra: rapid.IntRange(0, 1).Draw(t, "fewer")}
}

func runEdge(x *h.Ctx, c EdgeCase) (msg string) {
	sh := edgeShapes[c.Which]
	n := sh.args - c.Extra
	if n < 0 {
		n = 0
	}
	args := make([]string, n)
	for i := range args {
		args[i] = []string{`"ab"`, "66", `"xyz"`}[i%3]
	}
	src := "BEGIN { r = ef(" + strings.Join(args, ", ") + "); print \"done\" }"
	funcs := map[string]any{"ef": sh.fn}
	defer func() {
		if r := recover(); r != nil {
			msg = fmt.Sprintf("a native function of shape %s was accepted at setup and panicked when called: %v\nprogram: %s", c.Which, r, src)
		}
	}()
	prog, err := parser.ParseProgram([]byte(src), &parser.ParserConfig{Funcs: funcs})
	if err != nil {
		x.Class("rejected-by-parser")
		x.Nontrivial(c.Which)
		return ""
	}
	var out bytes.Buffer
	_, err = interp.ExecProgram(prog, &interp.Config{Output: &out, Stdin: strings.NewReader(""), Environ: []string{}, Funcs: funcs})
	if err != nil {
		if out.Len() != 0 && c.Which != "result-typed-nil-error" {
			return fmt.Sprintf("shape %s: the run failed (%v) after producing output %q; a rejection has to happen at setup", c.Which, err, out.String())
		}
		x.Class("rejected-at-setup")
	} else {
		x.Class("accepted-and-callable")
	}
	x.Nontrivial(c.Which + strconv.Itoa(c.Extra))
	return ""
}

func init() {
	h.Prop("edge_shapes_rejected_or_callable", 300, 3000, genEdge, runEdge)
}
