// C10 — string, regex and int() builtins obey their defining equations.
package c10

import (
	"bytes"
	"fmt"
	"math"
	"regexp"
	"strconv"
	"strings"
	"testing"
	"unicode/utf8"

	"github.com/benhoyt/goawk/interp"
	"github.com/benhoyt/goawk/parser"
	"pgregory.net/rapid"

	"verif/lib/awk"
	"verif/lib/h"
)

func TestMain(m *testing.M)   { h.Main(m, "C10") }
func TestAll(t *testing.T)    { h.RunAll(t) }
func TestReplay(t *testing.T) { h.Replay(t) }

// ---------------------------------------------------------------------------
// shared generators

var subjectPieces = []string{"a", "b", "ab", "aa", "abc", "x", " ", "é", "日本", "ß", "\xff", "\xc3", "\x80", "\xbf\x80", "\xe2\x82", "é\xa9", "aXa", "0", "12", ".", "|", "*", "\n", "\t", "aab", "bba", "&", "\\"}

func genSubject(t *rapid.T, maxPieces int) string {
	n := rapid.IntRange(0, maxPieces).Draw(t, "npieces")
	var sb strings.Builder
	for i := 0; i < n; i++ {
		sb.WriteString(rapid.SampledFrom(subjectPieces).Draw(t, "piece"))
	}
	return sb.String()
}

var regexAtoms = []string{"a", "b", "x", ".", "[ab]", "[^a]", "é", "a|ab", "ab|a", "a|aa|aaa", "(a|b)", "(ab)", "a*", "b+", "a?", "x*", "(a|b)*", "^", "$", "^a", "b$", "aa", "ab", "[a-c]+", "()", "a{2}", "(a*)(b*)", "\\.", "\\|", "[|]", " ", "é+", "[é]"}

func genRegex(t *rapid.T) string {
	n := rapid.IntRange(1, 3).Draw(t, "natoms")
	var sb strings.Builder
	for i := 0; i < n; i++ {
		sb.WriteString(rapid.SampledFrom(regexAtoms).Draw(t, "atom"))
	}
	r := sb.String()
	if _, err := regexp.Compile("(?s:" + r + ")"); err != nil {
		return "a"
	}
	return r
}

var posVals = []float64{0, 1, 2, 3, 4, 5, 6, 7, 10, 40, -1, -2, -10, 0.5, -0.5, 1.9, 2.5, -1.9, 0.999, 2147483647, 2147483648, 4294967296, 9007199254740992, 9223372036854775807, 9223372036854775808, 1.8446744073709552e19, 1e30, -1e30, 1e300, -2147483649, -9223372036854775808}

func genPos(t *rapid.T, around int) float64 {
	switch rapid.IntRange(0, 9).Draw(t, "posk") {
	case 0, 1, 2, 3:
		return float64(rapid.IntRange(-2, around+3).Draw(t, "near"))
	case 4:
		return float64(rapid.IntRange(-2, around+3).Draw(t, "nearf")) + rapid.SampledFrom([]float64{0.5, 0.25, 0.9, -0.5}).Draw(t, "frac")
	case 5:
		return math.Inf(1)
	case 6:
		return math.Inf(-1)
	default:
		return rapid.SampledFrom(posVals).Draw(t, "pos")
	}
}

func numSrc(n float64) string {
	switch {
	case math.IsInf(n, 1):
		return "(-log(0))"
	case math.IsInf(n, -1):
		return "log(0)"
	case n < 0 || (n == 0 && math.Signbit(n)):
		return "-" + strconv.FormatFloat(-n, 'g', 17, 64)
	}
	return strconv.FormatFloat(n, 'g', 17, 64)
}

func runAwk(src, input string, chars bool) (string, error) {
	prog, err := parser.ParseProgram([]byte(src), nil)
	if err != nil {
		return "", fmt.Errorf("parse error: %w\n%s", err, src)
	}
	var out bytes.Buffer
	_, err = interp.ExecProgram(prog, &interp.Config{Stdin: strings.NewReader(input), Output: &out, Error: &out, Argv0: "goawk", Environ: []string{}, Chars: chars, NoExec: true, NoFileWrites: true, NoFileReads: true})
	return out.String(), err
}

func warmup(n int) string {
	if n <= 0 {
		return ""
	}
	return fmt.Sprintf("BEGIN { for (i_ = 1; i_ <= %d; i_++) { match(\"x\", \"w\" i_); w_ = w_ sprintf(\"%%\" i_ \"d\", 1) } }\n", n)
}

// chars helpers: positions and lengths in characters (runes) or bytes
func units(s string, chars bool) []string {
	if !chars {
		u := make([]string, len(s))
		for i := 0; i < len(s); i++ {
			u[i] = s[i : i+1]
		}
		return u
	}
	var u []string
	for len(s) > 0 {
		_, size := utf8.DecodeRuneInString(s)
		u = append(u, s[:size])
		s = s[size:]
	}
	return u
}

func isASCII(s string) bool {
	for i := 0; i < len(s); i++ {
		if s[i] >= 0x80 {
			return false
		}
	}
	return true
}

// ---------------------------------------------------------------------------
// substr / index / length

type SubstrCase struct {
	S     h.Str   `json:"s"`
	M     float64 `json:"m"`
	N     float64 `json:"n"`
	HasN  bool    `json:"has_n"`
	T     h.Str   `json:"t"` // for index()
	Chars bool    `json:"chars"`
	MInf  int     `json:"m_inf,omitempty"` // JSON cannot carry infinities: +1 / -1
	NInf  int     `json:"n_inf,omitempty"`
}

func (c *SubstrCase) fix() {
	if c.MInf != 0 {
		c.M = math.Inf(c.MInf)
	}
	if c.NInf != 0 {
		c.N = math.Inf(c.NInf)
	}
}

func stripInf(v float64) (float64, int) {
	if math.IsInf(v, 1) {
		return 0, 1
	}
	if math.IsInf(v, -1) {
		return 0, -1
	}
	return v, 0
}

func genSubstr(t *rapid.T) SubstrCase {
	s := genSubject(t, 6)
	c := SubstrCase{S: h.Str(s), HasN: rapid.IntRange(0, 3).Draw(t, "hasn") > 0, Chars: rapid.Bool().Draw(t, "chars")}
	c.M, c.MInf = stripInf(genPos(t, len(s)))
	c.N, c.NInf = stripInf(genPos(t, len(s)))
	if rapid.Bool().Draw(t, "tsub") && len(s) > 0 {
		i := rapid.IntRange(0, len(s)-1).Draw(t, "ti")
		j := rapid.IntRange(i, len(s)).Draw(t, "tj")
		c.T = h.Str(s[i:j])
	} else {
		c.T = h.Str(genSubject(t, 2))
	}
	return c
}

// substrModel: the statement's equation, evaluated in floating point (no integer overflow possible).
func substrModel(u []string, m, n float64, hasN bool) string {
	start := math.Trunc(m)
	if start < 1 {
		start = 1
	}
	if start > float64(len(u)) {
		return ""
	}
	rest := float64(len(u)) - start + 1
	count := rest
	if hasN {
		count = math.Trunc(n)
		if count < 0 {
			count = 0
		}
		if count > rest {
			count = rest
		}
	}
	i := int(start) - 1
	return strings.Join(u[i:i+int(count)], "")
}

func runSubstr(x *h.Ctx, c SubstrCase) string {
	c.fix()
	s := string(c.S)
	if c.Chars && (!utf8.ValidString(s) || !utf8.ValidString(string(c.T))) {
		x.Discard("invalid UTF-8 subject in character mode")
		return ""
	}
	u := units(s, c.Chars)
	want := substrModel(u, c.M, c.N, c.HasN)
	call := "substr(s, " + numSrc(c.M)
	if c.HasN {
		call += ", " + numSrc(c.N)
	}
	call += ")"
	// index: least p with substr(s, p, length(t)) == t, else 0
	tu := units(string(c.T), c.Chars)
	wantIdx := 0
	for p := 1; p+len(tu)-1 <= len(u) || (len(tu) == 0 && p == 1); p++ {
		if strings.Join(u[p-1:p-1+len(tu)], "") == string(c.T) {
			wantIdx = p
			break
		}
		if p > len(u) {
			break
		}
	}
	src := fmt.Sprintf("BEGIN { s = %s; t = %s; printf \"<%%s>\\n\", %s; print length(s), index(s, t); p = index(s, t); if (p) printf \"<%%s>\\n\", substr(s, p, length(t)) }", awk.QuoteStr(s), awk.QuoteStr(string(c.T)), call)
	exp := fmt.Sprintf("<%s>\n%d %d\n", want, len(u), wantIdx)
	if wantIdx > 0 {
		exp += "<" + string(c.T) + ">\n"
	}
	got, err := runAwk(src, "", c.Chars)
	if err != nil {
		return fmt.Sprintf("run-time error: %v\nprogram: %s", err, src)
	}
	if got != exp {
		return fmt.Sprintf("substr/length/index disagree with their defining equations (chars=%v)\nprogram: %s\ngoawk: %q\nwant:  %q", c.Chars, src, got, exp)
	}
	if c.Chars && utf8.ValidString(s) && !utf8.ValidString(got) {
		return fmt.Sprintf("character mode cut a valid UTF-8 sequence\nprogram: %s\noutput: %q", src, got)
	}
	if isASCII(s) && isASCII(string(c.T)) {
		other, err2 := runAwk(src, "", !c.Chars)
		if err2 != nil || other != got {
			return fmt.Sprintf("byte mode and character mode disagree on ASCII text\nprogram: %s\nchars=%v: %q\nchars=%v: %q (err %v)", src, c.Chars, got, !c.Chars, other, err2)
		}
	}
	if c.M != math.Trunc(c.M) || c.M < 0 || math.Abs(c.M) >= 2147483648 || (c.HasN && (c.N != math.Trunc(c.N) || c.N < 0 || math.Abs(c.N) >= 2147483648)) || !isASCII(s) {
		x.Nontrivial("")
	}
	return ""
}

// ---------------------------------------------------------------------------
// match / sub / gsub / split

type RegexCase struct {
	S     h.Str `json:"s"`
	Re    string `json:"re"`
	Repl  h.Str  `json:"repl"` // run-time value of the replacement string
	Sep   h.Str  `json:"sep"`  // single-character separator for split
	Chars bool   `json:"chars"`
	Warm  int    `json:"warm,omitempty"`
	Dyn   bool   `json:"dyn"` // regex given as a dynamic string instead of a /literal/
	Hist  []h.Str `json:"hist,omitempty"` // statements executed first: the equations hold whatever came before
}

// genHistory draws statements that change interpreter state the builtins might
// (wrongly) depend on: separators and their compiled forms, the record and its
// fields, RSTART/RLENGTH, the target array, conversion formats.
func genHistory(t *rapid.T, sep string) []h.Str {
	var out []h.Str
	n := rapid.IntRange(0, 4).Draw(t, "nhist")
	if rapid.IntRange(0, 2).Draw(t, "hist?") != 0 {
		n = 0
	}
	res := []string{`"[;:]"`, `", *"`, `"a|ab"`, `"[ ,]+"`, `"x+"`, `"\\|"`, `"(,)"`, `"[^,]"`}
	for i := 0; i < n; i++ {
		var st string
		switch rapid.IntRange(0, 13).Draw(t, "hk") {
		case 12:
			// the target array holds elements no earlier split put there
			st = `parts["total"] = 1; parts[0] = 2; parts[40] = 3; parts[1, 2] = 4`
		case 13:
			st = `parts[` + rapid.SampledFrom([]string{`"x"`, `-1`, `2`, `7`, `"01"`, `""`}).Draw(t, "stray") + `] = "stray"`
		case 0:
			st = "FS = " + rapid.SampledFrom(res).Draw(t, "fsre")
		case 1:
			st = "FS = " + awk.QuoteStr(sep)
		case 2:
			st = "FS = " + rapid.SampledFrom([]string{`","`, `":"`, `"|"`, `"\t"`, `" "`, `"a"`}).Draw(t, "fs1")
		case 3:
			st = "RS = " + rapid.SampledFrom(append([]string{`""`, `"\n"`, `";"`}, res...)).Draw(t, "rs")
		case 4:
			st = `$0 = "p,q;r:s a|b"; hx = $1 $2`
		case 5:
			st = `$3 = "zz"; hx = NF`
		case 6:
			st = `hx = match("foobar", /o+/)`
		case 7:
			st = `hn = split("9 8 7 6 5 4 3 2 1 0 a b c", parts)`
		case 8:
			st = `hn = split("u;v:w", parts, ` + rapid.SampledFrom(res).Draw(t, "spre") + `)`
		case 9:
			st = `ht = "aaa"; gsub(/a/, "b", ht); sub("b", "c", ht)`
		case 10:
			st = "SUBSEP = " + rapid.SampledFrom([]string{`","`, `":"`, `""`}).Draw(t, "subsep")
		default:
			st = "CONVFMT = " + rapid.SampledFrom([]string{`"%d"`, `"%.2g"`, `"%s"`}).Draw(t, "convfmt")
		}
		out = append(out, h.Str(st))
	}
	return out
}

func histSrc(hist []h.Str) string {
	if len(hist) == 0 {
		return ""
	}
	var sb strings.Builder
	sb.WriteString("BEGIN {\n")
	for _, st := range hist {
		sb.WriteString("  " + string(st) + "\n")
	}
	sb.WriteString("}\n")
	return sb.String()
}

var replTokens = []string{"&", `\&`, `\\`, "x", "-", "", "<", ">", "é", `\\&`[0:2] + "&"}

func genRegexCase(t *rapid.T) RegexCase {
	c := RegexCase{S: h.Str(genSubject(t, 7)), Re: genRegex(t), Chars: rapid.Bool().Draw(t, "chars"), Dyn: rapid.Bool().Draw(t, "dyn")}
	var sb strings.Builder
	for i := rapid.IntRange(0, 4).Draw(t, "nrepl"); i > 0; i-- {
		sb.WriteString(rapid.SampledFrom(replTokens).Draw(t, "rt"))
	}
	c.Repl = h.Str(sb.String())
	c.Sep = h.Str(rapid.SampledFrom([]string{",", ":", "|", ".", "*", "a", "b", "\t", "é", "[", "\\", "x", "+", "?", "(", "^", "$"}).Draw(t, "sep"))
	if rapid.IntRange(0, 7).Draw(t, "warm?") == 0 {
		c.Warm = rapid.IntRange(1, 250).Draw(t, "warm")
	}
	c.Hist = genHistory(t, string(c.Sep))
	return c
}

// expand: & is the match, \& a literal ampersand, \\ a backslash.
func expand(repl, match string) (string, bool) {
	var sb strings.Builder
	for i := 0; i < len(repl); i++ {
		switch repl[i] {
		case '&':
			sb.WriteString(match)
		case '\\':
			if i+1 >= len(repl) {
				return "", false // lone trailing backslash: unspecified
			}
			i++
			switch repl[i] {
			case '&':
				sb.WriteByte('&')
			case '\\':
				sb.WriteByte('\\')
			default:
				return "", false // backslash before another character: unspecified
			}
		default:
			sb.WriteByte(repl[i])
		}
	}
	return sb.String(), true
}

func runRegex(x *h.Ctx, c RegexCase) string {
	s := string(c.S)
	if c.Chars && !utf8.ValidString(s) && !isASCII(c.Re) {
		// (a pattern that itself is not ASCII against a subject that is not valid UTF-8: what "a character" of the
		// pattern matches is not defined; an ASCII pattern leaves no doubt, every stray byte is one character)
		x.Discard("invalid UTF-8 subject with a non-ASCII pattern in character mode")
		return ""
	}
	re, err := regexp.Compile("(?s:" + c.Re + ")")
	if err != nil {
		x.Discard("regex does not compile")
		return ""
	}
	re.Longest()
	reSrc := awk.QuoteRegex(c.Re)
	if c.Dyn || strings.ContainsAny(c.Re, "\n/") {
		reSrc = awk.QuoteStr(c.Re)
	}
	var exp strings.Builder
	// match
	loc := re.FindStringIndex(s)
	rstart, rlength := 0, -1
	if loc != nil {
		rstart = len(units(s[:loc[0]], c.Chars)) + 1
		rlength = len(units(s[loc[0]:loc[1]], c.Chars))
		fmt.Fprintf(&exp, "%d %d %d <%s>\n", rstart, rstart, rlength, s[loc[0]:loc[1]])
	} else {
		fmt.Fprintf(&exp, "0 0 -1 <>\n")
	}
	// gsub with "&": unchanged, count of non-overlapping leftmost-longest matches
	all := re.FindAllStringIndex(s, -1)
	fmt.Fprintf(&exp, "%d <%s>\n", len(all), s)
	// sub / gsub with the replacement
	replOK := true
	subWant, gsubWant := s, s
	if loc != nil {
		e, ok := expand(string(c.Repl), s[loc[0]:loc[1]])
		replOK = ok
		subWant = s[:loc[0]] + e + s[loc[1]:]
		var sb strings.Builder
		last := 0
		for _, l := range all {
			e, _ := expand(string(c.Repl), s[l[0]:l[1]])
			sb.WriteString(s[last:l[0]])
			sb.WriteString(e)
			last = l[1]
		}
		sb.WriteString(s[last:])
		gsubWant = sb.String()
	} else {
		_, replOK = expand(string(c.Repl), "")
	}
	if !replOK {
		x.Discard("replacement with an unspecified backslash sequence")
		return ""
	}
	n1 := 0
	if loc != nil {
		n1 = 1
	}
	fmt.Fprintf(&exp, "%d <%s>\n%d <%s>\n", n1, subWant, len(all), gsubWant)
	// split with a single-character separator other than space: literal
	sep := string(c.Sep)
	pieces := 0
	if s != "" {
		pieces = strings.Count(s, sep) + 1
	}
	fmt.Fprintf(&exp, "%d <%s> %d\n", pieces, s, pieces)

	src := warmup(c.Warm) + histSrc(c.Hist) + fmt.Sprintf(`BEGIN {
  s = %s
  r = match(s, %s); printf "%%d %%d %%d <%%s>\n", r, RSTART, RLENGTH, substr(s, RSTART, RLENGTH)
  t = s; n = gsub(%s, "&", t); printf "%%d <%%s>\n", n, t
  t = s; n = sub(%s, %s, t); printf "%%d <%%s>\n", n, t
  t = s; n = gsub(%s, %s, t); printf "%%d <%%s>\n", n, t
  n = split(s, parts, %s); j = ""; for (i = 1; i <= n; i++) j = j (i > 1 ? %s : "") parts[i]; printf "%%d <%%s> %%d\n", n, j, length(parts)
}`, awk.QuoteStr(s), reSrc, reSrc, reSrc, awk.QuoteStr(string(c.Repl)), reSrc, awk.QuoteStr(string(c.Repl)), awk.QuoteStr(sep), awk.QuoteStr(sep))
	got, err := runAwk(src, "", c.Chars)
	if err != nil {
		return fmt.Sprintf("run-time error: %v\nprogram: %s", err, src)
	}
	if got != exp.String() {
		return fmt.Sprintf("match/gsub/sub/split disagree with their defining equations (chars=%v)\nlines: match r RSTART RLENGTH <substr(s,RSTART,RLENGTH)> | gsub(r,\"&\") n <t> | sub n <t> | gsub n <t> | split n <joined> length(parts)\nprogram: %s\ngoawk: %q\nwant:  %q", c.Chars, src, got, exp.String())
	}
	if isASCII(s) && isASCII(c.Re) {
		other, err2 := runAwk(src, "", !c.Chars)
		if err2 != nil || other != got {
			return fmt.Sprintf("byte mode and character mode disagree on ASCII text\nprogram: %s\nchars=%v: %q\nchars=%v: %q (err %v)", src, c.Chars, got, !c.Chars, other, err2)
		}
	}
	if c.Warm > 0 {
		x.Class("after-many-regexes")
	}
	if len(c.Hist) > 0 {
		x.Class("after-history")
	}
	if len(all) >= 1 && (!isASCII(s) || len(all) >= 2) {
		x.Nontrivial("")
	}
	return ""
}

// ---------------------------------------------------------------------------
// int()

type IntCase struct {
	X float64 `json:"x"`
}

var intVals = []float64{0, 0.5, -0.5, 0.999999, -0.999999, 1.5, -1.5, 2147483647.5, -2147483648.5, 4294967296.7, 9007199254740993, 9223372036854773760, 9223372036854775808, 9223372036854777856, -9223372036854775808, -9223372036854777856, 1.8446744073709552e19, 1e19, 1e30, -1e30, 1e300, -1e300, 5e-324, 123456789.987, 1e15 + 0.5, 4503599627370495.5}

func genInt(t *rapid.T) IntCase {
	switch rapid.IntRange(0, 3).Draw(t, "ik") {
	case 0:
		return IntCase{X: rapid.SampledFrom(intVals).Draw(t, "iv")}
	case 1:
		return IntCase{X: rapid.Float64Range(-1e6, 1e6).Draw(t, "small")}
	case 2:
		return IntCase{X: rapid.Float64Range(-1e25, 1e25).Draw(t, "large")}
	default:
		return IntCase{X: rapid.Float64().Draw(t, "any")}
	}
}

func runInt(x *h.Ctx, c IntCase) string {
	if math.IsNaN(c.X) || math.IsInf(c.X, 0) {
		x.Discard("non-finite")
		return ""
	}
	want := math.Trunc(c.X)
	src := fmt.Sprintf("BEGIN { v = int(%s); printf \"%%.0f %%d\\n\", v, (v == %s) }", numSrc(c.X), numSrc(want))
	exp := strconv.FormatFloat(want, 'f', 0, 64)
	if exp == "-0" {
		exp = "0"
	}
	got, err := runAwk(src, "", false)
	if err != nil {
		return fmt.Sprintf("run-time error: %v\nprogram: %s", err, src)
	}
	g := strings.Replace(got, "-0 ", "0 ", 1)
	if g != exp+" 1\n" {
		return fmt.Sprintf("int(x) is not x truncated toward zero\nprogram: %s\ngoawk: %q\nwant:  %q", src, got, exp+" 1\n")
	}
	if math.Abs(c.X) >= 2147483648 || c.X != want {
		x.Nontrivial("")
	}
	return ""
}

func init() {
	h.Prop("substr_index_length", 40000, 800000, genSubstr, runSubstr)
	h.Prop("match_sub_gsub_split", 40000, 800000, genRegexCase, runRegex)
	h.Prop("int_truncates", 20000, 400000, genInt, runInt)
}

// ---------------------------------------------------------------------------
// sub/gsub that replace nothing leave their target alone (value and type)

type NoMatchCase struct {
	Fn     string `json:"fn"`     // sub | gsub
	Target string `json:"target"` // var | elem | field | record | local
	Value  string `json:"value"`  // AWK expression giving the target its (numeric) value
	Re     string `json:"re"`     // a regex that cannot match the decimal rendering of a number
	Dyn    bool   `json:"dyn"`
	Conv   string `json:"conv"` // CONVFMT
}

func genNoMatch(t *rapid.T) NoMatchCase {
	return NoMatchCase{Fn: rapid.SampledFrom([]string{"sub", "gsub"}).Draw(t, "fn"), Target: rapid.SampledFrom([]string{"var", "elem", "field", "record", "local"}).Draw(t, "target"),
		Value: rapid.SampledFrom([]string{"0.1234567891", "10 / 3", "1e-7 / 3", "2 ^ 53 + 2", "123456789.125", "-0.000123456789", "10.5", "1e300 / 7", "17", "\"0.1234567891\" + 0", "0.1 + 0.2"}).Draw(t, "value"),
		Re: rapid.SampledFrom([]string{"zzz", "q+", "^x", "[[:alpha:]][[:alpha:]]", "#", "a|b", "\\$\\$"}).Draw(t, "re"), Dyn: rapid.Bool().Draw(t, "dyn"),
		Conv: rapid.SampledFrom([]string{"%.6g", "%.2g", "%.10g", "%.3f"}).Draw(t, "conv")}
}

func runNoMatch(x *h.Ctx, c NoMatchCase) string {
	re := awk.QuoteRegex(c.Re)
	if c.Dyn {
		re = awk.QuoteStr(c.Re)
	}
	var tgt, pre string
	switch c.Target {
	case "var":
		tgt = "t"
	case "elem":
		tgt = "arr[\"k\", 1]"
	case "field":
		tgt, pre = "$2", "$0 = \"a b c\"; "
	case "record":
		tgt = "$0"
	default:
		tgt = "loc"
	}
	body := fmt.Sprintf(`%sCONVFMT = "%s"; orig = %s; %s = orig; n = %s(%s, "R", %s)
  printf "%%d %%d %%d\n", n, (%s - orig == 0), ((%s "") == (orig ""))`, pre, c.Conv, c.Value, tgt, c.Fn, re, tgt, tgt, tgt)
	src := "BEGIN {\n  " + body + "\n}\n"
	if c.Target == "local" {
		src = "function f(loc,   orig, n) {\n  " + body + "\n}\nBEGIN { f() }\n"
	}
	got, err := runAwk(src, "", false)
	if err != nil {
		return fmt.Sprintf("run-time error: %v\nprogram: %s", err, src)
	}
	if c.Target == "field" || c.Target == "record" {
		// a field holds text: assigning a number to it stores its CONVFMT rendering, so only the
		// string form is required to be unchanged there
		if !strings.HasPrefix(got, "0 ") || !strings.HasSuffix(got, " 1\n") {
			return fmt.Sprintf("%s() without a match changed its target %s\nprogram: %s\ngoawk printed (n, value unchanged, string unchanged): %q", c.Fn, tgt, src, got)
		}
	} else if got != "0 1 1\n" {
		return fmt.Sprintf("%s() that replaced nothing changed its target %s (the number it held was replaced by its CONVFMT rendering)\nprogram: %s\ngoawk printed (n, value unchanged, string unchanged): %q, want \"0 1 1\"", c.Fn, tgt, src, got)
	}
	x.Class("target-" + c.Target)
	x.Nontrivial("")
	return ""
}

func init() {
	h.Prop("no_match_leaves_target_alone", 3000, 40000, genNoMatch, runNoMatch)
}
