// C06 — $0, the fields and NF stay mutually consistent under every update.
package c06

import (
	"bytes"
	"encoding/csv"
	"fmt"
	"math"
	"os"
	"path/filepath"
	"regexp"
	"strconv"
	"strings"
	"testing"

	"github.com/benhoyt/goawk/interp"
	"github.com/benhoyt/goawk/parser"
	"pgregory.net/rapid"

	"verif/lib/awk"
	"verif/lib/h"
	"verif/lib/recmodel"
)

func TestMain(m *testing.M)   { h.Main(m, "C06") }
func TestAll(t *testing.T)    { h.RunAll(t) }
func TestReplay(t *testing.T) { h.Replay(t) }

// ---------------------------------------------------------------------------
// history

type Op struct {
	Kind string `json:"k"`
	// Kind:
	//  set0      $0 = S
	//  setf      $I = S            (I may be 0, negative, beyond NF, > 1e6)
	//  setnf     NF = N
	//  fs ofs outmode convfmt   variable = S
	//  read      x = $I; y = NF; z = $0
	//  sub gsub  [g]sub(R, S, $I)
	//  incr      $I++   decr --$I   aug  $I += N
	//  getline   getline (next record)   getlinef  getline < file   getlinevar  getline v
	//  getlinefield getline $I < file
	//  setfnum   $I = numeric constant N (goes through CONVFMT)
	I int     `json:"i,omitempty"`
	S h.Str   `json:"s,omitempty"`
	N float64 `json:"n,omitempty"`
	R string  `json:"r,omitempty"`
	// Q: no probe after this step (so that the record is not split before the next step)
	Q bool `json:"q,omitempty"`
}

type Case struct {
	Record h.Str   `json:"record"` // first input record
	More   []h.Str `json:"more"`   // further input records (for getline)
	File   []h.Str `json:"file"`   // lines of the side file
	FS     h.Str   `json:"fs"`     // FS set in BEGIN ("" = leave default)
	Ops    []Op    `json:"ops"`
}

var fsPool = []string{" ", ",", "|", ".", "*", "[", "\t", "é", ":", ", *", "[,;]+", "ab", "a|b", "x*", "[ ]", "\\|", ":+", "(,|;)", "a|ab",
	// two-character regexes made of a backslash and a letter or sign: control escapes, classes, escaped punctuation
	"\\t", "\\n", "\\r", "\\f", "\\v", "\\a", "\\.", "\\*", "\\[", "\\s", "\\d", "\\w", "[\\t ]", "\\t+", "\\\\"}
var ofsPool = []string{" ", "-", "", ",", "::", "\t", "é", "\n"}
var recPieces = []string{"a", "b", "ab", "x", "12", "3.5", " ", "  ", "\t", "t", "n", "r", "f", "v", "s", "d", "w", "\\", ",", ",,", ";", ":", "|", ".", "*", "[", "é", "日本", "aab", "\"", "q\"q",
	// white space that is NOT a blank: field content under the default FS
	"\v", "\f", "\r", "\u00a0", "\u2003", "\u0085", "\x00", "\xa0"}

func genRecord(t *rapid.T) string {
	n := rapid.IntRange(0, 7).Draw(t, "nrec")
	var sb strings.Builder
	for i := 0; i < n; i++ {
		sb.WriteString(rapid.SampledFrom(recPieces).Draw(t, "rp"))
	}
	return sb.String()
}

func genOp(t *rapid.T) Op {
	idx := func() int {
		return rapid.SampledFrom([]int{1, 1, 2, 2, 3, 4, 5, 7, 0, -1, -2, -3, -6}).Draw(t, "idx")
	}
	switch k := rapid.IntRange(0, 29).Draw(t, "opk"); {
	case k < 3:
		return Op{Kind: "set0", S: h.Str(genRecord(t))}
	case k < 9:
		return Op{Kind: "setf", I: idx(), S: h.Str(rapid.SampledFrom([]string{"v", "", "w w", "7", "a,b", "q\"r", "é", "x\ny", " lead", "3.0"}).Draw(t, "val"))}
	case k < 10:
		return Op{Kind: "setf", I: 1000001, S: "big"}
	case k < 13:
		return Op{Kind: "setnf", N: rapid.SampledFrom([]float64{0, 1, 2, 3, 5, 8, 2.7, -1, 1000001}).Draw(t, "nf")}
	case k < 15:
		return Op{Kind: "fs", S: h.Str(rapid.SampledFrom(fsPool).Draw(t, "fs"))}
	case k < 17:
		return Op{Kind: "ofs", S: h.Str(rapid.SampledFrom(ofsPool).Draw(t, "ofs"))}
	case k < 18:
		return Op{Kind: "outmode", S: h.Str(rapid.SampledFrom([]string{"csv", "tsv", "", "csv separator=;", "csv separator=|"}).Draw(t, "om"))}
	case k < 19:
		return Op{Kind: "convfmt", S: h.Str(rapid.SampledFrom([]string{"%.6g", "%.3g", "%.2f", "%.10g"}).Draw(t, "cf"))}
	case k < 21:
		return Op{Kind: "read", I: idx()}
	case k < 23:
		return Op{Kind: rapid.SampledFrom([]string{"sub", "gsub"}).Draw(t, "sg"), I: rapid.SampledFrom([]int{0, 1, 2, 3, -1, 5, 0, 0}).Draw(t, "si"),
			// "&" (and "" for the empty matches of ^ $ x*) makes a substitution that leaves the text as it was: it is
			// an assignment all the same ($0 is rebuilt or re-split, a field beyond NF extends the record)
			R: rapid.SampledFrom([]string{"a", "b+", "[0-9]", "x*", ",", "q", " ", "^", "$", "é", "^", "$", "."}).Draw(t, "sr"), S: h.Str(rapid.SampledFrom([]string{"X", "", "&&", "<&>", " ", "a b", "&", "&", ""}).Draw(t, "ss"))}
	case k < 24:
		return Op{Kind: rapid.SampledFrom([]string{"incr", "decr"}).Draw(t, "id"), I: idx()}
	case k < 25:
		return Op{Kind: "aug", I: idx(), N: rapid.SampledFrom([]float64{2, 0.5, -3, 10}).Draw(t, "augn")}
	case k < 26:
		return Op{Kind: "getline"}
	case k < 27:
		return Op{Kind: "getlinef"}
	case k < 28:
		return Op{Kind: "getlinevar"}
	case k < 29:
		return Op{Kind: "getlinefield", I: rapid.SampledFrom([]int{1, 2, 3, 5}).Draw(t, "gfi")}
	default:
		return Op{Kind: "setfnum", I: rapid.SampledFrom([]int{1, 2, 4}).Draw(t, "sfi"), N: rapid.SampledFrom([]float64{3.14159265, 42, 0.1, 1e6, 2.5, 1234567.5}).Draw(t, "sfn")}
	}
}

func genCase(t *rapid.T) Case {
	c := Case{Record: h.Str(genRecord(t))}
	if rapid.IntRange(0, 2).Draw(t, "fs0") > 0 {
		c.FS = h.Str(rapid.SampledFrom(fsPool).Draw(t, "fs0v"))
	}
	for i := rapid.IntRange(0, 3).Draw(t, "nmore"); i > 0; i-- {
		c.More = append(c.More, h.Str(genRecord(t)))
	}
	for i := rapid.IntRange(0, 3).Draw(t, "nfile"); i > 0; i-- {
		c.File = append(c.File, h.Str(genRecord(t)))
	}
	n := rapid.IntRange(1, 25).Draw(t, "nops")
	for i := 0; i < n; i++ {
		op := genOp(t)
		op.Q = rapid.IntRange(0, 3).Draw(t, "quiet") == 0
		c.Ops = append(c.Ops, op)
	}
	return c
}

// ---------------------------------------------------------------------------
// model

type model struct {
	text    string
	fields  []string
	fs      string
	ofs     string
	outMode string // "", "csv", "tsv"
	outSep  rune
	convfmt string
	input   []string
	file    []string
	// csvPending: in CSV/TSV output mode the rebuilt $0 may be any valid
	// encoding of the fields; it is validated against goawk's text and adopted.
	csvPending bool
	// nfAlt: alternative NF text goawk is known to show after a non-integral NF assignment (KF-C06-1)
	nfAlt float64
}

func (m *model) split(text string) []string {
	f, err := recmodel.SplitFields(text, m.fs)
	if err != nil {
		panic("model: bad FS " + m.fs)
	}
	return f
}

func (m *model) setLine(text string) {
	m.nfAlt = 0
	m.text = text
	m.fields = m.split(text)
	m.csvPending = false
}

func (m *model) rebuild() {
	m.nfAlt = 0
	if m.outMode != "" {
		m.csvPending = true
		m.text = ""
		return
	}
	m.text = strings.Join(m.fields, m.ofs)
}

func (m *model) numStr(n float64) string {
	if n == math.Trunc(n) && math.Abs(n) < 1e15 {
		return strconv.FormatInt(int64(n), 10)
	}
	// CONVFMT values used here are %.Ng / %.Nf
	f := m.convfmt
	prec, _ := strconv.Atoi(f[2 : len(f)-1])
	return strconv.FormatFloat(n, f[len(f)-1], prec, 64)
}

var undefinedNumericRE = regexp.MustCompile(`(?i)^[ \t\n\v\f\r]*[+-]?(nan|inf|0x)`)

func numPrefix(s string) float64 {
	s = strings.TrimLeft(s, " \t\n\v\f\r") // strtod skips all isspace characters
	re := regexp.MustCompile(`^[+-]?([0-9]+\.?[0-9]*|\.[0-9]+)([eE][+-]?[0-9]+)?`)
	m := re.FindString(s)
	if m == "" {
		return 0
	}
	f, _ := strconv.ParseFloat(m, 64)
	return f
}

// field index normalisation: 0 => whole record; negative counts from the end
func (m *model) norm(i int) (int, bool) {
	if i < 0 {
		i = len(m.fields) + 1 + i
		if i < 1 {
			return 0, false
		}
	}
	return i, true
}

func (m *model) getField(i int) string {
	if i == 0 {
		return m.text
	}
	k, ok := m.norm(i)
	if !ok || k > len(m.fields) {
		return ""
	}
	return m.fields[k-1]
}

// setField returns "error" when the index is beyond the documented limit.
func (m *model) setField(i int, v string) string {
	if i == 0 {
		m.setLine(v)
		return ""
	}
	if i > 1000000 {
		return "error"
	}
	k, ok := m.norm(i)
	if !ok {
		return "" // out-of-range negative index: nothing to assign to
	}
	for len(m.fields) < k {
		m.fields = append(m.fields, "")
	}
	m.fields[k-1] = v
	m.rebuild()
	return ""
}

func expandRepl(repl, match string) string {
	var sb strings.Builder
	for i := 0; i < len(repl); i++ {
		if repl[i] == '&' {
			sb.WriteString(match)
		} else {
			sb.WriteByte(repl[i])
		}
	}
	return sb.String()
}

// apply performs op on the model; returns "error" if the run must end with an error.
func (m *model) apply(op Op) string {
	switch op.Kind {
	case "set0":
		m.setLine(string(op.S))
	case "setf":
		return m.setField(op.I, string(op.S))
	case "setfnum":
		return m.setField(op.I, m.numStr(op.N))
	case "setnf":
		n := int(op.N)
		if n < 0 || n > 1000000 {
			return "error"
		}
		if n < len(m.fields) {
			m.fields = m.fields[:n]
		}
		for len(m.fields) < n {
			m.fields = append(m.fields, "")
		}
		m.rebuild()
		if op.N != math.Trunc(op.N) {
			m.nfAlt = op.N
		}
	case "fs":
		m.fs = string(op.S)
	case "ofs":
		m.ofs = string(op.S)
	case "outmode":
		parts := strings.Fields(string(op.S))
		m.outMode, m.outSep = "", 0
		if len(parts) > 0 {
			m.outMode = parts[0]
			m.outSep = ','
			if m.outMode == "tsv" {
				m.outSep = '\t'
			}
			for _, p := range parts[1:] {
				if strings.HasPrefix(p, "separator=") {
					m.outSep = []rune(p[len("separator="):])[0]
				}
			}
		}
	case "convfmt":
		m.convfmt = string(op.S)
	case "read":
	case "sub", "gsub":
		old := m.getField(op.I)
		re := regexp.MustCompile("(?s:" + op.R + ")")
		re.Longest()
		locs := re.FindAllStringIndex(old, -1)
		if op.Kind == "sub" && len(locs) > 1 {
			locs = locs[:1]
		}
		if len(locs) == 0 {
			return "" // no substitution: the target is not assigned
		}
		var sb strings.Builder
		last := 0
		for _, l := range locs {
			sb.WriteString(old[last:l[0]])
			sb.WriteString(expandRepl(string(op.S), old[l[0]:l[1]]))
			last = l[1]
		}
		sb.WriteString(old[last:])
		return m.setField(op.I, sb.String())
	case "incr":
		return m.setField(op.I, m.numStr(numPrefix(m.getField(op.I))+1))
	case "decr":
		return m.setField(op.I, m.numStr(numPrefix(m.getField(op.I))-1))
	case "aug":
		return m.setField(op.I, m.numStr(numPrefix(m.getField(op.I))+op.N))
	case "getline":
		if len(m.input) > 0 {
			m.setLine(m.input[0])
			m.input = m.input[1:]
		}
	case "getlinef":
		if len(m.file) > 0 {
			m.setLine(m.file[0])
			m.file = m.file[1:]
		}
	case "getlinevar":
		if len(m.input) > 0 {
			m.input = m.input[1:]
		}
	case "getlinefield":
		if len(m.file) > 0 {
			line := m.file[0]
			m.file = m.file[1:]
			return m.setField(op.I, line)
		}
	}
	return ""
}

// ---------------------------------------------------------------------------
// rendering the history as an AWK program

const probe = `probe()`

// The first thing a probe touches rotates (NF, bare length, length(), a bare regex match): an implementation
// that rebuilds $0 lazily must do so for every reader.
const probeFunc = `function probe(   i, k, l_) {
  k = pk_++ % 4
  if (k == 1) l_ = length
  else if (k == 2) l_ = length()
  else if (k == 3) l_ = (/^/) ? length : -1
  if (k > 0 && l_ != length($0)) printf "BARE-LENGTH-DIFFERS-FROM-LENGTH-OF-RECORD %d ", l_
  printf "%s %d:%s", NF, length($0), $0
  for (i = 1; i <= NF; i++) printf " %d:%s", length($i), $i
  printf " +%d:%s -%d:%s\n", length($(NF+1)), $(NF+1), length($-1), $-1
}
`

func fieldRef(i int) string {
	if i < 0 {
		return "$(" + strconv.Itoa(i) + ")"
	}
	return "$" + strconv.Itoa(i)
}

func numLit(n float64) string {
	if n < 0 {
		return "(-" + strconv.FormatFloat(-n, 'g', 17, 64) + ")"
	}
	return strconv.FormatFloat(n, 'g', 17, 64)
}

func renderOp(op Op, file string) string {
	switch op.Kind {
	case "set0":
		return "$0 = " + awk.QuoteStr(string(op.S))
	case "setf":
		return fieldRef(op.I) + " = " + awk.QuoteStr(string(op.S))
	case "setfnum":
		return fieldRef(op.I) + " = " + numLit(op.N)
	case "setnf":
		return "NF = " + numLit(op.N)
	case "fs":
		return "FS = " + awk.QuoteStr(string(op.S))
	case "ofs":
		return "OFS = " + awk.QuoteStr(string(op.S))
	case "outmode":
		return "OUTPUTMODE = " + awk.QuoteStr(string(op.S))
	case "convfmt":
		return "CONVFMT = " + awk.QuoteStr(string(op.S))
	case "read":
		return "x_ = " + fieldRef(op.I) + "; y_ = NF; z_ = $0; w_ = $(NF+2)"
	case "sub", "gsub":
		return op.Kind + "(" + awk.QuoteStr(op.R) + ", " + awk.QuoteStr(string(op.S)) + ", " + fieldRef(op.I) + ")"
	case "incr":
		return fieldRef(op.I) + "++"
	case "decr":
		return "--" + fieldRef(op.I)
	case "aug":
		return fieldRef(op.I) + " += " + numLit(op.N)
	case "getline":
		return "getline"
	case "getlinef":
		return "getline < " + awk.QuoteStr(file)
	case "getlinevar":
		return "getline v_"
	case "getlinefield":
		return "getline " + fieldRef(op.I) + " < " + awk.QuoteStr(file)
	}
	panic("bad op " + op.Kind)
}

// parse one probe line: NF, $0, fields..., $(NF+1), $-1
type snapshot struct {
	nf     string
	text   string
	fields []string
	beyond string
	last   string
}

func takeLen(s string) (string, string, bool) {
	i := strings.IndexByte(s, ':')
	if i < 0 {
		return "", "", false
	}
	n, err := strconv.Atoi(s[:i])
	if err != nil || i+1+n > len(s) {
		return "", "", false
	}
	return s[i+1 : i+1+n], s[i+1+n:], true
}

func parseSnapshots(out string) ([]snapshot, string) {
	var snaps []snapshot
	for len(out) > 0 {
		var sn snapshot
		sp := strings.IndexByte(out, ' ')
		if sp < 0 {
			return snaps, out
		}
		sn.nf = out[:sp]
		rest := out[sp+1:]
		var ok bool
		sn.text, rest, ok = takeLen(rest)
		if !ok {
			return snaps, out
		}
		for strings.HasPrefix(rest, " ") && !strings.HasPrefix(rest, " +") {
			var f string
			f, rest, ok = takeLen(rest[1:])
			if !ok {
				return snaps, out
			}
			sn.fields = append(sn.fields, f)
		}
		if !strings.HasPrefix(rest, " +") {
			return snaps, out
		}
		sn.beyond, rest, ok = takeLen(rest[2:])
		if !ok || !strings.HasPrefix(rest, " -") {
			return snaps, out
		}
		sn.last, rest, ok = takeLen(rest[2:])
		if !ok || !strings.HasPrefix(rest, "\n") {
			return snaps, out
		}
		out = rest[1:]
		snaps = append(snaps, sn)
	}
	return snaps, ""
}

func run(x *h.Ctx, c Case) string {
	dir := h.TempDir("c06")
	defer os.RemoveAll(dir)
	file := filepath.Join(dir, "side")
	var fb strings.Builder
	for _, l := range c.File {
		fb.WriteString(lineOf(l) + "\n")
	}
	os.WriteFile(file, []byte(fb.String()), 0o644)

	m := &model{fs: " ", ofs: " ", convfmt: "%.6g"}
	var src strings.Builder
	src.WriteString(probeFunc)
	if c.FS != "" {
		src.WriteString("BEGIN { FS = " + awk.QuoteStr(string(c.FS)) + " }\n")
		m.fs = string(c.FS)
	}
	src.WriteString("NR == 1 {\n  " + probe + "\n")
	// input lines: one record each; the line reader drops one CR before the newline (C07's business),
	// so a line must not end in CR here
	asLine := lineOf
	rec := asLine(c.Record)
	var input strings.Builder
	input.WriteString(rec + "\n")
	for _, l := range c.More {
		s := asLine(l)
		m.input = append(m.input, s)
		input.WriteString(s + "\n")
	}
	for _, l := range c.File {
		m.file = append(m.file, asLine(l))
	}
	ops := c.Ops
	for i, op := range ops {
		if h.KFOpen("KF-C06-2") && op.Kind == "getlinefield" {
			x.Excluded("KF-C06-2")
			ops = ops[:i]
			break
		}
	}
	var descr []string
	nprobes := 1
	for _, op := range ops {
		if op.Q {
			src.WriteString("  " + renderOp(op, file) + "\n")
			descr = append(descr, renderOp(op, "side")+"    # not probed")
		} else {
			src.WriteString("  " + renderOp(op, file) + "\n  " + probe + "\n")
			descr = append(descr, renderOp(op, "side"))
			nprobes++
		}
	}
	src.WriteString("}\n")

	prog, err := parser.ParseProgram([]byte(src.String()), nil)
	if err != nil {
		return fmt.Sprintf("harness: generated program does not parse: %v\n%s", err, src.String())
	}
	var out bytes.Buffer
	_, runErr := interp.ExecProgram(prog, &interp.Config{Stdin: strings.NewReader(input.String()), Output: &out, Error: &out, Argv0: "goawk", Environ: []string{}, NoExec: true, NoFileWrites: true})
	snaps, junk := parseSnapshots(out.String())
	history := func(upto int) string {
		var sb strings.Builder
		fmt.Fprintf(&sb, "FS=%q record=%q more=%q file=%q\n", m0fs(c), rec, c.More, c.File)
		for i := 0; i < upto && i < len(descr); i++ {
			fmt.Fprintf(&sb, "  %2d. %s\n", i+1, descr[i])
		}
		return sb.String()
	}

	// step the model alongside goawk's probe transcript
	m.setLine(rec)
	compare := func(pi, i int) string {
		if pi >= len(snaps) {
			if runErr != nil {
				return fmt.Sprintf("run ended with an error after %d probes, before step %d was probed: %v\n%s", len(snaps), i, runErr, history(i))
			}
			return fmt.Sprintf("output ends after %d probes (unparsed: %q)\n%s", len(snaps), h.Trunc(junk, 200), history(i))
		}
		got := snaps[pi]
		if m.csvPending {
			// any text a CSV reader decodes to exactly the fields is a correct $0
			var dec []string
			if got.text != "" {
				r := csv.NewReader(strings.NewReader(got.text + "\n"))
				r.Comma = m.outSep
				r.FieldsPerRecord = -1
				recs, err := r.ReadAll()
				if err != nil || len(recs) != 1 {
					return fmt.Sprintf("step %d: in CSV output mode $0 = %q does not decode as one CSV record (%v, %d records)\n%s", i, got.text, err, len(recs), history(i))
				}
				dec = recs[0]
			}
			if !eqStrings(dec, m.fields) && !(len(m.fields) == 1 && m.fields[0] == "" && len(dec) == 0) {
				return fmt.Sprintf("step %d: in CSV output mode $0 = %q decodes to %q, but the fields are %q\n%s", i, got.text, dec, m.fields, history(i))
			}
			m.text = got.text // validated: adopt
			m.csvPending = false
		}
		wantLast := ""
		if len(m.fields) > 0 {
			wantLast = m.fields[len(m.fields)-1]
		}
		if m.nfAlt != 0 && got.nf == m.numStr(m.nfAlt) && h.KFOpen("KF-C06-1") {
			x.Excluded("KF-C06-1")
			got.nf = strconv.Itoa(len(m.fields))
		}
		if got.nf != strconv.Itoa(len(m.fields)) || got.text != m.text || !eqStrings(got.fields, m.fields) || got.beyond != "" || got.last != wantLast {
			return fmt.Sprintf("after step %d the record state differs from the model\n  goawk: NF=%s $0=%q fields=%q $(NF+1)=%q $-1=%q\n  model: NF=%d $0=%q fields=%q $(NF+1)=\"\" $-1=%q\n%s", i, got.nf, got.text, got.fields, got.beyond, got.last, len(m.fields), m.text, m.fields, wantLast, history(i))
		}
		return ""
	}
	if msg := compare(0, 0); msg != "" {
		return msg
	}
	pi := 0
	assignAfterSplit, sepChange, interesting := false, false, false
	for i, op := range ops {
		switch op.Kind {
		case "setf", "setnf", "setfnum", "sub", "gsub", "incr", "decr", "aug":
			if assignAfterSplit && sepChange {
				interesting = true
			}
			assignAfterSplit = true
		case "fs", "ofs", "outmode":
			if assignAfterSplit {
				sepChange = true
			}
		}
		switch op.Kind {
		case "incr", "decr", "aug":
			// arithmetic on text that spells a non-finite or hexadecimal number: what number it stands for is
			// not defined by POSIX (goawk reads "nan" as NaN, the model as 0); thorough run, seed 7: record "nan", $1++
			if undefinedNumericRE.MatchString(m.getField(op.I)) {
				x.Discard("arithmetic on a nan / inf / hexadecimal spelling")
				return ""
			}
		}
		if m.apply(op) == "error" {
			// index or NF beyond the documented limit (or negative NF): the run must end with an error here;
			// a consistent assignment would also satisfy this property, but goawk documents the limit
			if runErr == nil {
				return fmt.Sprintf("step %d (%s) exceeds the field limit / sets a negative NF, yet the run reported no error\n%s", i+1, descr[i], history(i+1))
			}
			if len(snaps) != pi+1 {
				return fmt.Sprintf("step %d (%s) must end the run, but %d probes were printed instead of %d\n%s", i+1, descr[i], len(snaps), pi+1, history(i+1))
			}
			x.Class("ends-with-limit-error")
			if interesting {
				x.Nontrivial("")
			}
			return ""
		}
		if op.Q {
			if m.csvPending {
				// the rebuilt CSV text was not observed: later steps that depend on $0's text cannot be modelled
				x.Class("unobserved-csv-text")
				if interesting {
					x.Nontrivial("")
				}
				return ""
			}
			continue
		}
		pi++
		if msg := compare(pi, i+1); msg != "" {
			return msg
		}
	}
	if runErr != nil {
		return fmt.Sprintf("unexpected run-time error: %v\n%s", runErr, history(len(descr)))
	}
	if len(snaps) != nprobes {
		return fmt.Sprintf("%d probes printed, %d expected\n%s", len(snaps), nprobes, history(len(descr)))
	}
	if interesting {
		x.Nontrivial("")
	}
	return ""
}

func m0fs(c Case) string {
	if c.FS == "" {
		return " "
	}
	return string(c.FS)
}

func eqStrings(a, b []string) bool {
	if len(a) != len(b) {
		return false
	}
	for i := range a {
		if a[i] != b[i] {
			return false
		}
	}
	return true
}

func init() {
	h.Prop("record_history_vs_model", 30000, 500000, genCase, run)
}

// lineOf makes one input line of a drawn record text: no inner newline, and no CR at its end
// (the line reader drops one CR before the newline, which is C07's business).
func lineOf(v h.Str) string {
	s := strings.ReplaceAll(string(v), "\n", " ")
	for strings.HasSuffix(s, "\r") {
		s = s[:len(s)-1] + "^"
	}
	return s
}
