// C13 — output reaches each destination completely, in order, exactly once.
package c13

import (
	"bufio"
	"bytes"
	"context"
	"fmt"
	"io"
	"os"
	"os/exec"
	"path/filepath"
	"sort"
	"strings"
	"testing"
	"time"

	"github.com/benhoyt/goawk/interp"
	"github.com/benhoyt/goawk/parser"
	"pgregory.net/rapid"

	"verif/lib/h"
	"verif/lib/sandbox"
)

func TestMain(m *testing.M)   { h.Main(m, "C13") }
func TestAll(t *testing.T)    { h.RunAll(t) }
func TestReplay(t *testing.T) { h.Replay(t) }

// ---------------------------------------------------------------- histories

type Op struct {
	Kind  string `json:"kind"`  // out | close | fflush | fflushall | system-echo | system-exit | system-size
	Dest  string `json:"dest"`  // stdout | f0 f1 f2 | c0..c5
	Mode  string `json:"mode"`  // > or >> for files
	Form  int    `json:"form"`  // 0 print, 1 printf, 2 multi-argument print, 3 printf of the empty string
	Alias int    `json:"alias"` // which of two expressions spells the name
}

type Case struct {
	Ops   []Op   `json:"ops"`
	End   string `json:"end"`   // normal | exit | exit5 | error-div | error-regex
	Where string `json:"where"` // begin | function | rule
	Via   string `json:"via"`   // api-rec | api-bufio64 | api-bufio4096 | api-reused (second run on one Interpreter) | cli-file | cli-pipe
	Fill  int    `json:"fill"`  // extra own stdout lines after each child feed (to provoke concurrent writes)
}

var files = []string{"f0", "f1", "f2"}
var cmds = []string{"c0", "c1", "c2", "c3", "c4", "c5"}

// command text (D is the sandbox directory)
func cmdText(c string) string {
	switch c {
	case "c0":
		return `"cat"`
	case "c1":
		return `("cat >> " D "/p1")`
	case "c2":
		return `"sort"`
	case "c3":
		return `"cat > /dev/null; exit 3"`
	case "c4":
		return `"cat > /dev/null; kill -9 $$"`
	case "c5":
		return `"cat 1>&2"`
	}
	panic(c)
}

func sharesStdout(c string) bool { return c == "c0" || c == "c2" }

func nameExpr(dest string, alias int) string {
	if strings.HasPrefix(dest, "f") {
		if alias == 0 {
			return fmt.Sprintf(`(D "/%s")`, dest)
		}
		return fmt.Sprintf(`(D "/f" %s)`, dest[1:])
	}
	if alias == 1 && (dest == "c0" || dest == "c2") {
		if dest == "c0" {
			return `("c" "at")`
		}
		return `substr("xsort", 2)`
	}
	return cmdText(dest)
}

func genCase(t *rapid.T) Case {
	c := Case{
		End:   rapid.SampledFrom([]string{"normal", "normal", "exit", "exit5", "error-div", "error-regex"}).Draw(t, "end"),
		Where: rapid.SampledFrom([]string{"begin", "function", "rule"}).Draw(t, "where"),
		Via:   rapid.SampledFrom([]string{"api-rec", "api-bufio64", "api-bufio4096", "api-reused", "cli-file", "cli-pipe"}).Draw(t, "via"),
		Fill:  rapid.SampledFrom([]int{0, 0, 0, 3, 40}).Draw(t, "fill"),
	}
	n := rapid.IntRange(2, 20).Draw(t, "nops")
	dests := append(append([]string{"stdout", "stdout"}, files...), cmds...)
	for i := 0; i < n; i++ {
		k := rapid.SampledFrom([]string{"out", "out", "out", "out", "close", "close", "fflush", "fflushall", "system-echo", "system-exit", "system-size", "pipe-exit3", "mixed-file-first", "mixed-cmd-first"}).Draw(t, "kind")
		op := Op{Kind: k}
		switch k {
		case "out":
			op.Dest = rapid.SampledFrom(dests).Draw(t, "dest")
			op.Mode = rapid.SampledFrom([]string{">", ">>"}).Draw(t, "mode")
			op.Form = rapid.IntRange(0, 3).Draw(t, "form")
			op.Alias = rapid.IntRange(0, 1).Draw(t, "alias")
		case "close", "fflush":
			op.Dest = rapid.SampledFrom(dests[2:]).Draw(t, "dest")
			op.Alias = rapid.IntRange(0, 1).Draw(t, "alias")
		case "system-size":
			op.Dest = rapid.SampledFrom(files).Draw(t, "dest")
		}
		c.Ops = append(c.Ops, op)
	}
	return c
}

// ---------------------------------------------------------------- program text and model

type childInst struct {
	dest       string
	openOp     int
	closeOp    int // -1: left open until the end of the run
	lines      []string
	toStderr   bool
	concurrent bool // own stdout writes happened while it was open
}

type model struct {
	src               string
	own               []string // own stdout lines in order
	ownOp             []int    // the op that emitted each
	children          []*childInst
	sysLines          map[int]string // op -> line a system() child prints to stdout
	files             map[string]string
	stderrWant        []string
	status            int
	wantErr           bool
	reopen            bool
	abnormalUnflushed bool
	ndest             int
	skippedSize       int
}

func payload(k int, dest string, form int) (stmtArgs string, line string) {
	switch form {
	case 0:
		return fmt.Sprintf(`print "L%d-%s"`, k, dest), fmt.Sprintf("L%d-%s", k, dest)
	case 1:
		return fmt.Sprintf(`printf "%%s-%%s\n", "L%d", "%s"`, k, dest), fmt.Sprintf("L%d-%s", k, dest)
	case 3:
		// nothing is written, but the destination is opened all the same (the `printf "" > file` idiom)
		if k%2 == 0 {
			return `printf ""`, ""
		}
		return `printf "%s", unset_` + fmt.Sprint(k), ""
	default:
		return fmt.Sprintf(`print "L%d", "m", "%s"`, k, dest), fmt.Sprintf("L%d m %s", k, dest)
	}
}

func build(c Case) *model {
	m := &model{sysLines: map[int]string{}, files: map[string]string{"f0": "old-f0\n", "f1": "old-f1\n", "p1": "old-p1\n"}}
	open := map[string]*childInst{} // open command streams
	openFile := map[string]bool{}
	used := map[string]bool{}
	closedOnce := map[string]bool{}
	var body strings.Builder
	emitOwn := func(k int, line string) {
		m.own = append(m.own, line)
		m.ownOp = append(m.ownOp, k)
		for _, ch := range open {
			if sharesStdout(ch.dest) {
				ch.concurrent = true
			}
		}
	}
	for k, op := range c.Ops {
		switch op.Kind {
		case "out":
			st, line := payload(k, op.Dest, op.Form)
			used[op.Dest] = true
			switch {
			case op.Dest == "stdout":
				fmt.Fprintf(&body, "  %s\n", st)
				if op.Form != 3 {
					emitOwn(k, line)
				}
			case strings.HasPrefix(op.Dest, "f"):
				fmt.Fprintf(&body, "  %s %s %s\n", st, op.Mode, nameExpr(op.Dest, op.Alias))
				if !openFile[op.Dest] {
					if closedOnce[op.Dest] {
						m.reopen = true
					}
					openFile[op.Dest] = true
					if op.Mode == ">" {
						m.files[op.Dest] = ""
					}
				}
				if op.Form != 3 {
					m.files[op.Dest] += line + "\n"
				} else {
					m.files[op.Dest] += "" // the file exists from now on
				}
			default:
				fmt.Fprintf(&body, "  %s | %s\n", st, nameExpr(op.Dest, op.Alias))
				ch := open[op.Dest]
				if ch == nil {
					if closedOnce[op.Dest] {
						m.reopen = true
					}
					ch = &childInst{dest: op.Dest, openOp: k, closeOp: -1, toStderr: op.Dest == "c5"}
					open[op.Dest] = ch
					m.children = append(m.children, ch)
				}
				if op.Form != 3 {
					ch.lines = append(ch.lines, line)
					if op.Dest == "c1" {
						m.files["p1"] += line + "\n"
					}
				}
				for i := 0; i < c.Fill && sharesStdout(op.Dest); i++ {
					fill := fmt.Sprintf("F%d-%d", k, i)
					fmt.Fprintf(&body, "  print \"%s\"\n", fill)
					emitOwn(k, fill)
				}
			}
		case "close":
			want := "-1"
			if strings.HasPrefix(op.Dest, "f") {
				if openFile[op.Dest] {
					want = "0"
					delete(openFile, op.Dest)
					closedOnce[op.Dest] = true
				}
			} else if ch := open[op.Dest]; ch != nil {
				want = "0"
				if op.Dest == "c3" {
					want = "3"
				}
				if op.Dest == "c4" {
					want = "nonzero"
				}
				ch.closeOp = k
				delete(open, op.Dest)
				closedOnce[op.Dest] = true
			}
			fmt.Fprintf(&body, "  r = close(%s); print \"R%d close \" r\n", nameExpr(op.Dest, op.Alias), k)
			if want == "nonzero" {
				emitOwn(k, fmt.Sprintf("R%d close ?", k))
			} else {
				emitOwn(k, fmt.Sprintf("R%d close %s", k, want))
			}
		case "fflush":
			want := "-1"
			if openFile[op.Dest] || open[op.Dest] != nil {
				want = "0"
			}
			fmt.Fprintf(&body, "  r = fflush(%s); print \"R%d fflush \" r\n", nameExpr(op.Dest, op.Alias), k)
			emitOwn(k, fmt.Sprintf("R%d fflush %s", k, want))
		case "fflushall":
			fmt.Fprintf(&body, "  r = fflush(); print \"R%d fflush 0\"\n", k)
			emitOwn(k, fmt.Sprintf("R%d fflush 0", k))
		case "system-echo":
			fmt.Fprintf(&body, "  r = system(\"echo S%d\"); print \"R%d system \" r\n", k, k)
			m.sysLines[k] = fmt.Sprintf("S%d", k)
			emitOwn(k, fmt.Sprintf("R%d system 0", k))
		case "pipe-exit3":
			// a command that exits with status 3 without reading its input: by the time close() flushes, the pipe is broken;
			// close() still has to report the command's exit status (the failed flush is reported on stderr)
			fmt.Fprintf(&body, "  print \"L%d-lost\" | \"exit 3 # %d\"; system(\"sleep 0.05\"); r = close(\"exit 3 # %d\"); print \"R%d close \" r\n", k, k, k, k)
			emitOwn(k, fmt.Sprintf("R%d close 3", k))
		case "mixed-file-first":
			// one name denotes one open stream until close(): opened with > it stays that file, whatever redirection
			// operator later statements use with the same name
			name := fmt.Sprintf("(D \"/y%d\")", k)
			fmt.Fprintf(&body, "  print \"L%d-a\" > %s; print \"L%d-b\" | %s; printf \"L%d-c\\n\" >> %s; r = close(%s); print \"R%d close \" r\n", k, name, k, name, k, name, name, k)
			m.files[fmt.Sprintf("y%d", k)] = fmt.Sprintf("L%d-a\nL%d-b\nL%d-c\n", k, k, k)
			emitOwn(k, fmt.Sprintf("R%d close 0", k))
		case "mixed-cmd-first":
			// ... and opened with | it stays that command
			name := fmt.Sprintf("(\"cat >> \" D \"/pk%d\")", k)
			fmt.Fprintf(&body, "  print \"L%d-a\" | %s; print \"L%d-b\" > %s; printf \"L%d-c\\n\" >> %s; r = close(%s); print \"R%d close \" r\n", k, name, k, name, k, name, name, k)
			m.files[fmt.Sprintf("pk%d", k)] = fmt.Sprintf("L%d-a\nL%d-b\nL%d-c\n", k, k, k)
			emitOwn(k, fmt.Sprintf("R%d close 0", k))
		case "system-exit":
			fmt.Fprintf(&body, "  r = system(\"exit 3\"); print \"R%d system \" r\n", k)
			emitOwn(k, fmt.Sprintf("R%d system 3", k))
		case "system-size":
			// only meaningful for a file that exists and is closed: then its content has been delivered
			content, exists := m.files[op.Dest]
			if openFile[op.Dest] || !exists {
				m.skippedSize++
				fmt.Fprintf(&body, "  # (size probe of %s skipped: open or absent)\n", op.Dest)
				continue
			}
			fmt.Fprintf(&body, "  r = system(\"echo S%d $(wc -c < \" D \"/%s)\"); print \"R%d system \" r\n", k, op.Dest, k)
			m.sysLines[k] = fmt.Sprintf("S%d %d", k, len(content))
			emitOwn(k, fmt.Sprintf("R%d system 0", k))
		}
	}
	if len(open) > 0 || len(openFile) > 0 {
		if c.End != "normal" {
			m.abnormalUnflushed = true
		}
	}
	switch c.End {
	case "exit":
		body.WriteString("  exit\n")
	case "exit5":
		body.WriteString("  exit 5\n")
		m.status = 5
	case "error-div":
		body.WriteString("  boom(0)\n")
		m.wantErr = true
	case "error-regex":
		body.WriteString("  re = \"(\"; if (\"x\" ~ re) print \"never\"\n")
		m.wantErr = true
	}
	body.WriteString("  print \"not-reached-after-exit\" > (D \"/marker\")\n")
	if c.End == "normal" {
		m.files["marker"] = "not-reached-after-exit\n"
	}
	var sb strings.Builder
	sb.WriteString("function boom(a) { return 1/a }\n")
	switch c.Where {
	case "begin":
		sb.WriteString("BEGIN {\n" + body.String() + "}\n")
	case "function":
		sb.WriteString("function doit(   r, re) {\n" + body.String() + "}\nBEGIN { doit() }\n")
	default:
		sb.WriteString("NR == 1 {\n" + body.String() + "}\n")
	}
	m.src = sb.String()
	for _, ch := range m.children {
		if ch.dest == "c2" {
			sorted := append([]string(nil), ch.lines...)
			sort.Strings(sorted)
			ch.lines = sorted
		}
		if ch.toStderr {
			m.stderrWant = append(m.stderrWant, ch.lines...)
		}
	}
	m.ndest = len(used)
	return m
}

// ---------------------------------------------------------------- running

type outcome struct {
	stdout, stderr string
	status         int
	err            string
	files          map[string]string
}

func runCase(c Case, m *model, dir string, bin string) (outcome, bool) {
	var o outcome
	stdin := "r1\nr2\n"
	switch c.Via {
	case "cli-file", "cli-pipe":
		progFile := filepath.Join(dir, "..", filepath.Base(dir)+".awk")
		os.WriteFile(progFile, []byte(m.src), 0o644)
		defer os.Remove(progFile)
		ctx, cancel := context.WithTimeout(context.Background(), 60*time.Second)
		defer cancel()
		cmd := exec.CommandContext(ctx, bin, "-v", "D="+dir, "-f", progFile)
		cmd.Stdin = strings.NewReader(stdin)
		var errBuf bytes.Buffer
		cmd.Stderr = &errBuf
		var outBuf bytes.Buffer
		outPath := filepath.Join(dir, "..", filepath.Base(dir)+".stdout")
		if c.Via == "cli-file" {
			f, _ := os.Create(outPath)
			cmd.Stdout = f
			defer os.Remove(outPath)
			defer f.Close()
		} else {
			cmd.Stdout = &outBuf
		}
		err := cmd.Run()
		if ctx.Err() != nil {
			return o, false
		}
		if c.Via == "cli-file" {
			d, _ := os.ReadFile(outPath)
			o.stdout = string(d)
		} else {
			o.stdout = outBuf.String()
		}
		o.stderr = errBuf.String()
		if ee, ok := err.(*exec.ExitError); ok {
			o.status = ee.ExitCode()
		} else if err != nil {
			return o, false
		}
		if m.wantErr && o.status != 0 && strings.TrimSpace(o.stderr) != "" {
			o.err = "exit status " + fmt.Sprint(o.status) + " with a message on stderr"
			o.status = 0
		}
	default:
		prog, err := parser.ParseProgram([]byte(m.src), nil)
		if err != nil {
			panic("harness program does not parse: " + err.Error() + "\n" + m.src)
		}
		rec := &sandbox.Recorder{}
		errRec := &sandbox.Recorder{}
		cfg := &interp.Config{Stdin: strings.NewReader(stdin), Error: errRec, Vars: []string{"D", dir}, Environ: []string{"PATH", "/usr/bin:/bin"}}
		var bw *bufio.Writer
		switch c.Via {
		case "api-rec":
			cfg.Output = rec
		case "api-bufio64":
			bw = bufio.NewWriterSize(rec, 64)
			cfg.Output = bw
		default:
			bw = bufio.NewWriterSize(rec, 4096)
			cfg.Output = bw
		}
		var st int
		if c.Via == "api-reused" {
			// the same history run twice on one Interpreter; the sandbox is restored in between and the second run judged
			it, _ := interp.New(prog)
			first := *cfg
			first.Stdin, first.Output, first.Error = strings.NewReader(stdin), &sandbox.Recorder{}, &sandbox.Recorder{}
			it.Execute(&first)
			entries, _ := os.ReadDir(dir)
			for _, e := range entries {
				os.Remove(filepath.Join(dir, e.Name()))
			}
			prepare(dir)
			it.ResetVars()
			st, err = it.Execute(cfg)
		} else {
			st, err = interp.ExecProgram(prog, cfg)
		}
		o.status = st
		if err != nil {
			o.err = err.Error()
		}
		o.stdout, o.stderr = rec.String(), errRec.String()
	}
	o.files = map[string]string{}
	entries, _ := os.ReadDir(dir)
	for _, e := range entries {
		d, _ := os.ReadFile(filepath.Join(dir, e.Name()))
		o.files[e.Name()] = string(d)
	}
	return o, true
}

func lines(s string) []string {
	if s == "" {
		return nil
	}
	l := strings.Split(s, "\n")
	if l[len(l)-1] == "" {
		l = l[:len(l)-1]
	} else {
		l[len(l)-1] += "<no newline>"
	}
	return l
}

// judge compares an outcome with the model; "" when everything is as the property demands.
func judge(c Case, m *model, o outcome) string {
	// files: complete, in program order, exactly once
	for name, want := range m.files {
		if got, ok := o.files[name]; !ok || got != want {
			return fmt.Sprintf("file %s: content %q, the model of the destinations says %q", name, got, want)
		}
	}
	for name := range o.files {
		if _, ok := m.files[name]; !ok {
			return fmt.Sprintf("file %s exists but the program never wrote it (content %q)", name, o.files[name])
		}
	}
	if m.wantErr != (o.err != "") {
		return fmt.Sprintf("run error = %q, expected an error: %v", o.err, m.wantErr)
	}
	if !m.wantErr && o.status != m.status {
		return fmt.Sprintf("exit status %d, expected %d", o.status, m.status)
	}
	// stdout: the multiset of lines
	got := lines(o.stdout)
	pos := map[string]int{}
	for i, l := range got {
		if strings.HasPrefix(l, "R") && strings.Contains(l, " close ") {
			// the close value of the killed command: any non-zero number
			var k, v int
			if n, _ := fmt.Sscanf(l, "R%d close %d", &k, &v); n == 2 && k < len(c.Ops) && c.Ops[k].Dest == "c4" && v != 0 && v != -1 {
				l = fmt.Sprintf("R%d close ?", k)
			}
		}
		if _, dup := pos[l]; dup {
			return fmt.Sprintf("stdout line %q appears more than once", l)
		}
		pos[l] = i
	}
	want := map[string]string{}
	for _, l := range m.own {
		want[l] = "own"
	}
	for _, ch := range m.children {
		if sharesStdout(ch.dest) {
			for _, l := range ch.lines {
				want[l] = "child " + ch.dest
			}
		}
	}
	for _, l := range m.sysLines {
		want[l] = "system"
	}
	for l, who := range want {
		if _, ok := pos[l]; !ok {
			return fmt.Sprintf("stdout lacks the %s line %q (lost or corrupted)", who, l)
		}
	}
	for l := range pos {
		if _, ok := want[l]; !ok {
			return fmt.Sprintf("stdout has a line nobody wrote: %q (corrupted or misdirected)", l)
		}
	}
	// own lines in program order
	for i := 1; i < len(m.own); i++ {
		if pos[m.own[i-1]] > pos[m.own[i]] {
			return fmt.Sprintf("own stdout lines out of program order: %q after %q", m.own[i-1], m.own[i])
		}
	}
	lastOwnBefore := func(op int) int { // position of the last own line emitted by an op < op, or -1
		p := -1
		for i, l := range m.own {
			if m.ownOp[i] < op {
				p = pos[l]
			}
		}
		return p
	}
	firstOwnFrom := func(op int) int { // position of the first own line emitted by the result line of op (or later ops)
		for i, l := range m.own {
			if m.ownOp[i] >= op && strings.HasPrefix(l, "R") || m.ownOp[i] > op {
				return pos[l]
			}
		}
		return 1 << 30
	}
	for _, ch := range m.children {
		if !sharesStdout(ch.dest) {
			continue
		}
		for i, l := range ch.lines {
			if i > 0 && pos[ch.lines[i-1]] > pos[l] {
				return fmt.Sprintf("output of child %s out of order: %q after %q", ch.dest, ch.lines[i-1], l)
			}
			if pos[l] < lastOwnBefore(ch.openOp) {
				return fmt.Sprintf("child line %q precedes own output written before the command was started at op %d (no flush before starting the process)", l, ch.openOp)
			}
			if ch.closeOp >= 0 && pos[l] > firstOwnFrom(ch.closeOp) {
				return fmt.Sprintf("child line %q appears after output the program wrote after close() returned at op %d (close did not wait)", l, ch.closeOp)
			}
		}
	}
	for op, l := range m.sysLines {
		if pos[l] < lastOwnBefore(op) {
			return fmt.Sprintf("system() output %q precedes own output written before the call at op %d", l, op)
		}
		if pos[l] > firstOwnFrom(op) {
			return fmt.Sprintf("system() output %q appears after output written after the call returned at op %d", l, op)
		}
	}
	// stderr child lines exactly once
	for _, l := range m.stderrWant {
		if n := strings.Count("\n"+o.stderr, "\n"+l+"\n"); n != 1 {
			return fmt.Sprintf("stderr should contain the child line %q exactly once, found %d times", l, n)
		}
	}
	return ""
}

func prepare(dir string) {
	os.WriteFile(filepath.Join(dir, "f0"), []byte("old-f0\n"), 0o644)
	os.WriteFile(filepath.Join(dir, "f1"), []byte("old-f1\n"), 0o644)
	os.WriteFile(filepath.Join(dir, "p1"), []byte("old-p1\n"), 0o644)
}

func anyConcurrent(m *model) bool {
	for _, ch := range m.children {
		if ch.concurrent {
			return true
		}
	}
	return false
}

// fold runs of filler statements so that messages stay readable
func fold(src string) string {
	var out []string
	run := 0
	flush := func() {
		if run > 0 {
			out = append(out, fmt.Sprintf("  ... %d more filler print statements ...", run))
			run = 0
		}
	}
	for _, l := range strings.Split(src, "\n") {
		if strings.HasPrefix(l, "  print \"F") && !strings.HasSuffix(l, "-0\"") {
			run++
			continue
		}
		flush()
		out = append(out, l)
	}
	flush()
	return strings.Join(out, "\n")
}

func describe(c Case, m *model, o outcome) string {
	return fmt.Sprintf("via=%s end=%s where=%s\nprogram (D = sandbox dir):\n%s\nstdout:\n%s\nstderr: %s\nstatus=%d err=%q", c.Via, c.End, c.Where, fold(m.src), h.Trunc(o.stdout, 1500), h.Trunc(o.stderr, 400), o.status, o.err)
}

func runHistory(x *h.Ctx, c Case) string {
	m := build(c)
	dir := h.TempDir("c13")
	defer os.RemoveAll(dir)
	prepare(dir)
	o, ok := runCase(c, m, dir, h.GoawkBin)
	if !ok {
		x.Discard("wall-clock guard")
		return ""
	}
	if strings.Contains(o.stderr, "WaitDelay expired") {
		// goawk gives the goroutines copying a child's output 250 ms after the child has exited; on a
		// saturated machine that grace period can expire (system()/close() then report -1). Time is
		// not a correctness signal here: such a run is not judged.
		x.Discard("goawk's 250 ms I/O grace period expired (machine too busy)")
		return ""
	}
	if msg := judge(c, m, o); msg != "" {
		if h.KFOpen("KF-C13-4") && !x.Replaying() && (strings.Contains(msg, "stdout lacks the child") || strings.Contains(msg, "stdout lacks the system line")) {
			// KF-C13-4: goawk drops what is left of a child's output when it cannot be drained within 250 ms
			// after the child has exited.  On a starved machine that shows up at random; it is reported here
			// only if the very same case loses output again on two immediate re-runs.
			again := 0
			for i := 0; i < 2; i++ {
				d2 := h.TempDir("c13")
				prepare(d2)
				o2, ok2 := runCase(c, m, d2, h.GoawkBin)
				os.RemoveAll(d2)
				if ok2 && judge(c, m, o2) != "" {
					again++
				}
			}
			if again < 2 {
				x.Excluded("KF-C13-4")
				return ""
			}
		}
		return msg + "\n" + describe(c, m, o)
	}
	x.Class("via-" + c.Via)
	x.Class("end-" + c.End)
	if anyConcurrent(m) {
		x.Class("own-writes-while-child-shares-stdout")
	}
	if m.reopen {
		x.Class("close-then-reopen")
	}
	sharing := false
	for _, ch := range m.children {
		if sharesStdout(ch.dest) {
			sharing = true
		}
	}
	if m.ndest >= 2 && (m.reopen || sharing || m.abnormalUnflushed) {
		x.Nontrivial("")
	}
	return ""
}

// ---------------------------------------------------------------- race detector on the CLI

func runRace(x *h.Ctx, c Case) string {
	bin := os.Getenv("VERIF_GOAWK_RACE")
	if bin == "" {
		x.Discard("no race binary")
		return ""
	}
	if !strings.HasPrefix(c.Via, "cli") {
		c.Via = "cli-file"
	}
	m := build(c)
	dir := h.TempDir("c13r")
	defer os.RemoveAll(dir)
	prepare(dir)
	o, ok := runCase(c, m, dir, bin)
	if !ok {
		x.Discard("wall-clock guard")
		return ""
	}
	if strings.Contains(o.stderr, "DATA RACE") {
		return "the race detector reports a data race in goawk while running this program\n" + describe(c, m, outcome{stdout: o.stdout, stderr: h.Trunc(o.stderr, 3000), status: o.status, err: o.err})
	}
	if anyConcurrent(m) {
		x.Nontrivial("")
	}
	return ""
}

// ---------------------------------------------------------------- failing writer at every byte

type FaultCase struct {
	Prog   int `json:"prog"`
	K      int `json:"k"`      // the writer accepts exactly K bytes
	Buffer int `json:"buffer"` // 0 = raw writer, else bufio.Writer of that size around it
}

var faultProgs = []string{
	`BEGIN { for (i = 0; i < 12; i++) print "line", i }`,
	`BEGIN { for (i = 0; i < 12; i++) printf "%d:%s;", i, "abc" }`,
	`{ print NR, $0 } END { print "end" }`,
	`BEGIN { print "a"; print "bb" > "/dev/stdout"; print "ccc" > "-"; printf "dddd\n" }`,
	`BEGIN { print "before"; exit 3 } END { print "never" }`,
	`{ print $1; if (NR == 3) exit } END { print "end", NR }`,
	`$0`,
	`BEGIN { OFS = "-"; ORS = "|"; print "a", "b", "c"; print "d", "e" }`,
	`BEGIN { OUTPUTMODE = "csv"; print "a b", "c,d", "e\"f"; print "g" }`,
	`function f(n) { print "f", n; if (n > 0) f(n - 1) } BEGIN { f(6) }`,
	`BEGIN { print "x"; fflush(); print "y"; fflush(); print "z" }`,
	`BEGIN { print "a"; system(""); print "b" }`,
	`BEGIN { while (i++ < 3) { print "out", i; print "err", i > "/dev/stderr" } }`,
	`BEGIN { printf "no newline at end" }`,
	`END { print NR }`,
	`BEGIN { getline; print "got", $0; getline x; print "x", x }`,
	`BEGIN { print "1"; x = 1/0; print "2" }`,
	`BEGIN { print length("abc") length("de"); print substr("hello", 2, 3) }`,
	`BEGIN { s = sprintf("%c%c", 228, 246); print s }`,
	`BEGIN { for (i = 0; i < 3000; i++) printf "%s", "0123456789012345678901234567890123456789" }`,
	// child processes sharing standard output, in shapes whose fault-free output has one possible order
	`BEGIN { print "a" | "cat"; print "b" | "cat" }`,
	`BEGIN { print "own"; fflush(); print "c3\nc1\nc2" | "sort" }`,
	`BEGIN { print "x" | "cat"; close("cat"); print "after" }`,
	`BEGIN { system("echo from-system"); print "after" }`,
	`BEGIN { print "p1"; print "q" | "cat"; print "p2" }`,
	`{ print $1 | "sort -r" } END { close("sort -r"); print "done" }`,
	`BEGIN { print "k" | "cat"; exit 2 }`,
}

const faultStdin = "alpha 1\nbeta 2\ngamma 3\ndelta 4\n"

func faultFree(i int) (string, int, string) {
	prog, err := parser.ParseProgram([]byte(faultProgs[i]), nil)
	if err != nil {
		panic(err)
	}
	rec := &sandbox.Recorder{}
	st, err := interp.ExecProgram(prog, &interp.Config{Stdin: strings.NewReader(faultStdin), Output: rec, Error: &sandbox.Recorder{}, Environ: []string{"PATH", "/usr/bin:/bin"}})
	e := ""
	if err != nil {
		e = err.Error()
	}
	return rec.String(), st, e
}

func runFault(x *h.Ctx, c FaultCase) string {
	full, _, _ := faultFree(c.Prog)
	if c.K >= len(full) {
		x.Discard("k beyond output length")
		return ""
	}
	prog, _ := parser.ParseProgram([]byte(faultProgs[c.Prog]), nil)
	fa := &sandbox.FailAfter{N: c.K}
	cfg := &interp.Config{Stdin: strings.NewReader(faultStdin), Output: fa, Error: &sandbox.Recorder{}, Environ: []string{"PATH", "/usr/bin:/bin"}}
	if c.Buffer > 0 {
		cfg.Output = bufio.NewWriterSize(fa, c.Buffer)
	}
	st, err := interp.ExecProgram(prog, cfg)
	desc := fmt.Sprintf("program: %s\nthe output writer accepts %d of the %d bytes the program writes and then fails (buffer=%d)\nstatus=%d err=%v accepted=%q", faultProgs[c.Prog], c.K, len(full), c.Buffer, st, err, h.Trunc(string(fa.Accepted), 200))
	if string(fa.Accepted) != full[:c.K] {
		return "the bytes the writer accepted are not the first k bytes of the fault-free output\n" + desc
	}
	if err == nil {
		return "a failing write to standard output was swallowed: the run returned no error although output was lost\n" + desc
	}
	x.Nontrivial("")
	return ""
}

func enumFault(thorough bool, yield func(FaultCase) bool) {
	for p := range faultProgs {
		full, _, _ := faultFree(p)
		step := 1
		if len(full) > 400 {
			step = len(full)/300 + 1
			if thorough {
				step = len(full)/3000 + 1
			}
		}
		for _, buf := range []int{0, 16, 4096, 65536} {
			for k := 0; k < len(full); k += step {
				if !yield(FaultCase{Prog: p, K: k, Buffer: buf}) {
					return
				}
			}
		}
	}
}

func init() {
	h.Prop("history_vs_destination_model", 1600, 24000, genCase, runHistory)
	h.Prop("race_detector_cli", 160, 2400, func(t *rapid.T) Case {
		c := genCase(t)
		c.Fill = rapid.SampledFrom([]int{3, 40, 400}).Draw(t, "fill2")
		return c
	}, runRace)
	h.Enum("failing_writer_every_byte", enumFault, runFault)
}

// ---------------------------------------------------------------- a slow reader downstream of goawk

// SlowCase: a child process sharing standard output writes N bytes while whoever reads goawk's standard
// output does not read for DelayMS.  Every byte has to arrive (in order) once the reader does read.
type SlowCase struct {
	N       int    `json:"n"`        // bytes the child writes
	DelayMS int    `json:"delay_ms"` // the reader starts reading this long after goawk was started
	How     string `json:"how"`      // system | pipe-close | pipe-open-at-end
	Own     int    `json:"own"`      // lines goawk itself prints before and after
}

func genSlow(t *rapid.T) SlowCase {
	return SlowCase{N: rapid.SampledFrom([]int{10, 4000, 60000, 70000, 140000, 200000, 1000000}).Draw(t, "n"), DelayMS: rapid.SampledFrom([]int{0, 0, 100, 600, 1200}).Draw(t, "delay"),
		How: rapid.SampledFrom([]string{"system", "pipe-close", "pipe-open-at-end"}).Draw(t, "how"), Own: rapid.IntRange(0, 3).Draw(t, "own")}
}

func runSlow(x *h.Ctx, c SlowCase) string {
	child := fmt.Sprintf("head -c %d /dev/zero | tr '\\\\000' x; echo", c.N)
	var body strings.Builder
	for i := 0; i < c.Own; i++ {
		fmt.Fprintf(&body, "  print \"before%d\"\n", i)
	}
	switch c.How {
	case "system":
		fmt.Fprintf(&body, "  r = system(\"%s\"); print \"r=\" r\n", child)
	case "pipe-close":
		fmt.Fprintf(&body, "  print \"go\" | \"cat >/dev/null; %s\"; r = close(\"cat >/dev/null; %s\"); print \"r=\" r\n", child, child)
	default:
		fmt.Fprintf(&body, "  print \"go\" | \"cat >/dev/null; %s\"\n", child)
	}
	for i := 0; i < c.Own && c.How != "pipe-open-at-end"; i++ {
		fmt.Fprintf(&body, "  print \"after%d\"\n", i)
	}
	src := "BEGIN {\n" + body.String() + "}\n"
	ctx, cancel := context.WithTimeout(context.Background(), 60*time.Second)
	defer cancel()
	cmd := exec.CommandContext(ctx, h.GoawkBin, src)
	cmd.Stdin = strings.NewReader("")
	var errBuf bytes.Buffer
	cmd.Stderr = &errBuf
	pr, err := cmd.StdoutPipe()
	if err != nil {
		x.Discard("no pipe")
		return ""
	}
	if err := cmd.Start(); err != nil {
		x.Discard("cannot start goawk")
		return ""
	}
	time.Sleep(time.Duration(c.DelayMS) * time.Millisecond)
	data, _ := io.ReadAll(pr)
	werr := cmd.Wait()
	if ctx.Err() != nil {
		x.Discard("wall-clock guard")
		return ""
	}
	out := string(data)
	var want strings.Builder
	for i := 0; i < c.Own; i++ {
		fmt.Fprintf(&want, "before%d\n", i)
	}
	want.WriteString(strings.Repeat("x", c.N) + "\n")
	if c.How != "pipe-open-at-end" {
		want.WriteString("r=0\n")
		for i := 0; i < c.Own; i++ {
			fmt.Fprintf(&want, "after%d\n", i)
		}
	}
	x.Class("how-" + c.How)
	if out == want.String() && werr == nil {
		if c.N > 65536 && c.DelayMS >= 600 {
			x.Class("reader-slower-than-grace-period")
		}
		x.Nontrivial("")
		return ""
	}
	got := strings.Count(out, "x")
	// KF-C13-4: goawk gives up on a child's remaining output 250 ms after the child has exited (exec's WaitDelay),
	// whether the delay comes from a reader that stays away or from a busy machine.  Its one manifestation is
	// masked: the child's output is cut short (a proper prefix arrives, nothing is reordered or corrupted) and
	// everything else is as expected, with close()/system() reporting -1 or 0.
	if h.KFOpen("KF-C13-4") && werr == nil && (got < c.N || strings.Contains(errBuf.String(), "WaitDelay expired") || c.How == "pipe-open-at-end") {
		rest := out
		okShape := true
		for i := 0; i < c.Own; i++ {
			pre := fmt.Sprintf("before%d\n", i)
			if !strings.HasPrefix(rest, pre) {
				okShape = false
			}
			rest = strings.TrimPrefix(rest, pre)
		}
		rest = strings.TrimLeft(rest, "x")
		rest = strings.TrimPrefix(rest, "\n")
		if c.How != "pipe-open-at-end" {
			if strings.HasPrefix(rest, "r=-1\n") {
				rest = strings.TrimPrefix(rest, "r=-1\n")
			} else if strings.HasPrefix(rest, "r=0\n") {
				rest = strings.TrimPrefix(rest, "r=0\n")
			} else {
				okShape = false
			}
			for i := 0; i < c.Own; i++ {
				aft := fmt.Sprintf("after%d\n", i)
				if !strings.HasPrefix(rest, aft) {
					okShape = false
				}
				rest = strings.TrimPrefix(rest, aft)
			}
		}
		if okShape && rest == "" {
			x.Excluded("KF-C13-4")
			return ""
		}
	}
	return fmt.Sprintf("output of a child process sharing standard output did not arrive completely and in order\nchild wrote %d bytes, %d arrived; reader started after %d ms; how=%s; goawk exit: %v\nstderr: %s\nprogram:\n%sstdout (abridged): %s", c.N, got, c.DelayMS, c.How, werr, h.Trunc(errBuf.String(), 300), src, h.Trunc(strings.ReplaceAll(out, strings.Repeat("x", 50), "X"), 400))
}

func init() {
	h.Prop("child_output_with_slow_reader", 60, 600, genSlow, runSlow)
}
