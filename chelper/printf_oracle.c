/* printf_oracle: renders ONE conversion specification with the C library's
 * snprintf, for use as the oracle of property C09.
 *
 * Request (binary, little endian):
 *   u32 speclen, spec bytes (a complete conversion specification such as "%-+8.3lld")
 *   u8  nstar (0..2), then nstar x i32 (the values for '*')
 *   u8  type: 'd' long long, 'u' unsigned long long, 'f' double, 'c' int, 's' string, 'n' no argument
 *   value: 8 bytes for d/u/f, 4 bytes for c, u32 len + bytes for s (NUL-free), nothing for n
 * Response: u32 len, bytes (len = 0xFFFFFFFF on error)
 */
#include <stdio.h>
#include <stdlib.h>
#include <string.h>
#include <stdint.h>

static int rd(void *p, size_t n) { return fread(p, 1, n, stdin) == n; }

int main(void) {
    static char spec[1 << 16];
    static char sval[1 << 20];
    static char out[1 << 21];
    for (;;) {
        uint32_t speclen;
        if (!rd(&speclen, 4)) return 0;
        if (speclen >= sizeof spec) return 2;
        if (!rd(spec, speclen)) return 2;
        spec[speclen] = 0;
        uint8_t nstar;
        if (!rd(&nstar, 1) || nstar > 2) return 2;
        int32_t star[2] = {0, 0};
        for (int i = 0; i < nstar; i++) if (!rd(&star[i], 4)) return 2;
        uint8_t type;
        if (!rd(&type, 1)) return 2;
        long long d = 0; unsigned long long u = 0; double f = 0; int32_t c = 0;
        int n = -1;
        size_t cap = sizeof out;
        switch (type) {
        case 'd': if (!rd(&d, 8)) return 2; break;
        case 'u': if (!rd(&u, 8)) return 2; break;
        case 'f': if (!rd(&f, 8)) return 2; break;
        case 'c': if (!rd(&c, 4)) return 2; break;
        case 's': { uint32_t l; if (!rd(&l, 4) || l >= sizeof sval) return 2; if (!rd(sval, l)) return 2; sval[l] = 0; break; }
        case 'n': break;
        default: return 2;
        }
#define CALL(v) (nstar == 0 ? snprintf(out, cap, spec, v) : nstar == 1 ? snprintf(out, cap, spec, star[0], v) : snprintf(out, cap, spec, star[0], star[1], v))
        switch (type) {
        case 'd': n = CALL(d); break;
        case 'u': n = CALL(u); break;
        case 'f': n = CALL(f); break;
        case 'c': n = CALL((int)c); break;
        case 's': n = CALL(sval); break;
        case 'n': n = snprintf(out, cap, "%s", spec); break;
        }
        uint32_t len = (n < 0 || (size_t)n >= cap) ? 0xFFFFFFFFu : (uint32_t)n;
        fwrite(&len, 4, 1, stdout);
        if (len != 0xFFFFFFFFu) fwrite(out, 1, len, stdout);
        fflush(stdout);
    }
}
