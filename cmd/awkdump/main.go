// awkdump: developer tool - parse AWK sources given as arguments and show the
// harness's canonical tree, goawk's String() and the harness renderings.
package main

import (
	"fmt"
	"os"

	"verif/lib/awk"
)

func main() {
	for _, s := range os.Args[1:] {
		gp, p, err := awk.Parse(s)
		fmt.Printf("SRC   %s\n", s)
		if err != nil {
			fmt.Printf("ERR   %v\n\n", err)
			continue
		}
		fmt.Printf("TREE  %s", awk.CanonProgram(p, awk.CanonOpt{}))
		fmt.Printf("STR   %q\n", gp.String())
		fmt.Printf("MIN   %q\n", awk.RenderProgram(awk.CloneProgram(p), awk.Minimal))
		fmt.Printf("FULL  %q\n\n", awk.RenderProgram(awk.CloneProgram(p), awk.Full))
	}
}
