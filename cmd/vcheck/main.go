// vcheck is the driver of the /verif property checks.
//
//	vcheck <id> [quick|thorough] [--repo DIR] [--shards N] [--scale F] [--sub a,b]
//	vcheck <id> --replay <path> [--repo DIR]
//
// It rebuilds the property's test binary against the current working tree of
// /repo (or DIR), runs it in shards, merges the measured statistics into
// /verif/evidence/<id>.json and prints VIOLATION / KNOWN-FINDING lines.
// Exit status: 0 held, 1 violation, 2 inconclusive.
package main

import (
	"bytes"
	"context"
	"encoding/json"
	"fmt"
	"os"
	"os/exec"
	"path/filepath"
	"sort"
	"strconv"
	"strings"
	"sync"
	"syscall"
	"time"
)

type Meta struct {
	Rule             string   `json:"rule"`
	Assumptions      []string `json:"assumptions"`
	NeedsCLI         bool     `json:"needs_cli"`
	Race             bool     `json:"race"`     // build the harness with -race
	RaceCLI          bool     `json:"race_cli"` // additionally build a -race goawk binary
	Shards           int      `json:"shards"`
	QuickTimeoutS    int      `json:"quick_timeout_s"`
	ThoroughTimeoutS int      `json:"thorough_timeout_s"`
	CHelper          bool     `json:"c_helper"`
	MemLimitMB       int      `json:"mem_limit_mb"` // address-space limit of each worker (default 12000, 0 with -race): exhaustion is a Go fatal error instead of a machine-wide OOM kill
	OOMIsCrash       bool     `json:"oom_is_crash"` // memory exhaustion of a worker counts as a crash of the code under test (C02); otherwise the run is inconclusive
}

type KnownFinding struct {
	ID         string `json:"id"`
	Property   string `json:"property"`
	Status     string `json:"status"`
	Commit     string `json:"commit,omitempty"`
	What       string `json:"what"`
	Signature  string `json:"signature,omitempty"`
	Reproducer string `json:"reproducer,omitempty"`
}

type Failure struct {
	Sub    string `json:"sub"`
	Replay string `json:"replay"`
	Msg    string `json:"msg"`
}

type SubStats struct {
	Name        string            `json:"name"`
	Evaluations int               `json:"evaluations"`
	Requested   int               `json:"requested"`
	Exhaustive  bool              `json:"exhaustive,omitempty"`
	Discards    map[string]int    `json:"discards,omitempty"`
	Excluded    map[string]int    `json:"excluded,omitempty"`
	Classes     map[string]int    `json:"classes,omitempty"`
	Nontrivial  []uint64          `json:"nontrivial,omitempty"`
	Samples     []json.RawMessage `json:"samples,omitempty"`
	Notes       []string          `json:"notes,omitempty"`
	WallS       float64           `json:"wall_s"`
	Incomplete  string            `json:"incomplete,omitempty"`
}

type ShardStats struct {
	Property string      `json:"property"`
	Subs     []*SubStats `json:"subs"`
	Failures []Failure   `json:"failures,omitempty"`
	Done     bool        `json:"done"`
}

var root = "/verif"

func die2(format string, args ...any) {
	fmt.Fprintf(os.Stderr, "vcheck: INCONCLUSIVE: "+format+"\n", args...)
	os.Exit(2)
}

func baseEnv() []string {
	env := os.Environ()
	out := env[:0:0]
	for _, e := range env {
		if strings.HasPrefix(e, "GOFLAGS=") || strings.HasPrefix(e, "GOPROXY=") || strings.HasPrefix(e, "GOSUMDB=") || strings.HasPrefix(e, "GOTOOLCHAIN=") {
			continue
		}
		out = append(out, e)
	}
	out = append(out, "GOFLAGS=-mod=mod", "GOPROXY=off", "GOSUMDB=off", "GOTOOLCHAIN=local")
	return out
}

func run(dir string, env []string, name string, args ...string) (string, error) {
	cmd := exec.Command(name, args...)
	cmd.Dir = dir
	cmd.Env = env
	var buf bytes.Buffer
	cmd.Stdout = &buf
	cmd.Stderr = &buf
	err := cmd.Run()
	return buf.String(), err
}

func main() {
	if r := os.Getenv("VERIF_ROOT"); r != "" {
		root = r
	}
	args := os.Args[1:]
	if len(args) < 1 {
		fmt.Fprintln(os.Stderr, "usage: vcheck <id> [quick|thorough] [--replay path] [--repo DIR] [--shards N] [--scale F] [--sub names]")
		os.Exit(2)
	}
	id := strings.ToUpper(args[0])
	tier := os.Getenv("VERIF_TIER")
	if tier == "" {
		tier = "quick"
	}
	repo := "/repo"
	replay := ""
	shardsOverride := 0
	scale := ""
	onlySub := ""
	for i := 1; i < len(args); i++ {
		switch args[i] {
		case "quick", "thorough":
			tier = args[i]
		case "--replay":
			i++
			replay = args[i]
		case "--repo":
			i++
			repo = args[i]
		case "--shards":
			i++
			shardsOverride, _ = strconv.Atoi(args[i])
		case "--scale":
			i++
			scale = args[i]
		case "--sub":
			i++
			onlySub = args[i]
		default:
			die2("unknown argument %q", args[i])
		}
	}
	seed := 1
	if s := os.Getenv("VERIF_SEED"); s != "" {
		if n, err := strconv.Atoi(s); err == nil {
			seed = n
		}
	}
	lid := strings.ToLower(id)
	pkgDir := filepath.Join(root, "props", lid)
	var meta Meta
	if data, err := os.ReadFile(filepath.Join(pkgDir, "meta.json")); err != nil {
		die2("no such property package: %v", err)
	} else if err := json.Unmarshal(data, &meta); err != nil {
		die2("bad meta.json: %v", err)
	}
	if meta.Shards == 0 {
		meta.Shards = 8
	}
	if shardsOverride > 0 {
		meta.Shards = shardsOverride
	}
	if meta.QuickTimeoutS == 0 {
		meta.QuickTimeoutS = 900
	}
	if meta.ThoroughTimeoutS == 0 {
		meta.ThoroughTimeoutS = 3600
	}
	start := time.Now()
	env := baseEnv()

	work := filepath.Join(root, ".work", lid)
	if repo != "/repo" {
		work = filepath.Join(root, ".work", lid+"-alt")
	}
	// one run per work directory at a time: a second invocation of the same check waits for the first
	os.MkdirAll(filepath.Join(root, ".work"), 0o755)
	if lf, err := os.OpenFile(work+".lock", os.O_CREATE|os.O_RDWR, 0o644); err == nil {
		syscall.Flock(int(lf.Fd()), syscall.LOCK_EX)
		defer lf.Close()
	}
	os.RemoveAll(work)
	os.MkdirAll(filepath.Join(work, "tmp"), 0o755)
	binDir := filepath.Join(work, "bin")
	os.MkdirAll(binDir, 0o755)

	// 1. the repository itself must compile
	if out, err := run(repo, env, "go", "build", "./..."); err != nil {
		die2("%s does not compile:\n%s", repo, out)
	}
	// 2. build the harness against that tree
	modArgs := []string{}
	if repo != "/repo" {
		gm, err := os.ReadFile(filepath.Join(root, "go.mod"))
		if err != nil {
			die2("%v", err)
		}
		alt := strings.Replace(string(gm), "=> /repo", "=> "+repo, 1)
		altMod := filepath.Join(work, "alt.mod")
		os.WriteFile(altMod, []byte(alt), 0o644)
		if gs, err := os.ReadFile(filepath.Join(root, "go.sum")); err == nil {
			os.WriteFile(filepath.Join(work, "alt.sum"), gs, 0o644)
		}
		modArgs = []string{"-modfile=" + altMod}
	}
	testBin := filepath.Join(binDir, lid+".test")
	buildArgs := append([]string{"test", "-c", "-vet=off"}, modArgs...)
	if meta.Race {
		buildArgs = append(buildArgs, "-race")
	}
	buildArgs = append(buildArgs, "-o", testBin, "./props/"+lid)
	if out, err := run(root, env, "go", buildArgs...); err != nil {
		die2("harness for %s does not build against %s:\n%s", id, repo, out)
	}
	goawkBin := filepath.Join(binDir, "goawk")
	goawkRace := filepath.Join(binDir, "goawk-race")
	if meta.NeedsCLI {
		if out, err := run(repo, env, "go", "build", "-o", goawkBin, "."); err != nil {
			die2("goawk binary does not build:\n%s", out)
		}
	}
	if meta.RaceCLI {
		if out, err := run(repo, env, "go", "build", "-race", "-o", goawkRace, "."); err != nil {
			die2("goawk -race binary does not build:\n%s", out)
		}
	}
	cprintf := filepath.Join(root, "bin", "printf_oracle")
	if meta.CHelper {
		if _, err := os.Stat(cprintf); err != nil {
			os.MkdirAll(filepath.Join(root, "bin"), 0o755)
			if out, err := run(root, env, "gcc", "-O1", "-o", cprintf, "chelper/printf_oracle.c"); err != nil {
				die2("cannot build the libc printf helper:\n%s", out)
			}
		}
	}

	commonEnv := append(append([]string{}, env...),
		"VERIF_PROPERTY="+id,
		"VERIF_TIER="+tier,
		"VERIF_SEED="+strconv.Itoa(seed),
		"VERIF_KF="+filepath.Join(root, "known_findings.json"),
		"VERIF_GOAWK="+goawkBin,
		"VERIF_GOAWK_RACE="+goawkRace,
		"VERIF_CPRINTF="+cprintf,
		"VERIF_REPO="+repo,
		"VERIF_ROOT="+root,
	)
	if scale != "" {
		commonEnv = append(commonEnv, "VERIF_SCALE="+scale)
	}
	if meta.MemLimitMB == 0 && !meta.Race {
		meta.MemLimitMB = 12000
	}
	if meta.MemLimitMB > 0 {
		commonEnv = append(commonEnv, "VERIF_MEMLIMIT_MB="+strconv.Itoa(meta.MemLimitMB))
	}
	if onlySub != "" {
		commonEnv = append(commonEnv, "VERIF_SUB="+onlySub)
	}

	// ------------------------------------------------------------------ replay
	if replay != "" {
		abs, _ := filepath.Abs(replay)
		e := append(append([]string{}, commonEnv...), "VERIF_REPLAY="+abs, "VERIF_WORK="+filepath.Join(work, "tmp"), "VERIF_NO_KF=1")
		out, _ := run(pkgDir, e, testBin, "-test.run", "^TestReplay$", "-test.timeout", "600s")
		switch {
		case strings.Contains(out, "REPLAY-OK"):
			fmt.Printf("replay of %s: property holds on this case\n", replay)
			os.Exit(0)
		case strings.Contains(out, "REPLAY-FAIL"):
			fmt.Print(out)
			fmt.Printf("VIOLATION property=%s replay=%s\n", id, abs)
			os.Exit(1)
		default:
			fmt.Print(out)
			die2("replay could not be decided")
		}
	}

	// ------------------------------------------------------------------ shards
	replayDir := filepath.Join(root, "replays", lid)
	if repo != "/repo" {
		replayDir = filepath.Join(work, "replays")
	}
	os.RemoveAll(replayDir) // replays of earlier runs are stale; reproducers worth keeping live under known/
	os.MkdirAll(replayDir, 0o755)
	timeout := time.Duration(meta.QuickTimeoutS) * time.Second
	if tier == "thorough" {
		timeout = time.Duration(meta.ThoroughTimeoutS) * time.Second
	}
	ctx, cancel := context.WithTimeout(context.Background(), timeout)
	defer cancel()
	type shardResult struct {
		stats    *ShardStats
		log      string
		exitErr  error
		timedOut bool
		current  []byte
	}
	results := make([]shardResult, meta.Shards)
	var wg sync.WaitGroup
	for i := 0; i < meta.Shards; i++ {
		wg.Add(1)
		go func(i int) {
			defer wg.Done()
			outFile := filepath.Join(work, fmt.Sprintf("shard-%d.json", i))
			tmp := filepath.Join(work, "tmp", fmt.Sprintf("s%d", i))
			os.MkdirAll(tmp, 0o755)
			e := append(append([]string{}, commonEnv...),
				"VERIF_SHARD="+strconv.Itoa(i),
				"VERIF_NSHARDS="+strconv.Itoa(meta.Shards),
				"VERIF_OUT="+outFile,
				"VERIF_REPLAY_DIR="+replayDir,
				"VERIF_WORK="+tmp,
				"TMPDIR="+tmp,
			)
			cmd := exec.CommandContext(ctx, testBin, "-test.run", "^TestAll$", "-test.timeout", "0", "-test.v")
			cmd.Dir = pkgDir
			cmd.Env = e
			cmd.WaitDelay = 5 * time.Second
			var buf bytes.Buffer
			cmd.Stdout = &buf
			cmd.Stderr = &buf
			err := cmd.Run()
			r := shardResult{log: buf.String(), exitErr: err}
			if ctx.Err() != nil {
				r.timedOut = true
			}
			if data, err := os.ReadFile(outFile); err == nil {
				var st ShardStats
				if json.Unmarshal(data, &st) == nil {
					r.stats = &st
				}
			}
			r.current, _ = os.ReadFile(outFile + ".current")
			os.WriteFile(filepath.Join(work, fmt.Sprintf("shard-%d.log", i)), buf.Bytes(), 0o644)
			results[i] = r
		}(i)
	}
	wg.Wait()

	// ------------------------------------------------------------------ merge
	inconclusive := []string{}
	type vio struct{ sub, replay, msg string }
	var violations []vio
	seenSub := map[string]bool{}
	merged := map[string]*SubStats{}
	order := []string{}
	ntSets := map[string]map[uint64]struct{}{}
	for i, r := range results {
		if r.stats == nil || !r.stats.Done {
			if r.timedOut {
				inconclusive = append(inconclusive, fmt.Sprintf("shard %d timed out after %v", i, timeout))
				continue
			}
			lg := r.log
			if !meta.OOMIsCrash && (strings.Contains(lg, "out of memory") || strings.Contains(lg, "cannot allocate memory")) {
				inconclusive = append(inconclusive, fmt.Sprintf("shard %d ran out of memory (worker limit %d MB): the harness, not goawk, is the likely cause\n%s", i, meta.MemLimitMB, tail(lg, 1500)))
				continue
			}
			if strings.Contains(lg, "panic:") || strings.Contains(lg, "fatal error:") || strings.Contains(lg, "DATA RACE") {
				// the worker died from a Go runtime failure: that is a crash of the code under test
				path := filepath.Join(replayDir, fmt.Sprintf("crash-shard%d.json", i))
				if len(r.current) > 0 {
					os.WriteFile(path, r.current, 0o644)
				} else {
					os.WriteFile(path, []byte(fmt.Sprintf("{\"property\":%q,\"sub\":\"worker-crash\",\"msg\":%q}", id, tail(lg, 4000))), 0o644)
				}
				violations = append(violations, vio{"worker-crash", path, tail(lg, 3000)})
				continue
			}
			inconclusive = append(inconclusive, fmt.Sprintf("shard %d died without statistics (%v):\n%s", i, r.exitErr, tail(lg, 2000)))
			continue
		}
		for _, s := range r.stats.Subs {
			m := merged[s.Name]
			if m == nil {
				m = &SubStats{Name: s.Name, Discards: map[string]int{}, Excluded: map[string]int{}, Classes: map[string]int{}, Exhaustive: true}
				merged[s.Name] = m
				order = append(order, s.Name)
				ntSets[s.Name] = map[uint64]struct{}{}
			}
			m.Evaluations += s.Evaluations
			m.Requested += s.Requested
			m.Exhaustive = m.Exhaustive && s.Exhaustive
			for k, v := range s.Discards {
				m.Discards[k] += v
			}
			for k, v := range s.Excluded {
				m.Excluded[k] += v
			}
			for k, v := range s.Classes {
				m.Classes[k] += v
			}
			for _, hv := range s.Nontrivial {
				ntSets[s.Name][hv] = struct{}{}
			}
			if len(m.Samples) < 4 {
				for _, sm := range s.Samples {
					if len(m.Samples) < 4 {
						m.Samples = append(m.Samples, sm)
					}
				}
			}
			m.Notes = append(m.Notes, s.Notes...)
			if s.WallS > m.WallS {
				m.WallS = s.WallS
			}
			if s.Incomplete != "" {
				inconclusive = append(inconclusive, fmt.Sprintf("sub-check %s incomplete: %s", s.Name, s.Incomplete))
			}
		}
		for _, f := range r.stats.Failures {
			if !seenSub[f.Sub] {
				seenSub[f.Sub] = true
				violations = append(violations, vio{f.Sub, f.Replay, f.Msg})
			}
		}
		if r.exitErr != nil && len(r.stats.Failures) == 0 {
			if strings.Contains(r.log, "DATA RACE") {
				path := filepath.Join(replayDir, fmt.Sprintf("race-shard%d.log", i))
				os.WriteFile(path, []byte(r.log), 0o644)
				violations = append(violations, vio{"data-race", path, tail(r.log, 3000)})
			} else {
				inconclusive = append(inconclusive, fmt.Sprintf("shard %d failed without a recorded case:\n%s", i, tail(r.log, 2500)))
			}
		}
	}

	// ------------------------------------------------------------------ known findings
	var kfs []KnownFinding
	if data, err := os.ReadFile(filepath.Join(root, "known_findings.json")); err == nil {
		json.Unmarshal(data, &kfs)
	}
	kfLines := []string{}
	// regression tier: reproducers of fixed findings and every saved case under
	// known/<id>/regress-*.json must hold; a fixed finding that comes back is a violation
	regress := []string{}
	for _, k := range kfs {
		if k.Property == id && k.Status == "fixed" && k.Reproducer != "" {
			regress = append(regress, filepath.Join(root, k.Reproducer))
		}
	}
	if more, _ := filepath.Glob(filepath.Join(root, "known", lid, "regress-*.json")); len(more) > 0 {
		regress = append(regress, more...)
	}
	regressRun := 0
	for _, path := range regress {
		e := append(append([]string{}, commonEnv...), "VERIF_REPLAY="+path, "VERIF_WORK="+filepath.Join(work, "tmp"), "VERIF_NO_KF=1")
		out, _ := run(pkgDir, e, testBin, "-test.run", "^TestReplay$", "-test.timeout", "600s")
		switch {
		case strings.Contains(out, "REPLAY-FAIL"):
			violations = append(violations, vio{"regression", path, "a saved regression case fails again:\n" + tail(out, 2000)})
			regressRun++
		case strings.Contains(out, "REPLAY-OK"):
			regressRun++
		default:
			inconclusive = append(inconclusive, fmt.Sprintf("regression case %s could not be decided:\n%s", path, tail(out, 1500)))
		}
	}
	for _, k := range kfs {
		if k.Property != id || k.Status != "open" {
			continue
		}
		if k.Reproducer == "" {
			kfLines = append(kfLines, fmt.Sprintf("KNOWN-FINDING: property=%s %s: %s", id, k.ID, k.What))
			continue
		}
		e := append(append([]string{}, commonEnv...), "VERIF_REPLAY="+filepath.Join(root, k.Reproducer), "VERIF_WORK="+filepath.Join(work, "tmp"), "VERIF_NO_KF=1")
		out, _ := run(pkgDir, e, testBin, "-test.run", "^TestReplay$", "-test.timeout", "600s")
		switch {
		case strings.Contains(out, "REPLAY-FAIL"):
			kfLines = append(kfLines, fmt.Sprintf("KNOWN-FINDING: property=%s %s: %s", id, k.ID, k.What))
		case strings.Contains(out, "REPLAY-OK"):
			fmt.Fprintf(os.Stderr, "vcheck: note: open known finding %s no longer reproduces\n", k.ID)
		default:
			fmt.Fprintf(os.Stderr, "vcheck: note: reproducer of %s could not be decided:\n%s\n", k.ID, tail(out, 1500))
		}
	}

	// ------------------------------------------------------------------ evidence
	totalEval, totalNT := 0, 0
	allExh := len(order) > 0
	subsOut := map[string]any{}
	var samples []any
	discards := map[string]int{}
	excluded := map[string]int{}
	sort.Strings(order)
	for _, name := range order {
		m := merged[name]
		totalEval += m.Evaluations
		nt := len(ntSets[name])
		totalNT += nt
		allExh = allExh && m.Exhaustive
		so := map[string]any{"evaluations": m.Evaluations, "requested": m.Requested, "distinct_nontrivial": nt, "wall_s": round2(m.WallS)}
		if m.Exhaustive {
			so["exhaustive"] = true
		}
		if len(m.Classes) > 0 {
			so["classes"] = m.Classes
		}
		if len(m.Discards) > 0 {
			so["discards"] = m.Discards
		}
		if len(m.Excluded) > 0 {
			so["excluded_by_known_finding"] = m.Excluded
		}
		if len(m.Notes) > 0 {
			so["notes"] = dedupe(m.Notes)
		}
		subsOut[name] = so
		for k, v := range m.Discards {
			discards[name+"/"+k] += v
		}
		for k, v := range m.Excluded {
			excluded[k] += v
		}
		for j, sm := range m.Samples {
			if j >= 2 {
				break
			}
			samples = append(samples, map[string]any{"sub": name, "case": sm})
		}
	}
	if len(samples) == 0 {
		samples = append(samples, "no non-trivial case was recorded in this run")
	}
	ev := map[string]any{
		"property_id": id,
		"tier":        tier,
		"seed":        seed,
		"level":       "exploration",
		"coverage": map[string]any{
			"evaluations":               totalEval,
			"distinct_nontrivial":       totalNT,
			"rule":                      meta.Rule,
			"samples":                   samples,
			"exhaustive":                allExh,
			"sub_checks":                subsOut,
			"discards":                  discards,
			"excluded_by_known_finding": excluded,
			"shards":                    meta.Shards,
			"regression_cases_replayed": regressRun,
		},
		"assumptions": meta.Assumptions,
		"wall_s":      round2(time.Since(start).Seconds()),
		"violations":  len(violations),
	}
	if len(inconclusive) > 0 {
		ev["coverage"].(map[string]any)["inconclusive"] = inconclusive
	}
	if repo == "/repo" && onlySub == "" && scale == "" { // partial or scaled development runs never replace the evidence of a full run
		os.MkdirAll(filepath.Join(root, "evidence"), 0o755)
		data, _ := json.MarshalIndent(ev, "", " ")
		os.WriteFile(filepath.Join(root, "evidence", id+".json"), append(data, '\n'), 0o644)
	}

	// ------------------------------------------------------------------ report
	for _, l := range kfLines {
		fmt.Println(l)
	}
	fmt.Printf("%s %s seed=%d: %d evaluations, %d distinct non-trivial, %d sub-checks, %.1fs\n", id, tier, seed, totalEval, totalNT, len(order), time.Since(start).Seconds())
	for _, name := range order {
		m := merged[name]
		fmt.Printf("  %-28s eval=%-8d nontrivial=%-8d discards=%v excluded=%v\n", name, m.Evaluations, len(ntSets[name]), m.Discards, m.Excluded)
	}
	if len(violations) > 0 {
		for _, v := range violations {
			fmt.Printf("--- violation in sub-check %s ---\n%s\n", v.sub, firstLines(v.msg, 40))
			fmt.Printf("VIOLATION property=%s replay=%s\n", id, v.replay)
		}
		os.Exit(1)
	}
	if len(inconclusive) > 0 {
		for _, s := range inconclusive {
			fmt.Fprintf(os.Stderr, "vcheck: INCONCLUSIVE: %s\n", s)
		}
		os.Exit(2)
	}
	// clean the work area of a successful run (keeps disk use down)
	os.RemoveAll(filepath.Join(work, "tmp"))
	os.Exit(0)
}

func round2(f float64) float64 { return float64(int(f*100+0.5)) / 100 }

func tail(s string, n int) string {
	if len(s) <= n {
		return s
	}
	return "..." + s[len(s)-n:]
}

func firstLines(s string, n int) string {
	lines := strings.Split(s, "\n")
	if len(lines) > n {
		lines = append(lines[:n], "...")
	}
	return strings.Join(lines, "\n")
}

func dedupe(in []string) []string {
	seen := map[string]bool{}
	var out []string
	for _, s := range in {
		if !seen[s] {
			seen[s] = true
			out = append(out, s)
		}
	}
	return out
}
