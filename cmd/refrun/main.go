// refrun: developer tool - run an AWK program file on the reference evaluator (and goawk) in a directory.
//   refrun prog.awk [operands...] < stdin     (files are looked up in the current directory)
package main

import (
	"fmt"
	"io"
	"os"

	"github.com/benhoyt/goawk/parser"

	"verif/lib/awk"
	"verif/lib/runner"
)

func main() {
	src, err := os.ReadFile(os.Args[1])
	if err != nil {
		panic(err)
	}
	stdin, _ := io.ReadAll(os.Stdin)
	gp, err := parser.ParseProgram(src, nil)
	if err != nil {
		fmt.Println("parse error:", err)
		return
	}
	tree, err := awk.FromGoawk(gp)
	if err != nil {
		panic(err)
	}
	files := map[string]string{}
	entries, _ := os.ReadDir(".")
	for _, e := range entries {
		if !e.IsDir() {
			d, _ := os.ReadFile(e.Name())
			files[e.Name()] = string(d)
		}
	}
	o, res := runner.Reference(tree, gp, string(stdin), os.Args[2:], nil, runner.Sandbox{Files: files}, 200000)
	fmt.Printf("reference: steps=%d exhausted=%v orderdep=%v nonfinite=%v\n%s", res.Steps, res.Exhausted, res.OrderDependent, res.NonFinite, o)
}
